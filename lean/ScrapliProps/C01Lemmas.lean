import ScrapliModel.Channel.Chan
import ScrapliModel.Gen.ChanConsts
/- Helper lemmas for C01 / C02 (channel).  Property theorems are in C01.lean / C02.lean. -/
namespace Scrapli.Chan
open Scrapli

/-! ### splitNL -/

theorem splitNL_ne_nil (b : Bytes) : splitNL b ≠ [] := by
  cases b with
  | nil => simp [splitNL]
  | cons c r =>
    unfold splitNL
    split
    · simp
    · split <;> simp

theorem splitNL_cons (c : UInt8) (r : Bytes) :
    splitNL (c :: r) =
      if c == NL then [] :: splitNL r else (c :: (splitNL r).headD []) :: (splitNL r).tail := by
  have h := splitNL_ne_nil r
  conv => lhs; unfold splitNL
  cases hs : splitNL r with
  | nil => exact absurd hs h
  | cons l ls => simp

theorem splitNL_noNL (b : Bytes) (h : NL ∉ b) : splitNL b = [b] := by
  induction b with
  | nil => simp [splitNL]
  | cons c r ih =>
    have hc : c ≠ NL := fun e => h (by simp [e])
    have hr : NL ∉ r := fun e => h (by simp [e])
    rw [splitNL_cons, ih hr]
    simp [hc]

/-- `split` distributes over a separator -/
theorem splitNL_append_NL (a b : Bytes) : splitNL (a ++ NL :: b) = splitNL a ++ splitNL b := by
  induction a with
  | nil => rw [List.nil_append, splitNL_cons]; simp [splitNL]
  | cons c r ih =>
    rw [List.cons_append, splitNL_cons, ih, splitNL_cons]
    have h := splitNL_ne_nil r
    by_cases hc : c = NL
    · simp [hc]
    · cases hs : splitNL r with
      | nil => exact absurd hs h
      | cons l ls => simp [hc]

/-- general concatenation: the last line of `a` and the first line of `b` are glued -/
theorem splitNL_append (a b : Bytes) :
    splitNL (a ++ b) =
      (splitNL a).dropLast ++ ((splitNL a).getLastD [] ++ (splitNL b).headD []) :: (splitNL b).tail := by
  induction a with
  | nil =>
    have h := splitNL_ne_nil b
    cases hs : splitNL b with
    | nil => exact absurd hs h
    | cons l ls => simp [splitNL, hs]
  | cons c r ih =>
    rw [List.cons_append, splitNL_cons, ih, splitNL_cons]
    have h := splitNL_ne_nil r
    cases hs : splitNL r with
    | nil => exact absurd hs h
    | cons l ls =>
      by_cases hc : c = NL
      · simp [hc]
      · cases ls with
        | nil => simp [hc]
        | cons l2 ls2 => simp [hc]

/-! ### Quiet: no segment of any line satisfies the line predicate -/

/-- no contiguous segment of any line of `x` satisfies `P` -/
def Quiet (P : Bytes → Bool) (x : Bytes) : Prop :=
  ∀ L ∈ splitNL x, ∀ s, s <:+: L → P s = false

theorem infix_of_infix_prefix {s a b : Bytes} (h : s <:+: a) : s <:+: a ++ b :=
  List.IsInfix.trans h (List.prefix_append a b).isInfix

theorem infix_of_infix_suffix {s a b : Bytes} (h : s <:+: b) : s <:+: a ++ b :=
  List.IsInfix.trans h (List.suffix_append a b).isInfix

theorem quiet_prefix {P : Bytes → Bool} {y b : Bytes} (h : Quiet P (y ++ b)) : Quiet P y := by
  intro L hL s hs
  rw [Quiet, splitNL_append] at h
  have hne := splitNL_ne_nil y
  -- L is in dropLast or is the last line
  rcases List.eq_nil_or_concat (splitNL y) with hnil | ⟨init, last, hcat⟩
  · exact absurd hnil hne
  · rw [List.concat_eq_append] at hcat
    rw [hcat] at hL
    rw [hcat] at h
    simp only [List.dropLast_concat, List.getLastD_concat] at h
    rcases List.mem_append.mp hL with hin | hlast
    · exact h L (by simp [hin]) s hs
    · have : L = last := by simpa using hlast
      subst this
      exact h (L ++ (splitNL b).headD []) (by simp) s (infix_of_infix_prefix hs)

theorem quiet_suffix {P : Bytes → Bool} {a y : Bytes} (h : Quiet P (a ++ y)) : Quiet P y := by
  intro L hL s hs
  rw [Quiet, splitNL_append] at h
  have hne := splitNL_ne_nil y
  cases hy : splitNL y with
  | nil => exact absurd hy hne
  | cons l ls =>
    rw [hy] at hL h
    simp only [List.headD_cons, List.tail_cons] at h
    rcases List.mem_cons.mp hL with rfl | hin
    · exact h ((splitNL a).getLastD [] ++ L) (by simp) s (infix_of_infix_suffix hs)
    · exact h L (by simp [hin]) s hs

theorem quiet_infix {P : Bytes → Bool} {x y : Bytes} (h : Quiet P x) (hy : y <:+: x) : Quiet P y := by
  obtain ⟨a, b, rfl⟩ := hy
  exact quiet_suffix (quiet_prefix h)

theorem quiet_any {P : Bytes → Bool} {x : Bytes} (h : Quiet P x) : (splitNL x).any P = false := by
  rw [List.any_eq_false]
  intro L hL
  simp [h L hL L (List.infix_refl L)]

/-! ### the search window -/

theorem takeLast_suffix (d : Nat) (b : Bytes) : takeLast d b <:+ b := List.drop_suffix _ _

theorem takeWhile_prefix' (p : UInt8 → Bool) (w : Bytes) : w.takeWhile p <+: w := List.takeWhile_prefix p

theorem processReadBuf_infix (d : Nat) (b : Bytes) : processReadBuf d b <:+: b := by
  unfold processReadBuf partitionNL
  simp only
  have hw := (takeLast_suffix d b).isInfix
  split
  · exact List.IsInfix.trans (takeWhile_prefix' _ _).isInfix hw
  · have h1 : ((takeLast d b).dropWhile (· != NL)).drop 1 <:+ takeLast d b :=
      List.IsSuffix.trans (List.drop_suffix _ _) (List.dropWhile_suffix _)
    exact List.IsInfix.trans h1.isInfix hw

/-- nothing in a quiet buffer looks like a prompt, whatever the window -/
theorem window_quiet {P : Bytes → Bool} (d : Nat) {b : Bytes} (h : Quiet P b) :
    (splitNL (processReadBuf d b)).any P = false :=
  quiet_any (quiet_infix h (processReadBuf_infix d b))

theorem takeLast_append (d : Nat) (x y : Bytes) (h : y.length ≤ d) :
    takeLast d (x ++ y) = takeLast (d - y.length) x ++ y := by
  unfold takeLast
  rw [List.length_append]
  have : x.length + y.length - d = x.length - (d - y.length) := by omega
  rw [this, List.drop_append_of_le_length (by omega)]

/-- what follows the first newline of `w0 ++ NL :: z` ends with the whole of `z` -/
theorem after_ends (w0 z : Bytes) :
    ((w0 ++ NL :: z).dropWhile (· != NL)).drop 1 = z ∨
    ∃ v, ((w0 ++ NL :: z).dropWhile (· != NL)).drop 1 = v ++ NL :: z := by
  induction w0 with
  | nil => left; simp
  | cons c r ih =>
    by_cases hc : c = NL
    · right; exact ⟨r, by simp [hc]⟩
    · have : (c != NL) = true := by simpa using hc
      simp only [List.cons_append, List.dropWhile_cons, this, ↓reduceIte]
      exact ih

/-- once a complete last line shorter than the window is there, the window contains it whole -/
theorem window_keeps_last_line (d : Nat) (x z : Bytes) (hz : z ≠ []) (hnl : NL ∉ z)
    (hd : z.length < d) : z ∈ splitNL (processReadBuf d (x ++ NL :: z)) := by
  unfold processReadBuf partitionNL
  simp only
  have hw : takeLast d (x ++ NL :: z) = takeLast (d - (z.length + 1)) x ++ NL :: z := by
    have := takeLast_append d x (NL :: z) (by simp; omega)
    simpa using this
  rw [hw]
  rcases after_ends (takeLast (d - (z.length + 1)) x) z with h | ⟨v, h⟩
  · rw [h]
    simp [hz, splitNL_noNL z hnl]
  · rw [h]
    simp [splitNL_append_NL, splitNL_noNL z hnl]

/-! ### the read loop -/

theorem readLoop_none_of_all_false (stop : Bytes → Bool) :
    ∀ (cs : List Bytes) (acc : Bytes),
      (∀ j, 1 ≤ j → j ≤ cs.length → stop (acc ++ (cs.take j).flatten) = false) →
      readLoop stop acc cs = none := by
  intro cs
  induction cs with
  | nil => intro acc _; rfl
  | cons c cs ih =>
    intro acc h
    unfold readLoop
    have h1 := h 1 (by omega) (by simp)
    simp only [List.take_succ_cons, List.take_zero, List.flatten_cons, List.flatten_nil,
      List.append_nil] at h1
    simp only [h1]
    rw [ih (acc ++ c)]
    · rfl
    · intro j hj1 hj2
      have := h (j + 1) (by omega) (by simp; omega)
      simpa [List.append_assoc] using this

end Scrapli.Chan

namespace Scrapli.Chan
open Scrapli

/-! ### prompts -/

/-- nothing matches before the last byte of the prompt has arrived: no segment of a proper prefix
    of `p` satisfies `P` -/
def NoEarly (P : Bytes → Bool) (p : Bytes) : Prop :=
  ∀ q, q <+: p → q ≠ p → ∀ s, s <:+: q → P s = false

/-- the prompt followed by any part of its trailing blanks is recognised -/
def PromptOK (P : Bytes → Bool) (p t : Bytes) : Prop := ∀ t', t' <+: t → P (p ++ t') = true

theorem not_mem_of_prefix {q p : Bytes} (h : q <+: p) (hp : NL ∉ p) : NL ∉ q :=
  fun hq => hp (h.subset hq)

/-- every proper prefix of `body ++ NL :: p` is quiet -/
theorem quiet_before_prompt {P : Bytes → Bool} {body p y : Bytes} (hb : Quiet P body)
    (he : NoEarly P p) (hnl : NL ∉ p) (hy : y <+: body ++ NL :: p) (hlen : y.length < (body ++ NL :: p).length) :
    Quiet P y := by
  obtain ⟨r, hr⟩ := hy
  rcases List.append_eq_append_iff.mp hr with ⟨a', h1, _⟩ | ⟨c', h1, h2⟩
  · -- y is a prefix of body
    exact quiet_prefix (h1 ▸ hb)
  · -- y = body ++ c', NL :: p = c' ++ r
    subst h1
    cases c' with
    | nil => simpa using hb
    | cons c q =>
      simp only [List.cons_append, List.cons.injEq] at h2
      obtain ⟨rfl, hq⟩ := h2
      have hqp : q <+: p := ⟨r, hq.symm⟩
      have hne : q ≠ p := by
        intro e; subst e
        simp at hlen
      have hqnl : NL ∉ q := not_mem_of_prefix hqp hnl
      intro L hL s hs
      rw [splitNL_append_NL, splitNL_noNL q hqnl] at hL
      rcases List.mem_append.mp hL with hin | hq'
      · exact hb L hin s hs
      · have : L = q := by simpa using hq'
        subst this
        exact he L hqp hne s hs

/-- the core of `_read_until_prompt`: over ANY list of pieces whose concatenation is
    `body ++ NL :: p ++ t`, the loop stops exactly at the first piece boundary at which the whole
    prompt has arrived; it returns everything up to there and consumes nothing more -/
theorem readLoop_prompt {P : Bytes → Bool} (pat : Pat) (d : Nat) (body p t : Bytes)
    (hS : ∀ w, pat.search w = (splitNL w).any P)
    (hb : Quiet P body) (he : NoEarly P p) (hok : PromptOK P p t)
    (hnlp : NL ∉ p) (hnlt : NL ∉ t) (hp0 : p ≠ []) (hd : (p ++ t).length < d) :
    ∀ (cs : List Bytes) (acc : Bytes), acc ++ cs.flatten = body ++ NL :: p ++ t →
      acc.length < (body ++ NL :: p).length →
      ∃ k t', t' <+: t ∧ acc ++ (cs.take k).flatten = body ++ NL :: p ++ t' ∧
        readLoop (promptSeen pat d) acc cs = some (body ++ NL :: p ++ t', k) ∧
        ∀ j, j < k → (acc ++ (cs.take j).flatten).length < (body ++ NL :: p).length := by
  intro cs
  induction cs with
  | nil =>
    intro acc h hlen
    simp only [List.flatten_nil, List.append_nil] at h
    subst h
    simp at hlen
    omega
  | cons c cs ih =>
    intro acc h hlen
    have h' : (acc ++ c) ++ cs.flatten = body ++ NL :: p ++ t := by simpa [List.append_assoc] using h
    by_cases hlt : (acc ++ c).length < (body ++ NL :: p).length
    · -- prompt not yet complete: the window is quiet
      have hpre : acc ++ c <+: body ++ NL :: p := by
        have h'' : (acc ++ c) ++ cs.flatten = (body ++ NL :: p) ++ t := by simpa using h'
        exact (List.prefix_of_prefix_length_le ⟨_, h''⟩ ⟨t, rfl⟩ (Nat.le_of_lt hlt))
      have hq := quiet_before_prompt hb he hnlp hpre hlt
      have hstop : promptSeen pat d (acc ++ c) = false := by
        unfold promptSeen; rw [hS]; exact window_quiet d hq
      obtain ⟨k, t', ht', hk, hrl, hmin⟩ := ih (acc ++ c) h' hlt
      refine ⟨k + 1, t', ht', ?_, ?_, ?_⟩
      · simpa [List.append_assoc] using hk
      · unfold readLoop; simp only [hstop]; rw [hrl]; rfl
      · intro j hj
        cases j with
        | zero => simpa using hlen
        | succ j =>
          have := hmin j (by omega)
          simpa [List.append_assoc] using this
    · -- the prompt is complete within acc ++ c
      have hge : (body ++ NL :: p).length ≤ (acc ++ c).length := Nat.le_of_not_lt hlt
      have h'' : (acc ++ c) ++ cs.flatten = (body ++ NL :: p) ++ t := by simpa using h'
      have hpre : body ++ NL :: p <+: acc ++ c :=
        List.prefix_of_prefix_length_le ⟨t, rfl⟩ ⟨_, h''⟩ hge
      obtain ⟨t', ht'⟩ := hpre
      have htt : t' <+: t := by
        rw [← ht', List.append_assoc] at h''
        exact ⟨cs.flatten, List.append_cancel_left h''⟩
      have hacc : acc ++ c = body ++ NL :: (p ++ t') := by rw [← ht']; simp
      have hz : p ++ t' ≠ [] := by simp [hp0]
      have hznl : NL ∉ p ++ t' := by
        intro hm
        rcases List.mem_append.mp hm with h1 | h1
        · exact hnlp h1
        · exact hnlt (htt.subset h1)
      have hzlen : (p ++ t').length < d := by
        have := htt.length_le
        simp only [List.length_append] at hd ⊢
        omega
      have hstop : promptSeen pat d (acc ++ c) = true := by
        unfold promptSeen
        rw [hS, hacc, List.any_eq_true]
        exact ⟨p ++ t', window_keeps_last_line d body (p ++ t') hz hznl hzlen, hok t' htt⟩
      refine ⟨1, t', htt, ?_, ?_, ?_⟩
      · simp [← ht']
      · unfold readLoop; simp only [hstop, ↓reduceIte]; rw [hacc]; simp
      · intro j hj
        have : j = 0 := by omega
        subst this
        simpa using hlen

end Scrapli.Chan

namespace Scrapli.Chan
open Scrapli

/-! ### the echo -/

theorem isInfixB_iff (n h : Bytes) : isInfixB n h = true ↔ n <:+: h := by
  induction h with
  | nil => simp [isInfixB]
  | cons a l ih =>
    unfold isInfixB
    rw [Bool.or_eq_true, ih, List.isPrefixOf_iff_prefix, List.infix_cons_iff]

theorem squishBuf_append (a b : Bytes) : squishBuf (a ++ b) = squishBuf a ++ squishBuf b := by
  simp [squishBuf]

theorem eq_of_infix_of_prefix {i x : Bytes} (h1 : i <:+: x) (h2 : x <+: i) : x = i :=
  h2.eq_of_length (Nat.le_antisymm h2.length_le h1.length_le)

/-- the core of `_read_until_input` (strict mode): over ANY list of pieces whose concatenation
    squishes to the squished input, the loop stops exactly at the first piece boundary at which all
    non-blank bytes of the echo have arrived, and what it leaves unread squishes to nothing -/
theorem readLoop_echo (input stream : Bytes)
    (hF : squishBuf stream = squish input) :
    ∀ (cs : List Bytes) (acc : Bytes), acc ++ cs.flatten = stream → squishBuf acc ≠ squish input →
      ∃ k, readLoop (inputSeen false input) acc cs = some (acc ++ (cs.take k).flatten, k) ∧
        squishBuf (acc ++ (cs.take k).flatten) = squish input ∧
        squishBuf (cs.drop k).flatten = [] ∧
        ∀ j, j < k → squishBuf (acc ++ (cs.take j).flatten) ≠ squish input := by
  intro cs
  induction cs with
  | nil =>
    intro acc h hne
    simp only [List.flatten_nil, List.append_nil] at h
    subst h
    exact absurd hF hne
  | cons c cs ih =>
    intro acc h hne
    have h' : (acc ++ c) ++ cs.flatten = stream := by simpa [List.append_assoc] using h
    have hpre : squishBuf (acc ++ c) <+: squish input := by
      rw [← hF, ← h', squishBuf_append (acc ++ c)]; exact List.prefix_append _ _
    by_cases hdone : squishBuf (acc ++ c) = squish input
    · have hstop : inputSeen false input (acc ++ c) = true := by
        simp only [inputSeen, Bool.not_false, ↓reduceIte]
        rw [isInfixB_iff, hdone]; exact List.infix_refl _
      refine ⟨1, ?_, ?_, ?_, ?_⟩
      · unfold readLoop; simp [hstop]
      · simpa using hdone
      · have : squishBuf (acc ++ c) ++ squishBuf cs.flatten = squish input := by
          rw [← squishBuf_append, h', hF]
        rw [hdone] at this
        simpa using List.append_right_eq_self.mp this
      · intro j hj
        have : j = 0 := by omega
        subst this; simpa using hne
    · have hstop : inputSeen false input (acc ++ c) = false := by
        simp only [inputSeen, Bool.not_false, ↓reduceIte]
        rw [Bool.eq_false_iff]
        intro hc
        exact hdone (eq_of_infix_of_prefix ((isInfixB_iff _ _).mp hc) hpre)
      obtain ⟨k, hrl, hsq, hrest, hmin⟩ := ih (acc ++ c) h' hdone
      refine ⟨k + 1, ?_, ?_, ?_, ?_⟩
      · unfold readLoop; simp only [hstop]; rw [hrl]; simp [List.append_assoc]
      · simpa [List.append_assoc] using hsq
      · simpa using hrest
      · intro j hj
        cases j with
        | zero => simpa using hne
        | succ j =>
          have := hmin j (by omega)
          simpa [List.append_assoc] using this

/-! ### pieces -/

theorem piecesOf_flatten : ∀ (cuts : List Nat) (avail : Bytes), (piecesOf avail cuts).flatten = avail := by
  intro cuts
  induction cuts with
  | nil => intro avail; cases avail <;> simp [piecesOf]
  | cons k ks ih =>
    intro avail
    cases avail with
    | nil => simp [piecesOf]
    | cons a av =>
      rw [piecesOf]
      simp only [List.flatten_cons, ih]
      exact List.take_append_drop _ _

end Scrapli.Chan

namespace Scrapli.Chan
open Scrapli

/-! ### plain bytes (no CR, no ESC): `Channel.read()` returns them unchanged -/

def Plain (b : Bytes) : Prop := CR ∉ b ∧ ESC ∉ b

theorem chanRead_plain {b : Bytes} (h : Plain b) : chanRead b = b := by
  unfold chanRead stripCR
  have h1 : b.filter (· != CR) = b := by
    rw [List.filter_eq_self]
    intro a ha
    have : a ≠ CR := fun e => h.1 (e ▸ ha)
    simpa using this
  simp only [h1]
  have h2 : b.contains ESC = false := by
    rw [Bool.eq_false_iff]; intro hc
    exact h.2 (by simpa using hc)
  rw [h2]; rfl

theorem Plain.sublist {a b : Bytes} (h : Plain b) (hs : a.Sublist b) : Plain a :=
  ⟨fun x => h.1 (hs.subset x), fun x => h.2 (hs.subset x)⟩

theorem Plain.append {a b : Bytes} (ha : Plain a) (hb : Plain b) : Plain (a ++ b) := by
  constructor <;> intro h <;> rcases List.mem_append.mp h with h | h
  · exact ha.1 h
  · exact hb.1 h
  · exact ha.2 h
  · exact hb.2 h

theorem piecesOf_plain : ∀ (cuts : List Nat) (avail : Bytes), Plain avail →
    (piecesOf avail cuts).map chanRead = piecesOf avail cuts := by
  intro cuts
  induction cuts with
  | nil =>
    intro avail h
    cases avail with
    | nil => simp [piecesOf]
    | cons a av => simp [piecesOf, chanRead_plain h]
  | cons k ks ih =>
    intro avail h
    cases avail with
    | nil => simp [piecesOf]
    | cons a av =>
      rw [piecesOf]
      simp only [List.map_cons]
      rw [chanRead_plain (h.sublist (List.take_sublist _ _)), ih _ (h.sublist (List.drop_sublist _ _))]

theorem chanReadH_plain {b : Bytes} (h : Plain b) : chanReadH [] b = (b, []) := by
  unfold chanReadH cleanBuf stripCR
  have h1 : b.filter (· != CR) = b := by
    rw [List.filter_eq_self]
    intro a ha
    have : a ≠ CR := fun e => h.1 (e ▸ ha)
    simpa using this
  simp only [List.nil_append, h1]
  have h2 : b.contains ESC = false := by
    rw [Bool.eq_false_iff]; intro hc
    exact h.2 (by simpa using hc)
  rw [h2]; rfl

/-- on plain pieces nothing is stripped and nothing is held back -/
theorem cleanPieces_plain : ∀ (ps : List Bytes), (∀ p ∈ ps, Plain p) → cleanPieces [] ps = (ps, []) := by
  intro ps
  induction ps with
  | nil => intro _; rfl
  | cons c cs ih =>
    intro h
    unfold cleanPieces
    rw [chanReadH_plain (h c (by simp))]
    simp only
    rw [ih (fun p hp => h p (by simp [hp]))]

theorem piecesOf_mem_plain : ∀ (cuts : List Nat) (avail : Bytes), Plain avail →
    ∀ p ∈ piecesOf avail cuts, Plain p := by
  intro cuts
  induction cuts with
  | nil =>
    intro avail h p hp
    cases avail with
    | nil => simp [piecesOf] at hp
    | cons a av =>
      simp only [piecesOf, List.mem_cons, List.not_mem_nil, or_false] at hp
      subst hp; exact h
  | cons k ks ih =>
    intro avail h p hp
    cases avail with
    | nil => simp [piecesOf] at hp
    | cons a av =>
      rw [piecesOf] at hp
      rcases List.mem_cons.mp hp with e | e
      · subst e; exact h.sublist (List.take_sublist _ _)
      · exact ih _ (h.sublist (List.drop_sublist _ _)) p e

/-- `Wire.readUntil` on a wire with plain unread bytes and nothing held back -/
theorem readUntil_plain (stop : Bytes → Bool) (w : Wire) (hpl : Plain w.avail) (hh : w.held = []) :
    Wire.readUntil stop w =
      match readLoop stop [] (piecesOf w.avail w.cuts) with
      | none => none
      | some (buf, k) =>
        some (buf, { w with avail := ((piecesOf w.avail w.cuts).drop k).flatten, cuts := w.cuts.drop k }) := by
  unfold Wire.readUntil
  have hall := piecesOf_mem_plain w.cuts w.avail hpl
  simp only [hh, cleanPieces_plain _ hall]
  cases readLoop stop [] (piecesOf w.avail w.cuts) with
  | none => rfl
  | some r =>
    obtain ⟨buf, k⟩ := r
    simp only
    rw [cleanPieces_plain _ (fun p hp => hall p (List.mem_of_mem_take hp))]

theorem pieces_split (cuts : List Nat) (avail : Bytes) (k : Nat) :
    ((piecesOf avail cuts).take k).flatten ++ ((piecesOf avail cuts).drop k).flatten = avail := by
  rw [← List.flatten_append, List.take_append_drop, piecesOf_flatten]

/-- the echo read on the wire -/
theorem readUntil_echo (input : Bytes) (w : Wire) (hpl : Plain w.avail) (hh : w.held = [])
    (hI : squish input ≠ []) (hF : squishBuf w.avail = squish input) :
    ∃ b1 L cuts', Wire.readUntil (inputSeen false input) w =
        some (b1, { w with avail := L, cuts := cuts' }) ∧
      b1 ++ L = w.avail ∧ squishBuf L = [] := by
  have hne : squishBuf ([] : Bytes) ≠ squish input := by
    intro h; exact hI (by rw [← h]; rfl)
  obtain ⟨k, hrl, _, hrest, _⟩ :=
    readLoop_echo input w.avail hF (piecesOf w.avail w.cuts) [] (by simp [piecesOf_flatten]) hne
  refine ⟨((piecesOf w.avail w.cuts).take k).flatten, ((piecesOf w.avail w.cuts).drop k).flatten,
    w.cuts.drop k, ?_, pieces_split _ _ _, hrest⟩
  rw [readUntil_plain _ w hpl hh, hrl]
  simp

/-- the prompt read on the wire -/
theorem readUntil_prompt {P : Bytes → Bool} (pat : Pat) (d : Nat) (body p t : Bytes) (w : Wire)
    (hav : w.avail = body ++ NL :: p ++ t) (hpl : Plain w.avail) (hh : w.held = [])
    (hS : ∀ x, pat.search x = (splitNL x).any P)
    (hb : Quiet P body) (he : NoEarly P p) (hok : PromptOK P p t)
    (hnlp : NL ∉ p) (hnlt : NL ∉ t) (hp0 : p ≠ []) (hd : (p ++ t).length < d) :
    ∃ t' t'' cuts', t' ++ t'' = t ∧
      Wire.readUntil (promptSeen pat d) w =
        some (body ++ NL :: p ++ t', { w with avail := t'', cuts := cuts' }) := by
  obtain ⟨k, t', ht', hk, hrl, _⟩ :=
    readLoop_prompt pat d body p t hS hb he hok hnlp hnlt hp0 hd (piecesOf w.avail w.cuts) []
      (by simp [piecesOf_flatten, hav]) (by simp; omega)
  have hsplit := pieces_split w.cuts w.avail k
  simp only [List.nil_append] at hk
  rw [hk] at hsplit
  obtain ⟨t'', ht''⟩ := ht'
  refine ⟨t', ((piecesOf w.avail w.cuts).drop k).flatten, w.cuts.drop k, ?_, ?_⟩
  · -- (body ++ NL :: p ++ t') ++ rest = body ++ NL :: p ++ t
    have : (body ++ NL :: p ++ t') ++ ((piecesOf w.avail w.cuts).drop k).flatten
        = (body ++ NL :: p ++ t') ++ t'' := by
      rw [hsplit, hav, ← ht'']; simp [List.append_assoc]
    rw [List.append_cancel_left this, ht'']
  · rw [readUntil_plain _ w hpl hh, hrl]

end Scrapli.Chan

namespace Scrapli.Chan
open Scrapli

/-! ### a causal line device (the environment of C01) -/

def isHws (c : UInt8) : Bool := c == 32 || c == 9

/-- echoes what is typed; on the return prints newline, the command's output (if any) and a
    newline, then its prompt and trailing blanks -/
structure LineDev where
  out : Bytes → Bytes
  prompt : Bytes
  trail : Bytes

/-- the part of the response before `NL :: prompt` -/
def LineDev.rbody (dv : LineDev) (line : Bytes) : Bytes :=
  if (dv.out line).isEmpty then [] else NL :: dv.out line

def LineDev.respond (dv : LineDev) (line : Bytes) : Bytes :=
  dv.rbody line ++ NL :: dv.prompt ++ dv.trail

/-- reaction to written bytes; the state is the line typed so far -/
def LineDev.onWrite (dv : LineDev) : Bytes → Bytes → Bytes × Bytes
  | line, [] => (line, [])
  | line, c :: rest =>
    if c == NL then
      let r := dv.onWrite [] rest
      (r.1, dv.respond line ++ r.2)
    else if c == CR then dv.onWrite line rest
    else
      let r := dv.onWrite (line ++ [c]) rest
      (r.1, c :: r.2)

theorem LineDev.onWrite_text (dv : LineDev) : ∀ (input line : Bytes), NL ∉ input → CR ∉ input →
    dv.onWrite line input = (line ++ input, input) := by
  intro input
  induction input with
  | nil => intro line _ _; simp [LineDev.onWrite]
  | cons c r ih =>
    intro line h1 h2
    have hc1 : c ≠ NL := fun e => h1 (by simp [e])
    have hc2 : c ≠ CR := fun e => h2 (by simp [e])
    have hr1 : NL ∉ r := fun e => h1 (by simp [e])
    have hr2 : CR ∉ r := fun e => h2 (by simp [e])
    unfold LineDev.onWrite
    simp [hc1, hc2, ih (line ++ [c]) hr1 hr2]

theorem LineDev.onWrite_return (dv : LineDev) (line : Bytes) :
    dv.onWrite line [NL] = ([], dv.respond line) := by
  simp [LineDev.onWrite]

/-- the return characters of the property's quantifier: `\n` and `\r\n` -/
def IsRet (r : Bytes) : Prop := r = [NL] ∨ r = [CR, NL]

/-- the device reacts to either return in the same way (it ignores the carriage return) -/
theorem LineDev.onWrite_ret (dv : LineDev) (line : Bytes) {r : Bytes} (h : IsRet r) :
    dv.onWrite line r = ([], dv.respond line) := by
  rcases h with rfl | rfl
  · exact dv.onWrite_return line
  · have h1 : (CR == NL) = false := by decide
    have h2 : (CR == CR) = true := by decide
    unfold LineDev.onWrite
    simp only [h1, h2, Bool.false_eq_true, ↓reduceIte]
    exact dv.onWrite_return line

theorem hws_squishBuf {b : Bytes} (h : ∀ x ∈ b, isHws x = true) : squishBuf b = [] := by
  unfold squishBuf
  rw [List.filter_eq_nil_iff]
  intro a ha
  rw [List.mem_filter, List.mem_map] at ha
  obtain ⟨⟨x, hx, rfl⟩, _⟩ := ha
  have := h x hx
  unfold isHws at this
  rcases Bool.or_eq_true _ _ |>.mp this with e | e
  · have e' : x = 32 := by simpa using e
    subst e'; decide
  · have e' : x = 9 := by simpa using e
    subst e'; decide

theorem hws_plain {b : Bytes} (h : ∀ x ∈ b, isHws x = true) : Plain b := by
  constructor <;> intro hm <;> have := h _ hm <;> revert this <;> decide

theorem hws_noNL {b : Bytes} (h : ∀ x ∈ b, isHws x = true) : NL ∉ b := by
  intro hm; have := h _ hm; revert this; decide

theorem squishBuf_text {b : Bytes} (h : BS ∉ b) : squishBuf b = squish b := by
  unfold squishBuf squish
  congr 1
  rw [List.filter_eq_self]
  intro a ha
  rw [List.mem_map] at ha
  obtain ⟨x, hx, rfl⟩ := ha
  have hxb : x ≠ BS := fun e => h (e ▸ hx)
  unfold lowerByte
  split
  · rename_i hr
    simp only [Bool.and_eq_true, decide_eq_true_eq] at hr
    simp only [bne_iff_ne, ne_eq]
    intro e
    have : x = BS - 32 := by
      have := congrArg (· - 32) e
      simpa using this
    rw [this] at hr
    revert hr; decide
  · simpa using hxb

end Scrapli.Chan

namespace Scrapli.Chan
open Scrapli

theorem ws_of_squish_nil {L : Bytes} (h : squish L = []) : ∀ x ∈ L, isWs x = true := by
  intro x hx
  unfold squish at h
  rw [List.filter_eq_nil_iff] at h
  have := h (lowerByte x) (List.mem_map.mpr ⟨x, hx, rfl⟩)
  simp only [Bool.not_eq_true', Bool.not_eq_false] at this
  unfold lowerByte at this
  split at this
  · rename_i hr
    exfalso
    simp only [Bool.and_eq_true, decide_eq_true_eq] at hr
    unfold isWs at this
    simp only [Bool.or_eq_true, beq_iff_eq] at this
    obtain ⟨h1, h2⟩ := hr
    have h1' : (65 : Nat) ≤ x.toNat := by simpa using UInt8.le_iff_toNat_le.mp h1
    have h2' : x.toNat ≤ 90 := by simpa using UInt8.le_iff_toNat_le.mp h2
    have hv : (x + 32).toNat = x.toNat + 32 := by
      rw [UInt8.toNat_add]; simp; omega
    rcases this with ((((e | e) | e) | e) | e) | e <;>
      (have := congrArg UInt8.toNat e; rw [hv] at this; simp at this <;> omega)
  · exact this

/-- what makes a command line, a device and a pattern fit the quantifier of C01 -/
structure Fits (P : Bytes → Bool) (cfg : Cfg) (dv : LineDev) : Prop where
  search_lines : ∀ x, cfg.prompt.search x = (splitNL x).any P
  strict : cfg.rough = false
  ret : IsRet cfg.ret
  blank : ∀ s, squishBuf s = [] → P s = false          -- invisible text is never a prompt
  noEarly : NoEarly P dv.prompt
  promptOK : PromptOK P dv.prompt dv.trail
  prompt_ne : dv.prompt ≠ []
  prompt_nl : NL ∉ dv.prompt
  prompt_plain : Plain dv.prompt
  trail_hws : ∀ x ∈ dv.trail, isHws x = true
  fits_window : (dv.prompt ++ dv.trail).length < cfg.depth

/-- a command inside the quantifier: printable text whose output contains no prompt-like segment -/
structure GoodCmd (P : Bytes → Bool) (dv : LineDev) (input : Bytes) : Prop where
  visible : squish input ≠ []
  no_nl : NL ∉ input
  no_bs : BS ∉ input
  plain : Plain input
  out_plain : Plain (dv.out input)
  out_quiet : Quiet P (dv.out input)

theorem squishBuf_infix_nil {s L : Bytes} (hs : s <:+: L) (hL : squishBuf L = []) : squishBuf s = [] := by
  obtain ⟨a, b, rfl⟩ := hs
  rw [squishBuf_append, squishBuf_append] at hL
  have := List.append_eq_nil_iff.mp hL
  exact (List.append_eq_nil_iff.mp this.1).2

/-- the body in front of the prompt is quiet, whatever blank residue precedes it -/
theorem quiet_body {P : Bytes → Bool} {cfg : Cfg} {dv : LineDev} (hf : Fits P cfg dv) {input L : Bytes}
    (hg : GoodCmd P dv input) (hL : squishBuf L = []) (hLnl : NL ∉ L) :
    Quiet P (L ++ dv.rbody input) := by
  unfold LineDev.rbody
  split
  · -- no output: the body is the blank residue only
    intro l hl s hs
    simp only [List.append_nil] at hl
    rw [splitNL_noNL L hLnl] at hl
    have : l = L := by simpa using hl
    subst this
    exact hf.blank s (squishBuf_infix_nil hs hL)
  · intro l hl s hs
    rw [splitNL_append_NL, splitNL_noNL L hLnl] at hl
    rcases List.mem_append.mp hl with h | h
    · have : l = L := by simpa using h
      subst this
      exact hf.blank s (squishBuf_infix_nil hs hL)
    · exact hg.out_quiet l h s hs

theorem rbody_plain {dv : LineDev} {input : Bytes} (h : Plain (dv.out input)) : Plain (dv.rbody input) := by
  unfold LineDev.rbody
  split
  · exact ⟨by simp, by simp⟩
  · constructor
    · intro hm; rcases List.mem_cons.mp hm with e | e
      · revert e; decide
      · exact h.1 e
    · intro hm; rcases List.mem_cons.mp hm with e | e
      · revert e; decide
      · exact h.2 e

theorem nl_cons_plain {b : Bytes} (h : Plain b) : Plain (NL :: b) := by
  constructor
  · intro hm; rcases List.mem_cons.mp hm with e | e
    · revert e; decide
    · exact h.1 e
  · intro hm; rcases List.mem_cons.mp hm with e | e
    · revert e; decide
    · exact h.2 e

/-- **one `send_input` against the causal device, for every segmentation of the reads**:
    it completes; it writes the input and one return; the raw result is the device's response
    (preceded by at most invisible residue, followed by part of the trailing blanks); what is left
    unread is the rest of the trailing blanks. -/
theorem sendInput_frames {P : Bytes → Bool} {cfg : Cfg} {dv : LineDev} (hf : Fits P cfg dv)
    (input : Bytes) (hg : GoodCmd P dv input) (stripPrompt : Bool)
    (w : Wire) (hres : ∀ x ∈ w.avail, isHws x = true) (hheld : w.held = []) :
    ∃ L t' t'' cuts', (∀ x ∈ L, isWs x = true) ∧ NL ∉ L ∧ t' ++ t'' = dv.trail ∧
      sendInput cfg dv.onWrite input stripPrompt false false (w, []) =
        some ((L ++ dv.rbody input ++ NL :: dv.prompt ++ t',
               processOutput cfg (L ++ dv.rbody input ++ NL :: dv.prompt ++ t') stripPrompt),
              ({ avail := t'', cuts := cuts', writes := w.writes ++ [input, cfg.ret] }, [])) := by
  have hne : input ≠ [] := by intro e; exact hg.visible (by rw [e]; rfl)
  -- phase 1: write the input, read the echo
  have hw1 : Wire.write dv.onWrite (w, []) input =
      ({ w with avail := w.avail ++ input, writes := w.writes ++ [input] }, input) := by
    simp [Wire.write, dv.onWrite_text input [] hg.no_nl hg.plain.1]
  have hpl1 : Plain (w.avail ++ input) := (hws_plain hres).append hg.plain
  have hF1 : squishBuf (w.avail ++ input) = squish input := by
    rw [squishBuf_append, hws_squishBuf hres, squishBuf_text hg.no_bs]; rfl
  obtain ⟨b1, L, cuts1, hru1, hsplit1, hL⟩ :=
    readUntil_echo input { w with avail := w.avail ++ input, writes := w.writes ++ [input] }
      hpl1 hheld hg.visible hF1
  have hLnl : NL ∉ L := by
    intro hm
    have : NL ∈ w.avail ++ input := by
      have hh : NL ∈ b1 ++ L := List.mem_append_right _ hm
      rw [hsplit1] at hh; exact hh
    rcases List.mem_append.mp this with h | h
    · exact hws_noNL hres h
    · exact hg.no_nl h
  have hLpl : Plain L := hpl1.sublist (by
    have : L.Sublist (b1 ++ L) := List.sublist_append_right _ _
    rw [hsplit1] at this; exact this)
  -- phase 2: write the return, read up to the prompt
  have hw2 : Wire.write dv.onWrite
      ({ avail := L, cuts := cuts1, writes := w.writes ++ [input] }, input) cfg.ret =
      ({ avail := L ++ dv.respond input, cuts := cuts1, writes := w.writes ++ [input, cfg.ret] }, []) := by
    simp [Wire.write, dv.onWrite_ret input hf.ret]
  have hav2 : L ++ dv.respond input = (L ++ dv.rbody input) ++ NL :: dv.prompt ++ dv.trail := by
    simp [LineDev.respond, List.append_assoc]
  have hpl2 : Plain (L ++ dv.respond input) := by
    rw [hav2]
    exact ((hLpl.append (rbody_plain hg.out_plain)).append
      (nl_cons_plain hf.prompt_plain)).append (hws_plain hf.trail_hws)
  obtain ⟨t', t'', cuts2, htt, hru2⟩ :=
    readUntil_prompt cfg.prompt cfg.depth (L ++ dv.rbody input) dv.prompt dv.trail
      { avail := L ++ dv.respond input, cuts := cuts1, writes := w.writes ++ [input, cfg.ret] }
      hav2 hpl2 rfl hf.search_lines (quiet_body hf hg hL hLnl) hf.noEarly hf.promptOK hf.prompt_nl
      (hws_noNL hf.trail_hws) hf.prompt_ne hf.fits_window
  have hLbs : BS ∉ L := by
    intro hm
    have : BS ∈ w.avail ++ input := by
      have hh : BS ∈ b1 ++ L := List.mem_append_right _ hm
      rw [hsplit1] at hh; exact hh
    rcases List.mem_append.mp this with h | h
    · have := hres _ h; revert this; decide
    · exact hg.no_bs h
  have hLws : ∀ x ∈ L, isWs x = true := ws_of_squish_nil (by rw [← squishBuf_text hLbs]; exact hL)
  refine ⟨L, t', t'', cuts2, hLws, hLnl, htt, ?_⟩
  unfold sendInput
  simp only [hw1, Bool.false_or, hf.strict]
  have hie : input.isEmpty = false := by simpa using hne
  simp only [hheld] at hru1
  simp only [hie, Bool.false_eq_true, ↓reduceIte, hheld, hru1, Option.map_some, hw2, hru2]

end Scrapli.Chan

namespace Scrapli.Chan
open Scrapli

/-! ### the processed result does not depend on the invisible residue / trailing blanks -/

theorem dropWhile_append_all {p : UInt8 → Bool} : ∀ (a b : Bytes), (∀ x ∈ a, p x = true) →
    (a ++ b).dropWhile p = b.dropWhile p := by
  intro a
  induction a with
  | nil => intro b _; rfl
  | cons c r ih =>
    intro b h
    have hc : p c = true := h c (by simp)
    simp only [List.cons_append, List.dropWhile_cons, hc, ↓reduceIte]
    exact ih b (fun x hx => h x (by simp [hx]))

theorem rstrip_append_ws (a b : Bytes) (h : ∀ x ∈ b, isWs x = true) : rstrip (a ++ b) = rstrip a := by
  unfold rstrip
  rw [List.reverse_append, dropWhile_append_all _ _ (by simpa using h)]

theorem rstrip_ws {b : Bytes} (h : ∀ x ∈ b, isWs x = true) : rstrip b = [] := by
  have := rstrip_append_ws [] b h
  simpa [rstrip] using this

theorem splitlines_last_ne {x z : Bytes} (hz : z ≠ []) (hnl : NL ∉ z) :
    splitlines (x ++ NL :: z) = splitNL x ++ [z] := by
  unfold splitlines
  simp only [splitNL_append_NL, splitNL_noNL z hnl]
  have : (splitNL x ++ [z]).getLast? = some z := by simp
  simp [this, hz]

theorem hws_ws {b : Bytes} (h : ∀ x ∈ b, isHws x = true) : ∀ x ∈ b, isWs x = true := by
  intro x hx
  have := h x hx
  unfold isHws at this; unfold isWs
  rcases Bool.or_eq_true _ _ |>.mp this with e | e <;> simp [e]

/-- residue in front (invisible, no newline) and trailing blanks behind do not change what
    `_process_output` returns -/
theorem processOutput_indep (cfg : Cfg) (dv : LineDev) (input L t' : Bytes) (stripPrompt : Bool)
    (hL : ∀ x ∈ L, isWs x = true) (hLnl : NL ∉ L) (ht : ∀ x ∈ t', isHws x = true)
    (hp0 : dv.prompt ≠ []) (hpnl : NL ∉ dv.prompt) :
    processOutput cfg (L ++ dv.rbody input ++ NL :: dv.prompt ++ t') stripPrompt =
      processOutput cfg (dv.rbody input ++ NL :: dv.prompt) stripPrompt := by
  have hz : dv.prompt ++ t' ≠ [] := by simp [hp0]
  have hznl : NL ∉ dv.prompt ++ t' := by
    intro hm; rcases List.mem_append.mp hm with h | h
    · exact hpnl h
    · exact hws_noNL ht h
  have e1 : L ++ dv.rbody input ++ NL :: dv.prompt ++ t' =
      (L ++ dv.rbody input) ++ NL :: (dv.prompt ++ t') := by simp [List.append_assoc]
  have key : (splitlines (L ++ dv.rbody input ++ NL :: dv.prompt ++ t')).map rstrip =
      (splitlines (dv.rbody input ++ NL :: dv.prompt)).map rstrip := by
    rw [e1, splitlines_last_ne hz hznl, splitlines_last_ne hp0 hpnl]
    simp only [List.map_append, List.map_cons, List.map_nil]
    rw [rstrip_append_ws _ _ (hws_ws ht)]
    congr 1
    unfold LineDev.rbody
    split
    · have hrl : rstrip L = rstrip [] := by rw [rstrip_ws hL]; rfl
      simp [splitNL_noNL L hLnl, splitNL, hrl]
    · rw [splitNL_append_NL, splitNL_noNL L hLnl]
      have : splitNL (NL :: dv.out input) = [] :: splitNL (dv.out input) := by
        have := splitNL_append_NL [] (dv.out input)
        simpa [splitNL] using this
      rw [this]
      have hrl : rstrip L = rstrip [] := by rw [rstrip_ws hL]; rfl
      simp [hrl]
  unfold processOutput
  simp only [key]

/-! ### sessions: any sequence of commands -/

/-- `send_command` after `send_command` … on one connection -/
def runCmds (cfg : Cfg) (dev : σ → Bytes → σ × Bytes) (stripPrompt : Bool) :
    List Bytes → (Wire × σ) → Option (List (Bytes × Bytes) × (Wire × σ))
  | [], s => some ([], s)
  | i :: is, s =>
    match sendInput cfg dev i stripPrompt false false s with
    | none => none
    | some (r, s') => (runCmds cfg dev stripPrompt is s').map (fun x => (r :: x.1, x.2))

/-- the result the property promises for one command: a function of that command alone -/
def expected (cfg : Cfg) (dv : LineDev) (stripPrompt : Bool) (input : Bytes) : Bytes :=
  processOutput cfg (dv.rbody input ++ NL :: dv.prompt) stripPrompt

theorem suffix_hws {t t' t'' : Bytes} (h : t' ++ t'' = t) (ht : ∀ x ∈ t, isHws x = true) :
    (∀ x ∈ t', isHws x = true) ∧ (∀ x ∈ t'', isHws x = true) := by
  subst h
  exact ⟨fun x hx => ht x (by simp [hx]), fun x hx => ht x (by simp [hx])⟩

/-- **the session stays in step**: for every list of commands inside the quantifier and every
    segmentation of all the reads, every command completes, returns exactly its own expected
    result, the bytes written are exactly each input followed by one return, and only blanks are
    left unread. -/
theorem session_in_step {P : Bytes → Bool} {cfg : Cfg} {dv : LineDev} (hf : Fits P cfg dv)
    (stripPrompt : Bool) :
    ∀ (inputs : List Bytes), (∀ i ∈ inputs, GoodCmd P dv i) →
    ∀ (w : Wire), (∀ x ∈ w.avail, isHws x = true) → w.held = [] →
      ∃ rs w', runCmds cfg dv.onWrite stripPrompt inputs (w, []) = some (rs, (w', [])) ∧
        rs.map (·.2) = inputs.map (expected cfg dv stripPrompt) ∧
        w'.writes = w.writes ++ (inputs.map (fun i => [i, cfg.ret])).flatten ∧
        (∀ x ∈ w'.avail, isHws x = true) ∧ w'.held = [] := by
  intro inputs
  induction inputs with
  | nil => intro _ w hw hh; exact ⟨[], w, rfl, rfl, by simp, hw, hh⟩
  | cons i is ih =>
    intro hg w hw hh
    obtain ⟨L, t', t'', cuts', hLws, hLnl, htt, hsend⟩ :=
      sendInput_frames hf i (hg i (by simp)) stripPrompt w hw hh
    obtain ⟨ht', ht''⟩ := suffix_hws htt hf.trail_hws
    obtain ⟨rs, w', hrun, hres, hwr, hav⟩ :=
      ih (fun j hj => hg j (by simp [hj]))
        { avail := t'', cuts := cuts', writes := w.writes ++ [i, cfg.ret] } ht'' rfl
    refine ⟨(L ++ dv.rbody i ++ NL :: dv.prompt ++ t',
              processOutput cfg (L ++ dv.rbody i ++ NL :: dv.prompt ++ t') stripPrompt) :: rs, w', ?_, ?_, ?_, hav⟩
    · unfold runCmds; rw [hsend]; simp only; rw [hrun]; rfl
    · simp only [List.map_cons, hres]
      congr 1
      exact processOutput_indep cfg dv i L t' stripPrompt hLws hLnl ht' hf.prompt_ne hf.prompt_nl
    · rw [hwr]; simp [List.append_assoc]

end Scrapli.Chan

namespace Scrapli.Chan
open Scrapli

/-- whatever the stop test, a successful loop returns the start buffer plus exactly the pieces consumed -/
theorem readLoop_result_eq (stop : Bytes → Bool) : ∀ (cs : List Bytes) (acc buf : Bytes) (k : Nat),
    readLoop stop acc cs = some (buf, k) → buf = acc ++ (cs.take k).flatten := by
  intro cs
  induction cs with
  | nil => intro acc buf k h; simp [readLoop] at h
  | cons c cs ih =>
    intro acc buf k h
    unfold readLoop at h
    simp only at h
    split at h
    · simp only [Option.some.injEq, Prod.mk.injEq] at h
      obtain ⟨rfl, rfl⟩ := h
      simp
    · cases hr : readLoop stop (acc ++ c) cs with
      | none => simp [hr] at h
      | some r =>
        simp only [hr, Option.map_some, Option.some.injEq, Prod.mk.injEq] at h
        obtain ⟨rfl, rfl⟩ := h
        have := ih (acc ++ c) r.1 r.2 (by rw [hr])
        rw [this]; simp [List.append_assoc]

/-! ### get_prompt: the whole buffer is searched after every read (no window) -/

theorem last_line_mem (x z : Bytes) (hnl : NL ∉ z) : z ∈ splitNL (x ++ NL :: z) := by
  rw [splitNL_append_NL, splitNL_noNL z hnl]; simp

/-- the read loop of `get_prompt`: over ANY piece list concatenating to `body ++ NL :: p ++ t` it
    stops at the first boundary where the prompt is complete -/
theorem readLoop_search {P : Bytes → Bool} (pat : Pat) (body p t : Bytes)
    (hS : ∀ w, pat.search w = (splitNL w).any P)
    (hb : Quiet P body) (he : NoEarly P p) (hok : PromptOK P p t)
    (hnlp : NL ∉ p) (hnlt : NL ∉ t) :
    ∀ (cs : List Bytes) (acc : Bytes), acc ++ cs.flatten = body ++ NL :: p ++ t →
      acc.length < (body ++ NL :: p).length →
      ∃ k t', t' <+: t ∧
        readLoop pat.search acc cs = some (body ++ NL :: p ++ t', k) := by
  intro cs
  induction cs with
  | nil =>
    intro acc h hlen
    simp only [List.flatten_nil, List.append_nil] at h
    subst h
    simp at hlen
    omega
  | cons c cs ih =>
    intro acc h hlen
    have h' : (acc ++ c) ++ cs.flatten = body ++ NL :: p ++ t := by simpa [List.append_assoc] using h
    have h'' : (acc ++ c) ++ cs.flatten = (body ++ NL :: p) ++ t := by simpa using h'
    by_cases hlt : (acc ++ c).length < (body ++ NL :: p).length
    · have hpre : acc ++ c <+: body ++ NL :: p :=
        List.prefix_of_prefix_length_le ⟨_, h''⟩ ⟨t, rfl⟩ (Nat.le_of_lt hlt)
      have hq := quiet_before_prompt hb he hnlp hpre hlt
      have hstop : pat.search (acc ++ c) = false := by rw [hS]; exact quiet_any hq
      obtain ⟨k, t', ht', hrl⟩ := ih (acc ++ c) h' hlt
      refine ⟨k + 1, t', ht', ?_⟩
      unfold readLoop; simp only [hstop]; rw [hrl]; rfl
    · have hge : (body ++ NL :: p).length ≤ (acc ++ c).length := Nat.le_of_not_lt hlt
      obtain ⟨t', ht'⟩ := List.prefix_of_prefix_length_le ⟨t, rfl⟩ ⟨_, h''⟩ hge
      have htt : t' <+: t := by
        rw [← ht', List.append_assoc] at h''
        exact ⟨cs.flatten, List.append_cancel_left h''⟩
      have hacc : acc ++ c = body ++ NL :: (p ++ t') := by rw [← ht']; simp
      have hznl : NL ∉ p ++ t' := by
        intro hm
        rcases List.mem_append.mp hm with h1 | h1
        · exact hnlp h1
        · exact hnlt (htt.subset h1)
      have hstop : pat.search (acc ++ c) = true := by
        rw [hS, hacc, List.any_eq_true]
        exact ⟨p ++ t', last_line_mem body (p ++ t') hznl, hok t' htt⟩
      refine ⟨1, t', htt, ?_⟩
      unfold readLoop; simp only [hstop, ↓reduceIte]; rw [hacc]; simp

theorem dropWhile_all {p : UInt8 → Bool} : ∀ (l : Bytes), (∀ x ∈ l, p x = true) → l.dropWhile p = [] := by
  intro l
  induction l with
  | nil => intro _; rfl
  | cons c r ih =>
    intro h
    simp only [List.dropWhile_cons, h c (by simp), ↓reduceIte]
    exact ih (fun x hx => h x (by simp [hx]))

theorem strip_append_hws (a b : Bytes) (h : ∀ x ∈ b, isHws x = true) : strip (a ++ b) = strip a := by
  unfold strip
  by_cases ha : ∀ x ∈ a, isWs x = true
  · -- everything is whitespace
    have h1 : (a ++ b).dropWhile isWs = [] := by
      apply dropWhile_all
      intro x hx
      rcases List.mem_append.mp hx with hx | hx
      · exact ha x hx
      · exact hws_ws h x hx
    have h2 : a.dropWhile isWs = [] := dropWhile_all a ha
    rw [h1, h2]
  · -- the first non-blank byte is in `a`
    have : (a ++ b).dropWhile isWs = a.dropWhile isWs ++ b := by
      induction a with
      | nil => exact absurd (by simp) ha
      | cons c r ih =>
        by_cases hc : isWs c = true
        · have hr : ¬ ∀ x ∈ r, isWs x = true := by
            intro hall; apply ha; intro x hx
            rcases List.mem_cons.mp hx with rfl | hx
            · exact hc
            · exact hall x hx
          simp only [List.cons_append, List.dropWhile_cons, hc, ↓reduceIte]
          exact ih hr
        · simp [List.dropWhile_cons, hc]
    rw [this, rstrip_append_ws _ _ (hws_ws h)]

/-- **`get_prompt` against the causal device, for every segmentation**: it writes one return and
    returns the device's prompt (stripped), whatever blanks were left unread before. -/
theorem getPrompt_exact {P : Bytes → Bool} {cfg : Cfg} {dv : LineDev} (hf : Fits P cfg dv)
    (hfirst : ∀ x L, (splitNL x).find? P = some L →
      ∃ m, cfg.prompt.first x = some m ∧ strip m = strip L)
    (hout : dv.out [] = [])
    (w : Wire) (hres : ∀ x ∈ w.avail, isHws x = true) (hheld : w.held = []) :
    ∃ w', getPrompt cfg dv.onWrite (w, []) = some (strip dv.prompt, (w', [])) ∧
      w'.writes = w.writes ++ [cfg.ret] ∧ (∀ x ∈ w'.avail, isHws x = true) ∧ w'.held = [] := by
  have hrb : dv.rbody [] = [] := by simp [LineDev.rbody, hout]
  have hw1 : Wire.write dv.onWrite (w, []) cfg.ret =
      ({ w with avail := w.avail ++ dv.respond [], writes := w.writes ++ [cfg.ret] }, []) := by
    simp [Wire.write, dv.onWrite_ret [] hf.ret]
  have hav : w.avail ++ dv.respond [] = w.avail ++ NL :: dv.prompt ++ dv.trail := by
    simp [LineDev.respond, hrb]
  have hpl : Plain (w.avail ++ dv.respond []) := by
    rw [hav]
    exact ((hws_plain hres).append (nl_cons_plain hf.prompt_plain)).append (hws_plain hf.trail_hws)
  have hq : Quiet P w.avail := by
    intro l hl s hs
    rw [splitNL_noNL _ (hws_noNL hres)] at hl
    have : l = w.avail := by simpa using hl
    subst this
    exact hf.blank s (squishBuf_infix_nil hs (hws_squishBuf hres))
  obtain ⟨k, t', htt, hrl⟩ :=
    readLoop_search cfg.prompt w.avail dv.prompt dv.trail hf.search_lines hq hf.noEarly hf.promptOK
      hf.prompt_nl (hws_noNL hf.trail_hws)
      (piecesOf (w.avail ++ dv.respond []) w.cuts) [] (by simp [piecesOf_flatten, hav])
      (by simp; omega)
  -- the first matching line of the buffer is `prompt ++ t'`
  obtain ⟨t'', ht''⟩ := htt
  have ht'hws := (suffix_hws ht'' hf.trail_hws).1
  have hfind : (splitNL (w.avail ++ NL :: dv.prompt ++ t')).find? P = some (dv.prompt ++ t') := by
    have hznl : NL ∉ dv.prompt ++ t' := by
      intro hm
      rcases List.mem_append.mp hm with h1 | h1
      · exact hf.prompt_nl h1
      · exact hws_noNL ht'hws h1
    have e : w.avail ++ NL :: dv.prompt ++ t' = w.avail ++ NL :: (dv.prompt ++ t') := by simp
    rw [e, splitNL_append_NL, splitNL_noNL _ (hws_noNL hres), splitNL_noNL _ hznl]
    have h1 : P w.avail = false := hf.blank _ (hws_squishBuf hres)
    have h2 : P (dv.prompt ++ t') = true := hf.promptOK t' ⟨t'', ht''⟩
    simp [List.find?, h1, h2]
  obtain ⟨m, hm1, hm2⟩ := hfirst _ _ hfind
  have hsplit := pieces_split w.cuts (w.avail ++ dv.respond []) k
  refine ⟨{ avail := ((piecesOf (w.avail ++ dv.respond []) w.cuts).drop k).flatten,
            cuts := w.cuts.drop k, writes := w.writes ++ [cfg.ret] }, ?_, rfl, ?_, rfl⟩
  · unfold getPrompt
    simp only [hw1]
    rw [readUntil_plain _ { w with avail := w.avail ++ dv.respond [], writes := w.writes ++ [cfg.ret] } hpl hheld, hrl]
    simp only [hm1, hheld]
    rw [hm2, strip_append_hws _ _ ht'hws]
  · -- what is left unread is a suffix of the trailing blanks
    have hk : ((piecesOf (w.avail ++ dv.respond []) w.cuts).take k).flatten =
        w.avail ++ NL :: dv.prompt ++ t' := by
      -- from the loop result: the buffer is the concatenation of the consumed pieces
      have := readLoop_result_eq cfg.prompt.search (piecesOf (w.avail ++ dv.respond []) w.cuts) [] _ k hrl
      simpa using this.symm
    rw [hk] at hsplit
    have : ((piecesOf (w.avail ++ dv.respond []) w.cuts).drop k).flatten = t'' := by
      have e : (w.avail ++ NL :: dv.prompt ++ t') ++
          ((piecesOf (w.avail ++ dv.respond []) w.cuts).drop k).flatten =
          (w.avail ++ NL :: dv.prompt ++ t') ++ t'' := by
        rw [hsplit, hav, ← ht'']; simp [List.append_assoc]
      exact List.append_cancel_left e
    rw [this]
    exact (suffix_hws ht'' hf.trail_hws).2

end Scrapli.Chan

namespace Scrapli.Chan
open Scrapli

/-! ### sessions mixing get_prompt and commands -/

inductive COp where
  | cmd (input : Bytes)
  | prompt

/-- any sequence of `send_command` / `get_prompt` on one connection; the result list holds the
    processed result of each command and the prompt returned by each get_prompt -/
def runOps (cfg : Cfg) (dev : σ → Bytes → σ × Bytes) (stripPrompt : Bool) :
    List COp → (Wire × σ) → Option (List Bytes × (Wire × σ))
  | [], s => some ([], s)
  | .cmd i :: ops, s =>
    match sendInput cfg dev i stripPrompt false false s with
    | none => none
    | some (r, s') => (runOps cfg dev stripPrompt ops s').map (fun x => (r.2 :: x.1, x.2))
  | .prompt :: ops, s =>
    match getPrompt cfg dev s with
    | none => none
    | some (r, s') => (runOps cfg dev stripPrompt ops s').map (fun x => (r :: x.1, x.2))

def expectedOp (cfg : Cfg) (dv : LineDev) (stripPrompt : Bool) : COp → Bytes
  | .cmd i => expected cfg dv stripPrompt i
  | .prompt => strip dv.prompt

def opWrites (ret : Bytes) : COp → List Bytes
  | .cmd i => [i, ret]
  | .prompt => [ret]

theorem mixed_session_in_step {P : Bytes → Bool} {cfg : Cfg} {dv : LineDev} (hf : Fits P cfg dv)
    (hfirst : ∀ x L, (splitNL x).find? P = some L →
      ∃ m, cfg.prompt.first x = some m ∧ strip m = strip L)
    (hout : dv.out [] = []) (stripPrompt : Bool) :
    ∀ (ops : List COp), (∀ i, COp.cmd i ∈ ops → GoodCmd P dv i) →
    ∀ (w : Wire), (∀ x ∈ w.avail, isHws x = true) → w.held = [] →
      ∃ rs w', runOps cfg dv.onWrite stripPrompt ops (w, []) = some (rs, (w', [])) ∧
        rs = ops.map (expectedOp cfg dv stripPrompt) ∧
        w'.writes = w.writes ++ (ops.map (opWrites cfg.ret)).flatten ∧
        (∀ x ∈ w'.avail, isHws x = true) ∧ w'.held = [] := by
  intro ops
  induction ops with
  | nil => intro _ w hw hh; exact ⟨[], w, rfl, rfl, by simp, hw, hh⟩
  | cons o ops ih =>
    intro hg w hw hh
    have hg' : ∀ i, COp.cmd i ∈ ops → GoodCmd P dv i := fun i hi => hg i (by simp [hi])
    cases o with
    | cmd i =>
      obtain ⟨L, t', t'', cuts', hLws, hLnl, htt, hsend⟩ :=
        sendInput_frames hf i (hg i (by simp)) stripPrompt w hw hh
      obtain ⟨ht', ht''⟩ := suffix_hws htt hf.trail_hws
      obtain ⟨rs, w', hrun, hres, hwr, hav⟩ :=
        ih hg' { avail := t'', cuts := cuts', writes := w.writes ++ [i, cfg.ret] } ht'' rfl
      refine ⟨processOutput cfg (L ++ dv.rbody i ++ NL :: dv.prompt ++ t') stripPrompt :: rs, w', ?_, ?_, ?_, hav⟩
      · unfold runOps; rw [hsend]; simp only; rw [hrun]; rfl
      · rw [hres]
        simp only [List.map_cons, expectedOp, expected]
        congr 1
        exact processOutput_indep cfg dv i L t' stripPrompt hLws hLnl ht' hf.prompt_ne hf.prompt_nl
      · rw [hwr]; simp [opWrites, List.append_assoc]
    | prompt =>
      obtain ⟨w1, hgp, hw1, hav1, hh1⟩ := getPrompt_exact hf hfirst hout w hw hh
      obtain ⟨rs, w', hrun, hres, hwr, hav⟩ := ih hg' w1 hav1 hh1
      refine ⟨strip dv.prompt :: rs, w', ?_, ?_, ?_, hav⟩
      · unfold runOps; rw [hgp]; simp only; rw [hrun]; rfl
      · rw [hres]; simp [expectedOp]
      · rw [hwr, hw1]; simp [opWrites, List.append_assoc]

end Scrapli.Chan

namespace Scrapli.Chan
open Scrapli

/-! ### what `_process_output` returns, at the level of lines -/

/-- drop leading and trailing empty lines -/
def trimLines (ls : List Bytes) : List Bytes :=
  ((ls.dropWhile List.isEmpty).reverse.dropWhile List.isEmpty).reverse

/-- the property's own wording: every line right-trimmed, surrounding blank lines dropped -/
def normalizeText (o : Bytes) : Bytes := joinNL (trimLines ((splitNL o).map rstrip))

theorem splitNL_no_nl (b : Bytes) : ∀ l ∈ splitNL b, NL ∉ l := by
  induction b with
  | nil => intro l hl; simp [splitNL] at hl; subst hl; simp
  | cons c r ih =>
    intro l hl
    rw [splitNL_cons] at hl
    have hne := splitNL_ne_nil r
    cases hs : splitNL r with
    | nil => exact absurd hs hne
    | cons h t =>
      rw [hs] at hl ih
      by_cases hc : c = NL
      · simp only [hc, beq_self_eq_true, ↓reduceIte] at hl
        rcases List.mem_cons.mp hl with rfl | hl
        · simp
        · exact ih l hl
      · have hcb : (c == NL) = false := by simpa using hc
        simp only [hcb, Bool.false_eq_true, ↓reduceIte, List.headD_cons, List.tail_cons] at hl
        rcases List.mem_cons.mp hl with rfl | hl
        · intro hm
          rcases List.mem_cons.mp hm with e | e
          · exact hc e.symm
          · exact ih h (by simp) e
        · exact ih l (by simp [hl])

theorem dropWhile_idem (p : UInt8 → Bool) (l : Bytes) : (l.dropWhile p).dropWhile p = l.dropWhile p := by
  induction l with
  | nil => rfl
  | cons c r ih =>
    by_cases hc : p c = true
    · simp [List.dropWhile_cons, hc, ih]
    · simp [List.dropWhile_cons, hc]

theorem rstrip_idem (l : Bytes) : rstrip (rstrip l) = rstrip l := by
  unfold rstrip
  rw [List.reverse_reverse, dropWhile_idem]

theorem rstrip_no_nl {l : Bytes} (h : NL ∉ l) : NL ∉ rstrip l := by
  intro hm
  unfold rstrip at hm
  have : NL ∈ l.reverse.dropWhile isWs := by simpa using hm
  exact h (by simpa using (List.dropWhile_suffix isWs).subset this)

/-- the lines of a buffer contain only bytes of the buffer -/
theorem splitNL_subset (b : Bytes) : ∀ l ∈ splitNL b, ∀ c ∈ l, c ∈ b := by
  induction b with
  | nil => intro l hl c hc; simp [splitNL] at hl; subst hl; simp at hc
  | cons x r ih =>
    intro l hl c hc
    rw [splitNL_cons] at hl
    have hne := splitNL_ne_nil r
    cases hs : splitNL r with
    | nil => exact absurd hs hne
    | cons h t =>
      rw [hs] at hl ih
      by_cases hx : x = NL
      · simp only [hx, beq_self_eq_true, ↓reduceIte] at hl
        rcases List.mem_cons.mp hl with rfl | hl
        · simp at hc
        · exact List.mem_cons_of_mem _ (ih l hl c hc)
      · have hxb : (x == NL) = false := by simpa using hx
        simp only [hxb, Bool.false_eq_true, ↓reduceIte, List.headD_cons, List.tail_cons] at hl
        rcases List.mem_cons.mp hl with rfl | hl
        · rcases List.mem_cons.mp hc with e | e
          · simp [e]
          · exact List.mem_cons_of_mem _ (ih h (by simp) c e)
        · exact List.mem_cons_of_mem _ (ih l (by simp [hl]) c hc)

theorem rstrip_subset {l : Bytes} {c : UInt8} (h : c ∈ rstrip l) : c ∈ l := by
  unfold rstrip at h
  have : c ∈ l.reverse.dropWhile isWs := by simpa using h
  simpa using (List.dropWhile_suffix isWs).subset this

theorem mem_joinNL : ∀ (ls : List Bytes) (c : UInt8), c ∈ joinNL ls → c = NL ∨ ∃ l ∈ ls, c ∈ l := by
  intro ls
  induction ls with
  | nil => intro c h; simp [joinNL] at h
  | cons l rest ih =>
    intro c h
    cases rest with
    | nil => right; exact ⟨l, by simp, by simpa [joinNL] using h⟩
    | cons b r =>
      have e : joinNL (l :: b :: r) = l ++ NL :: joinNL (b :: r) := by simp [joinNL]
      rw [e] at h
      rcases List.mem_append.mp h with h | h
      · right; exact ⟨l, by simp, h⟩
      · rcases List.mem_cons.mp h with h | h
        · left; exact h
        · rcases ih c h with h | ⟨l', hl', hc⟩
          · left; exact h
          · right; exact ⟨l', List.mem_cons_of_mem _ hl', hc⟩

/-- the re-joined, right-trimmed lines of a CR-free buffer are CR-free -/
theorem joinNL_rstrip_noCR {b : Bytes} (h : CR ∉ b) : CR ∉ joinNL ((splitNL b).map rstrip) := by
  intro hm
  rcases mem_joinNL _ _ hm with e | ⟨l, hl, hc⟩
  · exact absurd e (by decide)
  · obtain ⟨a, ha, rfl⟩ := List.mem_map.mp hl
    exact h (splitNL_subset b a ha CR (rstrip_subset hc))

/-- `lstrip(b"\r\n")` and `lstrip(b"\n")` agree on CR-free text: both return characters of the quantifier trim alike -/
theorem lstripChars_ret {r : Bytes} (h : IsRet r) : ∀ (b : Bytes), CR ∉ b → lstripChars r b = lstripChars [NL] b := by
  rcases h with rfl | rfl
  · intro b _; rfl
  · intro b
    induction b with
    | nil => intro _; rfl
    | cons c rest ih =>
      intro hcr
      have hc : c ≠ CR := fun e => hcr (by simp [e])
      have hrest : CR ∉ rest := fun e => hcr (by simp [e])
      have ih' := ih hrest
      unfold lstripChars at ih' ⊢
      by_cases hn : c = NL
      · subst hn
        have h1 : ([CR, NL].contains NL) = true := by decide
        have h2 : ([NL].contains NL) = true := by decide
        simp only [List.dropWhile_cons, h1, h2, ↓reduceIte]
        exact ih'
      · have h1 : ([CR, NL].contains c) = false := by simp [hc, hn]
        have h2 : ([NL].contains c) = false := by simp [hn]
        simp only [List.dropWhile_cons, h1, h2, Bool.false_eq_true, ↓reduceIte]

/-- a right-trimmed non-empty line stays as it is behind anything -/
theorem rstrip_append_trimmed (x l : Bytes) (hl : l ≠ []) (hr : rstrip l = l) : rstrip (x ++ l) = x ++ l := by
  unfold rstrip at hr ⊢
  have hrev : l.reverse.dropWhile isWs = l.reverse := by
    have := congrArg List.reverse hr
    simpa using this
  cases hlr : l.reverse with
  | nil => exact absurd (by simpa using hlr) hl
  | cons c r =>
    rw [hlr] at hrev
    have hc : isWs c = false := by
      cases hc' : isWs c with
      | false => rfl
      | true =>
        exfalso
        simp only [List.dropWhile_cons, hc', ↓reduceIte] at hrev
        have := (List.dropWhile_suffix isWs (l := r)).length_le
        rw [hrev] at this
        simp at this
        omega
    show ((x ++ l).reverse.dropWhile isWs).reverse = x ++ l
    rw [List.reverse_append, hlr]
    simp only [List.cons_append, List.dropWhile_cons, hc, Bool.false_eq_true, ↓reduceIte]
    rw [← List.cons_append, ← hlr, ← List.reverse_append, List.reverse_reverse]

theorem joinNL_concat (init : List Bytes) (last : Bytes) (h : init ≠ []) :
    joinNL (init ++ [last]) = joinNL init ++ NL :: last := by
  induction init with
  | nil => exact absurd rfl h
  | cons a r ih =>
    cases r with
    | nil => simp [joinNL]
    | cons b r' =>
      have := ih (by simp)
      simp only [List.cons_append] at this ⊢
      simp [joinNL, this]

/-- `lstrip(b"\n")` on joined lines = dropping the leading empty lines -/
theorem lstrip_joinNL : ∀ (ls : List Bytes), (∀ l ∈ ls, NL ∉ l) →
    lstripChars [NL] (joinNL ls) = joinNL (ls.dropWhile List.isEmpty) := by
  intro ls
  induction ls with
  | nil => intro _; rfl
  | cons l rest ih =>
    intro h
    have hrest : ∀ l ∈ rest, NL ∉ l := fun x hx => h x (by simp [hx])
    cases l with
    | nil =>
      cases rest with
      | nil => simp [joinNL, lstripChars]
      | cons b r =>
        have : joinNL ([] :: b :: r) = NL :: joinNL (b :: r) := by simp [joinNL]
        rw [this]
        have e1 : lstripChars [NL] (NL :: joinNL (b :: r)) = lstripChars [NL] (joinNL (b :: r)) := by
          simp [lstripChars, List.dropWhile_cons]
        have e2 : List.dropWhile List.isEmpty (([] : Bytes) :: b :: r) = List.dropWhile List.isEmpty (b :: r) := by
          simp [List.dropWhile_cons]
        rw [e1, e2]
        exact ih hrest
    | cons c l' =>
      have hc : c ≠ NL := fun e => h (c :: l') (by simp) (by simp [e])
      have hj : ∃ tl, joinNL ((c :: l') :: rest) = c :: tl := by
        cases rest with
        | nil => exact ⟨l', by simp [joinNL]⟩
        | cons b r => exact ⟨l' ++ NL :: joinNL (b :: r), by simp [joinNL]⟩
      obtain ⟨tl, htl⟩ := hj
      have e2 : List.dropWhile List.isEmpty ((c :: l') :: rest) = (c :: l') :: rest := by
        simp [List.dropWhile_cons]
      rw [e2, htl]
      simp [lstripChars, List.dropWhile_cons, hc]

/-- `rstrip()` on joined right-trimmed lines = dropping the trailing empty lines
    (stated on the reversed line list so that the induction peels lines off the end) -/
theorem rstrip_joinNL_rev : ∀ (rs : List Bytes), (∀ l ∈ rs, rstrip l = l) →
    rstrip (joinNL rs.reverse) = joinNL (rs.dropWhile List.isEmpty).reverse := by
  intro rs
  induction rs with
  | nil => intro _; simp [joinNL, rstrip]
  | cons last rinit ih =>
    intro h
    have hinit : ∀ l ∈ rinit, rstrip l = l := fun x hx => h x (by simp [hx])
    have hlast : rstrip last = last := h last (by simp)
    rw [List.reverse_cons]
    by_cases hl : last = []
    · subst hl
      have e : List.dropWhile List.isEmpty (([] : Bytes) :: rinit) = List.dropWhile List.isEmpty rinit := by
        simp [List.dropWhile_cons]
      rw [e]
      by_cases hi : rinit = []
      · subst hi; simp [joinNL, rstrip]
      · have hi' : rinit.reverse ≠ [] := by simpa using hi
        rw [joinNL_concat rinit.reverse [] hi', rstrip_append_ws (joinNL rinit.reverse) [NL] (by decide)]
        exact ih hinit
    · have hne : last.isEmpty = false := by simpa using hl
      have e : List.dropWhile List.isEmpty (last :: rinit) = last :: rinit := by
        simp [List.dropWhile_cons, hne]
      rw [e, List.reverse_cons]
      by_cases hi : rinit = []
      · subst hi; simpa [joinNL] using hlast
      · have hi' : rinit.reverse ≠ [] := by simpa using hi
        rw [joinNL_concat rinit.reverse last hi']
        have := rstrip_append_trimmed (joinNL rinit.reverse ++ [NL]) last hl hlast
        simpa [List.append_assoc] using this

theorem rstrip_joinNL (ls : List Bytes) (h : ∀ l ∈ ls, rstrip l = l) :
    rstrip (joinNL ls) = joinNL (ls.reverse.dropWhile List.isEmpty).reverse := by
  have := rstrip_joinNL_rev ls.reverse (fun l hl => h l (by simpa using hl))
  simpa using this

theorem dropWhile_isEmpty_trimmed (ls : List Bytes) (h : ∀ l ∈ ls, rstrip l = l) :
    ∀ l ∈ ls.dropWhile List.isEmpty, rstrip l = l :=
  fun l hl => h l ((List.dropWhile_suffix _).subset hl)

/-- **what `_process_output` returns without prompt stripping** (return char `\n` or `\r\n`, CR-free buffer -- `Channel.read` removes every CR): the lines of the
    buffer, each right-trimmed, without the leading and trailing empty lines — for ANY buffer whose
    last line is not empty. -/
theorem processOutput_lines (cfg : Cfg) (hret : IsRet cfg.ret) (x z : Bytes) (hz : z ≠ []) (hznl : NL ∉ z)
    (hcr : CR ∉ x ++ NL :: z) :
    processOutput cfg (x ++ NL :: z) false = normalizeText (x ++ NL :: z) := by
  unfold processOutput normalizeText trimLines
  simp only [Bool.false_eq_true, ↓reduceIte]
  rw [splitlines_last_ne hz hznl, ← splitNL_noNL z hznl, ← splitNL_append_NL]
  rw [lstripChars_ret hret _ (joinNL_rstrip_noCR hcr)]
  have hnl : ∀ l ∈ (splitNL (x ++ NL :: z)).map rstrip, NL ∉ l := by
    intro l hl
    obtain ⟨a, ha, rfl⟩ := List.mem_map.mp hl
    exact rstrip_no_nl (splitNL_no_nl _ a ha)
  have htr : ∀ l ∈ (splitNL (x ++ NL :: z)).map rstrip, rstrip l = l := by
    intro l hl
    obtain ⟨a, _, rfl⟩ := List.mem_map.mp hl
    exact rstrip_idem a
  rw [lstrip_joinNL _ hnl, rstrip_joinNL _ (dropWhile_isEmpty_trimmed _ htr)]

end Scrapli.Chan

namespace Scrapli.Chan
open Scrapli

/-- **with prompt stripping**: if `re.sub` removes exactly the prompt line (hypothesis `hsub`, what a
    line-local pattern does on a buffer whose other lines are not prompt-like; validated against
    CPython on every real run by the correspondence), the result is the response without the prompt,
    every line right-trimmed, surrounding empty lines dropped. -/
theorem processOutput_lines_strip (cfg : Cfg) (hret : IsRet cfg.ret) (x p : Bytes) (hp : p ≠ [])
    (hpnl : NL ∉ p) (hcr : CR ∉ x)
    (hsub : cfg.prompt.sub (joinNL ((splitNL (x ++ NL :: p)).map rstrip)) =
      joinNL ((splitNL (x ++ [NL])).map rstrip)) :
    processOutput cfg (x ++ NL :: p) true = normalizeText (x ++ [NL]) := by
  unfold processOutput normalizeText trimLines
  simp only [↓reduceIte]
  rw [splitlines_last_ne hp hpnl, ← splitNL_noNL p hpnl, ← splitNL_append_NL, hsub]
  have hcr' : CR ∉ x ++ [NL] := by
    intro hm
    rcases List.mem_append.mp hm with h | h
    · exact hcr h
    · simp at h; exact absurd h (by decide)
  rw [lstripChars_ret hret _ (joinNL_rstrip_noCR hcr')]
  have hnl : ∀ l ∈ (splitNL (x ++ [NL])).map rstrip, NL ∉ l := by
    intro l hl
    obtain ⟨a, ha, rfl⟩ := List.mem_map.mp hl
    exact rstrip_no_nl (splitNL_no_nl _ a ha)
  have htr : ∀ l ∈ (splitNL (x ++ [NL])).map rstrip, rstrip l = l := by
    intro l hl
    obtain ⟨a, _, rfl⟩ := List.mem_map.mp hl
    exact rstrip_idem a
  rw [lstrip_joinNL _ hnl, rstrip_joinNL _ (dropWhile_isEmpty_trimmed _ htr)]

end Scrapli.Chan
