import ScrapliModel.Channel.Chan
import ScrapliModel.Gen.ChanConsts
namespace Scrapli.Chan
end Scrapli.Chan
