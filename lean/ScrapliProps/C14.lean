import ScrapliProps.C14Lemmas
/-
  C14 — per-call timeout overrides never outlive the call.
  Property theorems only (helper lemmas and the spec definitions `Coherent`, `bad`, `nbad`:
  C14Lemmas.lean).  Quantifiers: every value type and every interpretation of `int()` / `>= 0`
  (`ValOps`), every initial state, EVERY sequence of operations (send_command(s), send_and_read,
  send_interactive, send_configs, read_callback with any callbacks / next_timeouts; Generic and
  Network driver), every override (None, equal, any number, a non-number), and EVERY tape of
  outcomes: each inner call site returns or raises any exception class, loops run any number of
  rounds, callbacks match in any order, recursion of read_callback to any depth.
  `step.st` is the state the connection is left in after each call of the sequence.
-/
namespace Scrapli.TimeoutRestore
open Scrapli.Gen.TimeoutRestore

section general
variable {α : Type} [DecidableEq α]

/-- **C14, general form** (any tree whose `timeout_modifier` restores in `finally`): if no
    exception escaped a temporary-`timeout_transport` region that lacks a `finally` (`nbad = 0`;
    vacuous when every restore stands in a `finally`), then after every call of the sequence
    `timeout_ops` and `timeout_transport` are what they were before the first call, and so is the
    value held by the library session. -/
theorem restore_general (sh : Shape) (hmod : sh.modFinally = true) (V : ValOps α)
    (ops : List (Op α)) (tape : List Ev) (s : St α)
    (hclean : nbad sh (run sh V ops tape s).2 = 0) :
    ∀ step ∈ (run sh V ops tape s).1,
      step.st.ops = s.ops ∧ step.st.tr = s.tr ∧ (Coherent s → step.st = s) := by
  intro step hstep
  obtain ⟨_, h⟩ := runOps_spec hmod V (fuelFor tape) ops ({ st := s, tape := tape } : Ctx α)
  obtain ⟨h1, h2⟩ := h step hstep
  have h0 : nbad sh ({ st := s, tape := tape } : Ctx α) = 0 := rfl
  obtain ⟨h3, h4⟩ := h2 (by rw [h0]; exact hclean)
  refine ⟨h1, h3, fun hc => ?_⟩
  have h5 := h4 hc
  cases hs : step.st with
  | mk o t ss =>
    rw [hs] at h1 h3 h5
    cases s
    simp_all

/-- **C14 (restore_full)** — the tree in which every restore stands in a `finally`
    (the code after fix 9d6a16c): for every sequence of calls, every override, every outcome at
    every inner call site, the state after each call equals the state before the first. -/
theorem restore_full (sh : Shape) (hall : sh.all = true) (V : ValOps α)
    (ops : List (Op α)) (tape : List Ev) (s : St α) :
    ∀ step ∈ (run sh V ops tape s).1,
      step.st.ops = s.ops ∧ step.st.tr = s.tr ∧ (Coherent s → step.st = s) := by
  have h : sh.modFinally = true ∧ sh.chanFinally = true ∧ sh.cbFinally = true := by
    simpa [Shape.all, Bool.and_eq_true, and_assoc] using hall
  exact restore_general sh h.1 V ops tape s (nbad_fixed sh h.2.1 h.2.2 _)

/-- **C14 for `timeout_ops` alone**: restored after every call on every tape, whatever the
    channel / read_callback code does about `timeout_transport` (this held before the fix too). -/
theorem restore_ops (sh : Shape) (hmod : sh.modFinally = true) (V : ValOps α)
    (ops : List (Op α)) (tape : List Ev) (s : St α) :
    ∀ step ∈ (run sh V ops tape s).1, step.st.ops = s.ops := by
  intro step hstep
  exact ((runOps_spec hmod V (fuelFor tape) ops ({ st := s, tape := tape } : Ctx α)).2 step hstep).1

/-- **pre-fix tree, partial**: on the code before 9d6a16c the property holds exactly on the runs
    in which no exception other than a suppressed / handled ScrapliTimeout left the swapped region
    of `_read_until_prompt_or_time` / `read_callback`. -/
theorem restore_partial (V : ValOps α) (ops : List (Op α)) (tape : List Ev) (s : St α)
    (hclean : nbad Shape.prefix (run Shape.prefix V ops tape s).2 = 0) :
    ∀ step ∈ (run Shape.prefix V ops tape s).1,
      step.st.ops = s.ops ∧ step.st.tr = s.tr ∧ (Coherent s → step.st = s) :=
  restore_general Shape.prefix rfl V ops tape s hclean

end general

/-! ### witnesses (thousandths of a second) -/

/-- timeout_ops 30, timeout_transport 7, session timeout 7 -/
def s0 : St Int := ⟨30000, 7000, some 7000⟩

/-- send_command(timeout_ops=5) ; send_and_read(timeout_ops=3, read_duration=1.5) ;
    read_callback(initial_input, read_timeout=4.5, two callbacks) -/
def wOps : List (Op Int) :=
  [.sendCommand false (.num 5000), .sendAndRead (.num 3000) (some 1500),
   .readCallback true 4500 [⟨false, 500⟩, ⟨true, -1000⟩]]

/-- send_input times out | pre, write, echo, return fine, one read, then the connection drops |
    write, read fine, the first callback's check raises (class 3) -/
def wTape : List Ev :=
  [{}, ⟨some .timeout, false⟩,
   {}, {}, {}, {}, {}, ⟨some .conn, false⟩,
   {}, {}, ⟨some (.other 3), false⟩]

/-- **pre-fix tree, full statement refuted**: the run above leaves timeout_transport = 1
    (= int(1.5)) after the second call and 4.5 after the third. -/
theorem restore_full_refuted_prefix :
    ¬ ∀ (ops : List (Op Int)) (tape : List Ev) (s : St Int),
        ∀ step ∈ (run Shape.prefix (milli false) ops tape s).1, step.st.tr = s.tr := by
  intro h
  have := h wOps wTape s0
  revert this
  decide

/-- exactly what the pre-fix code leaves behind on the witness (and that timeout_ops survives) -/
theorem prefix_witness_states :
    (run Shape.prefix (milli false) wOps wTape s0).1.map (fun st => (st.res, st.st.ops, st.st.tr, st.st.sess)) =
      [(some .timeout, 30000, 7000, some 7000), (some .conn, 30000, 1000, some 7000),
       (some (.other 3), 30000, 4500, some 4500)] := by decide

/-- **the restores must be in `finally`, all three of them**: a shape satisfies the full
    statement if and only if every restore stands in a `finally`. -/
theorem restore_full_iff (sh : Shape) :
    (∀ (ops : List (Op Int)) (tape : List Ev) (s : St Int),
        ∀ step ∈ (run sh (milli false) ops tape s).1, step.st.ops = s.ops ∧ step.st.tr = s.tr)
      ↔ sh.all = true := by
  constructor
  · intro h
    have := h wOps wTape s0
    revert this
    obtain ⟨m, c, b⟩ := sh
    cases m <;> cases c <;> cases b <;> decide
  · intro hall ops tape s step hstep
    obtain ⟨h1, h2, _⟩ := restore_full sh hall (milli false) ops tape s step hstep
    exact ⟨h1, h2⟩

/-! ### the tree, as read by the translator -/

/-- in the tree the check runs against, every restore stands in a `finally` (sync and asyncio);
    this is the hypothesis of `restore_full` — it stops checking as soon as one restore leaves its
    `finally` -/
theorem tree_shape_fixed : Shape.sync.all = true ∧ Shape.async.all = true := by decide

/-- **C14 for the tree, sync stack** -/
theorem restore_full_sync (ops : List (Op Int)) (tape : List Ev) (s : St Int) :
    ∀ step ∈ (run Shape.sync (milli false) ops tape s).1,
      step.st.ops = s.ops ∧ step.st.tr = s.tr ∧ (Coherent s → step.st = s) :=
  restore_full Shape.sync tree_shape_fixed.1 (milli false) ops tape s

/-- **C14 for the tree, asyncio stack** -/
theorem restore_full_async (ops : List (Op Int)) (tape : List Ev) (s : St Int) :
    ∀ step ∈ (run Shape.async (milli true) ops tape s).1,
      step.st.ops = s.ops ∧ step.st.tr = s.tr ∧ (Coherent s → step.st = s) :=
  restore_full Shape.async tree_shape_fixed.2 (milli true) ops tape s

/-- follow the `timeout_ops=timeout_ops` hand-offs: `m` is decorated, or hands its parameter on
    (at least once) and everything it hands it to gets there within `k` hops -/
def reaches : Nat → String × String → Bool
  | 0, m => decorated.contains m
  | k + 1, m =>
    decorated.contains m ||
      ((passes.any fun e => e.1 == m) && passes.all fun e => !(e.1 == m) || reaches k e.2)

/-- every driver method that accepts `timeout_ops` (sync/async, generic/network) is one of the
    operations of the model: it is decorated with `timeout_modifier` or hands the value on, by
    keyword, to methods that are -/
theorem every_override_reaches_modifier : takesTimeoutOps.all (reaches 3) = true := by decide +kernel

/-- the decorator only sees keyword arguments: every decorated method has the parameter, and
    there are exactly the three operations of the model, on both stacks -/
theorem decorated_are_modelled :
    decorated = [("GenericDriver", "_send_command"), ("GenericDriver", "send_and_read"),
                 ("GenericDriver", "send_interactive"), ("AsyncGenericDriver", "_send_command"),
                 ("AsyncGenericDriver", "send_and_read"), ("AsyncGenericDriver", "send_interactive")] ∧
    decorated.all (takesTimeoutOps.contains ·) = true := by decide +kernel

/-- nothing else in scrapli/ assigns an attribute called timeout_ops / timeout_transport: the two
    setters, `timeout_modifier`, the two channels and the two `read_callback`s — the sites of the model -/
theorem assign_sites_are_modelled :
    assignSites =
      [("scrapli/channel/async_channel.py", "AsyncChannel._read_until_prompt_or_time", "timeout_transport"),
       ("scrapli/channel/sync_channel.py", "Channel._read_until_prompt_or_time", "timeout_transport"),
       ("scrapli/decorators.py", "timeout_modifier.decorate", "timeout_ops"),
       ("scrapli/driver/base/base_driver.py", "BaseDriver.timeout_ops", "timeout_ops"),
       ("scrapli/driver/base/base_driver.py", "BaseDriver.timeout_transport", "timeout_transport"),
       ("scrapli/driver/generic/async_driver.py", "AsyncGenericDriver.read_callback", "timeout_transport"),
       ("scrapli/driver/generic/sync_driver.py", "GenericDriver.read_callback", "timeout_transport")] := by
  decide +kernel

/-- the defaults the property text speaks about: read_duration 2.5 s (channel and driver),
    read_timeout / next_timeout -1 (= "leave the transport timeout alone"), threshold 0 -/
theorem defaults_are :
    syncChanDefaultReadDuration = 2500 ∧ asyncChanDefaultReadDuration = 2500 ∧
    syncDrvDefaultReadDuration = 2500 ∧ asyncDrvDefaultReadDuration = 2500 ∧
    syncReadTimeoutDefault = -1000 ∧ asyncReadTimeoutDefault = -1000 ∧ nextTimeoutDefault = -1000 ∧
    syncReadTimeoutThreshold = 0 ∧ asyncReadTimeoutThreshold = 0 := by decide

/-- seen on reading: `int(read_duration)` makes every sub-second duration 0 = "no transport
    timeout" for the duration of send_and_read (not a restore defect; recorded in design/C14.md) -/
theorem subsecond_duration_truncates_to_zero (b : Bool) (x : Int) (h0 : 0 ≤ x) (h1 : x < 1000) :
    (milli b).trunc x = 0 := by
  show Int.tdiv x 1000 * 1000 = 0
  rw [Int.tdiv_eq_ediv_of_nonneg h0]
  omega

/-! ### non-vacuity -/

/-- the hypotheses of `restore_full` are met by `Shape.fixed`; on the witness run all three calls
    end with an exception inside a swapped region, 11 sites are visited, and the state is `s0`
    after each call -/
example : Shape.fixed.all = true ∧ Coherent s0 ∧
    (run Shape.fixed (milli false) wOps wTape s0).1.map (fun st => (st.res, st.st.ops, st.st.tr, st.st.sess)) =
      [(some .timeout, 30000, 7000, some 7000), (some .conn, 30000, 7000, some 7000),
       (some (.other 3), 30000, 7000, some 7000)] ∧
    (run Shape.fixed (milli false) wOps wTape s0).2.log.length = 11 := by decide

/-- `restore_partial` is not vacuous: a pre-fix run with a suppressed ScrapliTimeout in the read
    loop of send_and_read and a ScrapliTimeout in read_callback's read is clean (`nbad = 0`) -/
example :
    nbad Shape.prefix (run Shape.prefix (milli false)
      [.sendAndRead (.num 3000) (some 1500), .readCallback false 4500 [⟨true, -1000⟩]]
      [{}, {}, {}, {}, ⟨some .timeout, false⟩, ⟨none, true⟩, {}, {}, ⟨some .timeout, false⟩] s0).2 = 0 ∧
    (run Shape.prefix (milli false)
      [.sendAndRead (.num 3000) (some 1500), .readCallback false 4500 [⟨true, -1000⟩]]
      [{}, {}, {}, {}, ⟨some .timeout, false⟩, ⟨none, true⟩, {}, {}, ⟨some .timeout, false⟩] s0).1.map (·.res) =
      [none, some .timeout] := by decide

/-- the override really is in force inside the call: the sites of the witness run see
    timeout_ops 5 / 3 and timeout_transport 1 (= int(1.5)) / 4.5 -/
example :
    (run Shape.fixed (milli false) wOps wTape s0).2.log.map (fun e => (e.st.ops, e.st.tr)) =
      [(5000, 7000), (5000, 7000),
       (3000, 7000), (3000, 7000), (3000, 7000), (3000, 7000), (3000, 1000), (3000, 1000),
       (30000, 7000), (30000, 4500), (30000, 4500)] := by decide

end Scrapli.TimeoutRestore
