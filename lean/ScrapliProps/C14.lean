import ScrapliProps.C14Lemmas
/-
  C14 — per-call timeout overrides never outlive the call.
  Property theorems only (helper lemmas and the spec definitions `Coherent`, `badCore`, `bad`, `nbad`, `PushesOk`:
  C14Lemmas.lean).  Quantifiers: every value type and every interpretation of `int()` / `>= 0`
  (`ValOps`), every initial state, EVERY sequence of operations (send_command(s), send_and_read,
  send_interactive, send_configs, read_callback with any callbacks / next_timeouts; Generic and
  Network driver), every override (None, equal, any number, a non-number), and EVERY tape of
  outcomes: each inner call site — including `transport._set_timeout` inside the timeout_transport setter —
  returns or raises any exception class, loops run any number of rounds, callbacks match in any order,
  recursion of read_callback to any depth.  `step.st` is the state the connection is left in after each call.

  Labels.  `restore_full`: the full statement, for shapes with `sh.all` (three `finally`s, read_callback's swap
  inside its `try`, and the channel's swap inside its `try` or exceptions at call sites only).  The tree the check runs
  against (from 82202ec on) satisfies `sh.all` on both stacks (`tree_shape_fixed`, generated flags), hence
  `restore_full_sync` / `restore_full_async` / `restore_full_sync_asyncExc`.  The `…_refuted_…` / `…_partial` theorems
  document the earlier trees: before 9d6a16c (F5), 9d6a16c–5ccd86d (C14-F2, a raising `_set_timeout` in the swap before
  the try), before 82202ec (C14-F3, an exception arriving between the channel's swap and its try).
-/
namespace Scrapli.TimeoutRestore
open Scrapli.Gen.TimeoutRestore

section general
variable {α : Type} [DecidableEq α]

/-- **C14, general form** (any tree whose `timeout_modifier` restores in `finally`): if no exception escaped a
    temporary-`timeout_transport` region that lacks a `finally` and no `_set_timeout` raised at a swap standing
    outside its `try` (`nbad sh false = 0`; vacuous for `Shape.fixed`), then after every call of the sequence
    `timeout_ops` and `timeout_transport` are what they were before the first call; if moreover no `_set_timeout`
    raised at all (`nbad sh true = 0`), so is the value held by the library session (coherent start). -/
theorem restore_general (sh : Shape) (hmod : sh.modFinally = true) (V : ValOps α)
    (ops : List (Op α)) (tape : List Ev) (s : St α)
    (hclean : nbad sh false (run sh V ops tape s).2 = 0) :
    ∀ step ∈ (run sh V ops tape s).1,
      step.st.ops = s.ops ∧ step.st.tr = s.tr ∧
      (nbad sh true (run sh V ops tape s).2 = 0 → Coherent s → step.st = s) := by
  intro step hstep
  obtain ⟨_, h⟩ := runOps_spec (q := false) hmod V (fuelFor tape) ops ({ st := s, tape := tape } : Ctx α)
  obtain ⟨h1, h2⟩ := h step hstep
  have h0 : ∀ q, nbad sh q ({ st := s, tape := tape } : Ctx α) = 0 := fun _ => rfl
  obtain ⟨h3, _⟩ := h2 (by rw [h0]; exact hclean)
  refine ⟨h1, h3, fun hstrict hc => ?_⟩
  obtain ⟨_, h'⟩ := runOps_spec (q := true) hmod V (fuelFor tape) ops ({ st := s, tape := tape } : Ctx α)
  obtain ⟨_, h2'⟩ := h' step hstep
  obtain ⟨_, h4⟩ := h2' (by rw [h0]; exact hstrict)
  have h5 := h4 rfl hc
  cases hs : step.st with
  | mk o t ss =>
    rw [hs] at h1 h3 h5
    cases s
    simp_all

/-- **C14 (restore_full)** — a tree in which every restore stands in a `finally` and read_callback swaps inside its
    `try` (`Shape.fixed`): for every sequence of calls, every override, every outcome at every inner call site
    INCLUDING a `_set_timeout` that raises, `timeout_ops` and `timeout_transport` after each call equal those before
    the first; the session value too on runs in which every `_set_timeout` returned. -/
theorem restore_full (sh : Shape) (hall : sh.all = true) (V : ValOps α)
    (ops : List (Op α)) (tape : List Ev) (s : St α) :
    ∀ step ∈ (run sh V ops tape s).1,
      step.st.ops = s.ops ∧ step.st.tr = s.tr ∧
      (PushesOk (run sh V ops tape s).2 → Coherent s → step.st = s) := by
  have h : sh.modFinally = true ∧ sh.chanFinally = true ∧ sh.cbFinally = true ∧ sh.cbSwapInTry = true ∧
      (sh.chanSwapInTry = true ∨ sh.asyncExc = false) := by
    simpa [Shape.all, Shape.finallys, Bool.and_eq_true, and_assoc] using hall
  intro step hstep
  obtain ⟨h1, h2, h3⟩ :=
    restore_general sh h.1 V ops tape s (nbad_fixed sh h.2.1 h.2.2.1 h.2.2.2.1 h.2.2.2.2 _) step hstep
  exact ⟨h1, h2, fun hp => h3 (nbad_strict_fixed sh h.2.1 h.2.2.1 h.2.2.2.1 h.2.2.2.2 _ hp)⟩

/-- **C14 for `timeout_ops` alone**: restored after every call on every tape, whatever the
    channel / read_callback code does about `timeout_transport` (this held before the fix too). -/
theorem restore_ops (sh : Shape) (hmod : sh.modFinally = true) (V : ValOps α)
    (ops : List (Op α)) (tape : List Ev) (s : St α) :
    ∀ step ∈ (run sh V ops tape s).1, step.st.ops = s.ops := by
  intro step hstep
  exact ((runOps_spec (q := false) hmod V (fuelFor tape) ops ({ st := s, tape := tape } : Ctx α)).2 step hstep).1

/-- **the tree from 9d6a16c to 5ccd86d, partial** (three `finally`s, read_callback's swap BEFORE its `try`): the property
    holds exactly on the runs in which `transport._set_timeout` does not raise inside that swapping assignment
    (finding C14-F2). -/
theorem restore_swapOutside_partial (V : ValOps α) (ops : List (Op α)) (tape : List Ev) (s : St α)
    (hclean : nbad Shape.swapOutside false (run Shape.swapOutside V ops tape s).2 = 0) :
    ∀ step ∈ (run Shape.swapOutside V ops tape s).1,
      step.st.ops = s.ops ∧ step.st.tr = s.tr ∧
      (nbad Shape.swapOutside true (run Shape.swapOutside V ops tape s).2 = 0 → Coherent s → step.st = s) :=
  restore_general Shape.swapOutside rfl V ops tape s hclean

/-- **pre-fix tree (before 9d6a16c), partial**: the property holds exactly on the runs in which no exception other
    than a suppressed / handled ScrapliTimeout left the swapped region of `_read_until_prompt_or_time` /
    `read_callback` (pushes that raise are not modelled for this shape). -/
theorem restore_partial (V : ValOps α) (ops : List (Op α)) (tape : List Ev) (s : St α)
    (hclean : nbad Shape.prefix false (run Shape.prefix V ops tape s).2 = 0) :
    ∀ step ∈ (run Shape.prefix V ops tape s).1,
      step.st.ops = s.ops ∧ step.st.tr = s.tr ∧
      (nbad Shape.prefix true (run Shape.prefix V ops tape s).2 = 0 → Coherent s → step.st = s) :=
  restore_general Shape.prefix rfl V ops tape s hclean

end general

/-! ### witnesses (thousandths of a second) -/

/-- timeout_ops 30, timeout_transport 7, session timeout 7 -/
def s0 : St Int := ⟨30000, 7000, some 7000⟩

/-- send_command(timeout_ops=5) ; send_and_read(timeout_ops=3, read_duration=1.5) ;
    read_callback(initial_input, read_timeout=4.5, two callbacks) ; read_callback(read_timeout=2) -/
def wOps : List (Op Int) :=
  [.sendCommand false (.num 5000), .sendAndRead (.num 3000) (some 1500),
   .readCallback true 4500 [⟨false, 500⟩, ⟨true, -1000⟩], .readCallback false 2000 []]

/-- send_input times out | pre, write, echo, return fine, one read, then the connection drops |
    write, (push), read fine, the first callback's check raises (class 3), (push) |
    `_set_timeout` raises inside the swapping assignment, (restoring push fine).
    (the pushes are consumed by the shapes with a `finally` in read_callback only) -/
def wTape : List Ev :=
  [{}, ⟨some .timeout, false⟩,
   {}, {}, {}, {}, {}, ⟨some .conn, false⟩,
   {}, {}, {}, ⟨some (.other 3), false⟩, {},
   ⟨some .conn, false⟩, {}]

/-- **pre-fix tree, full statement refuted**: the run above leaves timeout_transport = 1
    (= int(1.5)) after the second call. -/
theorem restore_full_refuted_prefix :
    ¬ ∀ (ops : List (Op Int)) (tape : List Ev) (s : St Int),
        ∀ step ∈ (run Shape.prefix (milli false) ops tape s).1, step.st.tr = s.tr := by
  intro h
  have := h wOps wTape s0
  revert this
  decide

/-- exactly what the pre-fix code leaves behind on the witness (and that timeout_ops survives) -/
theorem prefix_witness_states :
    (run Shape.prefix (milli false) wOps wTape s0).1.map (fun st => (st.res, st.st.ops, st.st.tr, st.st.sess)) =
      [(some .timeout, 30000, 7000, some 7000), (some .conn, 30000, 1000, some 7000),
       (some (.other 3), 30000, 4500, some 4500), (some .conn, 30000, 2000, some 2000)] := by decide

/-- **the tree from 9d6a16c to 5ccd86d, full statement refuted** (finding C14-F2, fixed by 5ccd86d): `read_callback(read_timeout=4.5)` on a
    session whose `_set_timeout` raises (paramiko/ssh2 without a session) leaves timeout_transport = 4.5 -/
theorem restore_full_refuted_swapOutside :
    ¬ ∀ (ops : List (Op Int)) (tape : List Ev) (s : St Int),
        ∀ step ∈ (run Shape.swapOutside (milli false) ops tape s).1, step.st.tr = s.tr := by
  intro h
  have := h [.readCallback false 4500 []] [⟨some .conn, false⟩] s0
  revert this
  decide

/-- what that tree leaves behind on the long witness: only the last call (the raising push) leaks -/
theorem swapOutside_witness_states :
    (run Shape.swapOutside (milli false) wOps wTape s0).1.map (fun st => (st.res, st.st.ops, st.st.tr, st.st.sess)) =
      [(some .timeout, 30000, 7000, some 7000), (some .conn, 30000, 7000, some 7000),
       (some (.other 3), 30000, 7000, some 7000), (some .conn, 30000, 2000, some 7000)] := by decide

/-- **the tree before 82202ec under an asynchronous exception, refuted** (finding C14-F3, fixed by 82202ec): if an exception can also arrive between the
    swapping assignment of `_read_until_prompt_or_time` and its `try` — the SIGALRM of the sync ops timer, observed on
    the real code — a tree with every restore in a `finally` but the channel's swap BEFORE its try leaves
    timeout_transport = int(read_duration) behind.  (With the swap inside the try the statement survives:
    `restore_full` covers `asyncExc = true` when `chanSwapInTry = true`.) -/
theorem restore_full_refuted_asyncExc :
    ¬ ∀ (ops : List (Op Int)) (tape : List Ev) (s : St Int),
        ∀ step ∈ (run ⟨true, true, true, true, false, true⟩ (milli false) ops tape s).1, step.st.tr = s.tr := by
  intro h
  have := h [.sendAndRead (.num 3000) (some 1500)] [{}, {}, {}, {}, ⟨some .timeout, false⟩] s0
  revert this
  decide

/-- the long witness plus a fifth call, send_and_read(read_duration=1.5), during which a ScrapliTimeout arrives right
    after `send_return` (at the gap if there is one, else at the first read, where it is suppressed) -/
def wOps5 : List (Op Int) := wOps ++ [.sendAndRead .none (some 1500)]
def wTape5 : List Ev := wTape ++ ([{}, {}, {}, {}, ⟨some .timeout, false⟩] : List Ev)

/-- **every protection is necessary**: a shape satisfies the full statement if and only if the three restores stand in
    a `finally`, read_callback's swap stands inside its `try`, and the channel's swap stands inside its `try` or no
    exception arrives between that swap and the `try` (64 shapes). -/
theorem restore_full_iff (sh : Shape) :
    (∀ (ops : List (Op Int)) (tape : List Ev) (s : St Int),
        ∀ step ∈ (run sh (milli false) ops tape s).1, step.st.ops = s.ops ∧ step.st.tr = s.tr)
      ↔ sh.all = true := by
  constructor
  · intro h
    have := h wOps5 wTape5 s0
    revert this
    obtain ⟨m, c, b, w, g, a⟩ := sh
    cases m <;> cases c <;> cases b <;> cases w <;> cases g <;> cases a <;> decide
  · intro hall ops tape s step hstep
    obtain ⟨h1, h2, _⟩ := restore_full sh hall (milli false) ops tape s step hstep
    exact ⟨h1, h2⟩

/-! ### the tree, as read by the translator -/

/-- in the tree the check runs against (from 82202ec on) the three restores stand in a `finally` and both
    transport-timeout swaps stand inside their `try`, on both stacks; this is the hypothesis of `restore_full` — it
    stops checking as soon as one of them leaves its place -/
theorem tree_shape_fixed : Shape.sync.all = true ∧ Shape.async.all = true := by decide

/-- **C14 for the tree, sync stack** (full statement) -/
theorem restore_full_sync (ops : List (Op Int)) (tape : List Ev) (s : St Int) :
    ∀ step ∈ (run Shape.sync (milli false) ops tape s).1,
      step.st.ops = s.ops ∧ step.st.tr = s.tr ∧
      (PushesOk (run Shape.sync (milli false) ops tape s).2 → Coherent s → step.st = s) :=
  restore_full Shape.sync tree_shape_fixed.1 (milli false) ops tape s

/-- **C14 for the tree, asyncio stack** (full statement) -/
theorem restore_full_async (ops : List (Op Int)) (tape : List Ev) (s : St Int) :
    ∀ step ∈ (run Shape.async (milli true) ops tape s).1,
      step.st.ops = s.ops ∧ step.st.tr = s.tr ∧
      (PushesOk (run Shape.async (milli true) ops tape s).2 → Coherent s → step.st = s) :=
  restore_full Shape.async tree_shape_fixed.2 (milli true) ops tape s

/-- **the tree also survives the asynchronous exception** between the channel's swap and its loop (the SIGALRM of the
    sync ops timer, finding C14-F3 before 82202ec): the statement holds for the generated sync shape with
    `asyncExc := true` -/
theorem restore_full_sync_asyncExc (ops : List (Op Int)) (tape : List Ev) (s : St Int) :
    ∀ step ∈ (run { Shape.sync with asyncExc := true } (milli false) ops tape s).1,
      step.st.ops = s.ops ∧ step.st.tr = s.tr :=
  fun step hstep =>
    let ⟨a, b, _⟩ := restore_full { Shape.sync with asyncExc := true } (by decide) (milli false) ops tape s step hstep
    ⟨a, b⟩

/-- follow the `timeout_ops=timeout_ops` hand-offs: `m` is decorated, or hands its parameter on
    (at least once) and everything it hands it to gets there within `k` hops -/
def reaches : Nat → String × String → Bool
  | 0, m => decorated.contains m
  | k + 1, m =>
    decorated.contains m ||
      ((passes.any fun e => e.1 == m) && passes.all fun e => !(e.1 == m) || reaches k e.2)

/-- every driver method that accepts `timeout_ops` (sync/async, generic/network) is one of the
    operations of the model: it is decorated with `timeout_modifier` or hands the value on, by
    keyword, to methods that are -/
theorem every_override_reaches_modifier : takesTimeoutOps.all (reaches 3) = true := by decide +kernel

/-- the decorator only sees keyword arguments: every decorated method has the parameter, and
    there are exactly the three operations of the model, on both stacks -/
theorem decorated_are_modelled :
    decorated = [("GenericDriver", "_send_command"), ("GenericDriver", "send_and_read"),
                 ("GenericDriver", "send_interactive"), ("AsyncGenericDriver", "_send_command"),
                 ("AsyncGenericDriver", "send_and_read"), ("AsyncGenericDriver", "send_interactive")] ∧
    decorated.all (takesTimeoutOps.contains ·) = true := by decide +kernel

/-- nothing else in scrapli/ assigns an attribute called timeout_ops / timeout_transport: the two
    setters, `timeout_modifier`, the two channels and the two `read_callback`s — the sites of the model -/
theorem assign_sites_are_modelled :
    assignSites =
      [("scrapli/channel/async_channel.py", "AsyncChannel._read_until_prompt_or_time", "timeout_transport"),
       ("scrapli/channel/sync_channel.py", "Channel._read_until_prompt_or_time", "timeout_transport"),
       ("scrapli/decorators.py", "timeout_modifier.decorate", "timeout_ops"),
       ("scrapli/driver/base/base_driver.py", "BaseDriver.timeout_ops", "timeout_ops"),
       ("scrapli/driver/base/base_driver.py", "BaseDriver.timeout_transport", "timeout_transport"),
       ("scrapli/driver/generic/async_driver.py", "AsyncGenericDriver.read_callback", "timeout_transport"),
       ("scrapli/driver/generic/sync_driver.py", "GenericDriver.read_callback", "timeout_transport")] := by
  decide +kernel

/-- the defaults the property text speaks about: read_duration 2.5 s (channel and driver),
    read_timeout / next_timeout -1 (= "leave the transport timeout alone"), threshold 0 -/
theorem defaults_are :
    syncChanDefaultReadDuration = 2500 ∧ asyncChanDefaultReadDuration = 2500 ∧
    syncDrvDefaultReadDuration = 2500 ∧ asyncDrvDefaultReadDuration = 2500 ∧
    syncReadTimeoutDefault = -1000 ∧ asyncReadTimeoutDefault = -1000 ∧ nextTimeoutDefault = -1000 ∧
    syncReadTimeoutThreshold = 0 ∧ asyncReadTimeoutThreshold = 0 := by decide

/-- seen on reading: `int(read_duration)` makes every sub-second duration 0 = "no transport
    timeout" for the duration of send_and_read (not a restore defect; recorded in design/C14.md) -/
theorem subsecond_duration_truncates_to_zero (b : Bool) (x : Int) (h0 : 0 ≤ x) (h1 : x < 1000) :
    (milli b).trunc x = 0 := by
  show Int.tdiv x 1000 * 1000 = 0
  rw [Int.tdiv_eq_ediv_of_nonneg h0]
  omega

/-! ### non-vacuity -/

/-- the hypotheses of `restore_full` are met by `Shape.fixed`; on the witness run all four calls end with an
    exception (three inside a swapped region, one from `_set_timeout` inside the swapping assignment), 15 sites are
    visited, and the state is `s0` after each call — here even the session value, although a push raised -/
example : Shape.fixed.all = true ∧ Coherent s0 ∧
    (run Shape.fixed (milli false) wOps wTape s0).1.map (fun st => (st.res, st.st.ops, st.st.tr, st.st.sess)) =
      [(some .timeout, 30000, 7000, some 7000), (some .conn, 30000, 7000, some 7000),
       (some (.other 3), 30000, 7000, some 7000), (some .conn, 30000, 7000, some 7000)] ∧
    (run Shape.fixed (milli false) wOps wTape s0).2.log.length = 15 ∧
    ¬ PushesOk (run Shape.fixed (milli false) wOps wTape s0).2 := by decide

/-- the session clause of `restore_full` is not vacuous (a run with pushes, all of which return) and it cannot be
    had without its hypothesis: when the RESTORING push raises the session keeps the temporary value -/
example :
    PushesOk (run Shape.fixed (milli false) [.readCallback false 4500 [⟨true, -1000⟩]] [{}, {}, ⟨none, true⟩, {}, {}] s0).2 ∧
    (run Shape.fixed (milli false) [.readCallback false 4500 [⟨true, -1000⟩]] [{}, {}, ⟨none, true⟩, {}, {}] s0).2.log.length = 5 ∧
    (run Shape.fixed (milli false) [.readCallback false 4500 []] [{}, ⟨some .conn, false⟩, ⟨some .conn, false⟩] s0).1.map
      (fun st => (st.res, st.st.ops, st.st.tr, st.st.sess)) = [(some .conn, 30000, 7000, some 4500)] := by decide

/-- `restore_partial` is not vacuous: a pre-fix run with a suppressed ScrapliTimeout in the read
    loop of send_and_read and a ScrapliTimeout in read_callback's read is clean (`nbad = 0`) -/
example :
    nbad Shape.prefix false (run Shape.prefix (milli false)
      [.sendAndRead (.num 3000) (some 1500), .readCallback false 4500 [⟨true, -1000⟩]]
      [{}, {}, {}, {}, ⟨some .timeout, false⟩, ⟨none, true⟩, {}, {}, ⟨some .timeout, false⟩] s0).2 = 0 ∧
    (run Shape.prefix (milli false)
      [.sendAndRead (.num 3000) (some 1500), .readCallback false 4500 [⟨true, -1000⟩]]
      [{}, {}, {}, {}, ⟨some .timeout, false⟩, ⟨none, true⟩, {}, {}, ⟨some .timeout, false⟩] s0).1.map (·.res) =
      [none, some .timeout] := by decide

/-- `restore_swapOutside_partial` / `restore_tree_*_partial` are not vacuous: the first three calls of the witness
    (with their pushes) are a clean run of that shape -/
example :
    nbad Shape.swapOutside false (run Shape.swapOutside (milli false) (wOps.take 3) (wTape.take 13) s0).2 = 0 ∧
    (run Shape.swapOutside (milli false) (wOps.take 3) (wTape.take 13) s0).2.log.length = 13 := by decide

/-- `restore_full` under `asyncExc` is not vacuous: with the channel's swap inside its try, a ScrapliTimeout arriving at
    the gap is survived (the same tape leaks in `restore_full_refuted_asyncExc`) -/
example : (⟨true, true, true, true, true, true⟩ : Shape).all = true ∧
    (run ⟨true, true, true, true, true, true⟩ (milli false) [.sendAndRead (.num 3000) (some 1500)]
      [{}, {}, {}, {}, ⟨some .timeout, false⟩] s0).1.map (fun st => (st.res, st.st.ops, st.st.tr)) =
      [(some .timeout, 30000, 7000)] ∧
    (run ⟨true, true, true, true, true, true⟩ (milli false) [.sendAndRead (.num 3000) (some 1500)]
      [{}, {}, {}, {}, ⟨some .timeout, false⟩] s0).2.log.map (fun e => (e.site, e.region, e.st.tr)) =
      [(.pre, .none, 7000), (.write, .none, 7000), (.readUntilInput, .none, 7000), (.sendReturn, .none, 7000),
       (.gap, .gap, 1000)] := by decide

/-- the override really is in force inside the call: the sites of the witness run see
    timeout_ops 5 / 3 and timeout_transport 1 (= int(1.5)) / 4.5 / 2 -/
example :
    (run Shape.fixed (milli false) wOps wTape s0).2.log.map (fun e => (e.st.ops, e.st.tr)) =
      [(5000, 7000), (5000, 7000),
       (3000, 7000), (3000, 7000), (3000, 7000), (3000, 7000), (3000, 1000), (3000, 1000),
       (30000, 7000), (30000, 4500), (30000, 4500), (30000, 4500), (30000, 7000),
       (30000, 2000), (30000, 7000)] := by decide

end Scrapli.TimeoutRestore
