import ScrapliProps.C17Lemmas
/-
  C17 — the connection parameters in effect are the ones resolved and reported.
  Property theorems only (specification definitions and helper lemmas: C17Lemmas.lean).

  Quantifiers: every core transport, EVERY host / user / key / path string (`List Char`, unbounded),
  every port, every combination of the other arguments, every file-system / ssh-config view
  (`SshConfigView`: arbitrary `isFile`, `lookup`).  `fx : Fixes` says which fixes the code has:
  `Fixes.head` = /repo HEAD (commits caab241 / bf7e480 / 184466f), `Fixes.all` = HEAD + the PROPOSED
  fixes/C17-reject-destination-syntax.patch, `Fixes.none` = the tree before the commits (the `…_refuted` witnesses,
  kept as regression facts); the `…_partial` theorems hold for all 32 combinations with hypotheses that depend on
  the flags.  On HEAD: `reported_eq_dialed`, `argv_wellformed`, `files_resolved` hold outright; precedence only as
  `precedence_partial_fixed`, with two system-transport exclusions that are open findings, each with a
  machine-checked refutation: `-p 22` beats the config (`precedence_full_refuted`, F16b) and a host word ssh
  takes apart (`precedence_refuted_user_in_host`, `precedence_refuted_uri_in_host`, F16c).
-/
namespace Scrapli.Resolve
open Scrapli.Gen.Resolve

/-! ## the generated data is what the model and the property speak about -/

/-- the six modelled transports are exactly `CORE_TRANSPORTS`, and the asyncio ones are among them -/
theorem core_transports_are_modelled :
    Transport.all.map Transport.name = coreTransports ∧
    asyncioTransports = [Transport.asynctelnet.name, Transport.asyncssh.name] := by decide

/-- which transports are telnet (default port 23, no ssh files), which fold the ssh config in,
    which is the ssh command line one — computed from the regenerated tuples -/
theorem transport_roles (t : Transport) :
    (isTelnet t, consultsCfg t, isSystem t) =
      match t with
      | .telnet => (true, false, false) | .asynctelnet => (true, false, false)
      | .system => (false, false, true)
      | .ssh2 => (false, true, false) | .paramiko => (false, true, false) | .asyncssh => (false, true, false) :=
  transport_table t

/-- defaults of the constructor and the default ports of the property statement -/
theorem defaults_are_the_propertys :
    defaultPortSsh = 22 ∧ defaultPortTelnet = 23 ∧ defaultStrict = true ∧ defaultTransport = Transport.system.name ∧
    userCfgPath = "~/.ssh/config".toList ∧ sysCfgPath = "/etc/ssh/ssh_config".toList ∧
    userKhPath = "~/.ssh/known_hosts".toList ∧ sysKhPath = "/etc/ssh/ssh_known_hosts".toList ∧
    devNull = "/dev/null".toList := by decide

/-- every generated PluginTransportArgs field name is a driver attribute the model copies -/
theorem plugin_fields_all_known :
    pluginFields.map (fun e => (e.1, (e.2.filterMap Field.ofName).map Field.name)) = pluginFields ∧
    pluginFields.map (·.1) = coreTransports := by decide

/-- the literal words of `_build_open_cmd` are ssh options that take an argument -/
theorem option_words_take_arguments :
    optP = ['-', 'p'] ∧ optO = ['-', 'o'] ∧ optI = ['-', 'i'] ∧ optL = ['-', 'l'] ∧ optF = ['-', 'F'] ∧
    (['p', 'o', 'i', 'l', 'F'].all fun c => sshArgOpts.contains c) = true ∧ argvSsh = "ssh".toList := by decide

/-- `_update_ssh_args_from_ssh_config` on one row of the probed table: ssh config entry, explicit/omitted port
    (830 / 22), own user and key -/
def runUpdate (fx : Fixes) (i : Option Nat × Bool × Str × Str × Str × Str) : Nat × Nat × Str × Str :=
  let init := if i.2.1 then 830 else 22
  let v : SshConfigView := { home := [], isFile := fun _ => false,
                             lookup := fun _ => { port := i.1, user := i.2.2.1, identityFile := i.2.2.2.2.1 } }
  let d : Drv := { host := ['h'], port := init, user := i.2.2.2.1, password := [], key := i.2.2.2.2.2, passphrase := [],
                   strict := true, cfgFile := ['/', 'c'], khFile := [] }
  let b : BTA := { host := ['h'], port := init, tSocket := 0, tTransport := 0, extra := [] }
  let r := updateFromSshConfig fx i.2.1 v d b
  (r.1.port, r.2.port, r.1.user, r.1.key)

/-- the hand-written `updateFromSshConfig` IS the real method on all 64 truthy/falsy combinations of (config
    Port, port given, config User, auth_username, config IdentityFile, auth_private_key): the table is probed from the
    live code by the translator, the two variant flags are read off two of its rows, and the remaining 62 rows
    must then agree — a change of the precedence logic breaks this obligation, not only the differential -/
theorem update_table_is_model :
    ∀ row ∈ updateTable,
      runUpdate ⟨true, updCfgPortDialed, updExplicitPortWins, true, false⟩ row.1 = row.2 := by decide

/-! ## 1. reported = dialed -/

/-- **reported = dialed, all variants** (the host/port half is the content; the plugin-argument half restates that
    `construct` copies the attributes by field name AFTER the ssh config is folded in — the statement order is
    hand-written and tied by the differential, cf. mutation M1): host and port in `_base_transport_args` and every plugin argument of
    the transport equal the driver attributes, provided (only where the corresponding fix is absent) the
    host has no surrounding blanks and the reported ssh config file has no Port for the host other than
    the port the constructor started from. -/
theorem reported_eq_dialed_partial (fx : Fixes) (a : Args) (v : SshConfigView) (r : Resolved)
    (h : resolve fx a v = .ok r)
    (hHost : fx.stripDialedHost = false → strip a.host = a.host)
    (hPort : fx.cfgPortDialed = false → consultsCfg a.transport = true →
      ∀ q, (lookupCfg v r.reported.cfgFile).portTruthy = some q →
        q = initialPort a ∨ (fx.explicitPortWins = true ∧ a.port.isSome = true)) :
    ReportedEqDialed a.transport r := by
  obtain ⟨_, _, key, _, rfl⟩ := resolve_ok h
  obtain ⟨fh, fbh, fcfg, -, -, -, -, -, fport, fbport, -, -⟩ := folded_spec fx a v (strip a.host) key
  refine ⟨?_, ?_, ?_, ?_⟩
  · rw [construct_bta, construct_reported, fh, fbh]
    cases hs : fx.stripDialedHost
    · simp [hHost hs]
    · simp
  · rw [construct_bta, construct_reported, fport, fbport]
    cases hq : (foldedEntry a v).portTruthy with
    | none => rfl
    | some q =>
      by_cases he : fx.explicitPortWins = true ∧ a.port.isSome = true
      · simp [he]
      · cases hd : fx.cfgPortDialed
        · have hcc : consultsCfg a.transport = true := by
            by_cases hcc : consultsCfg a.transport = true
            · exact hcc
            · simp [foldedEntry, hcc, HostCfg.portTruthy] at hq
          have hq' : (lookupCfg v (construct fx a v (strip a.host) key).reported.cfgFile).portTruthy = some q := by
            rw [construct_reported, fcfg]
            simpa [foldedEntry, hcc] using hq
          rcases hPort hd hcc q hq' with h1 | h1
          · simp [he, h1]
          · exact absurd h1 he
        · simp [he]
  · rw [construct_plugin]
    exact map_fst_map _ _
  · intro f x hfx
    rw [construct_plugin] at hfx
    obtain ⟨g, _, hg⟩ := List.mem_map.mp hfx
    cases hg
    rfl

/-- **reported = dialed, after the fixes**: with the stripped host handed to BaseTransportArgs and the ssh
    config Port written through, it holds for every argument combination and every view. -/
theorem reported_eq_dialed (fx : Fixes) (hs : fx.stripDialedHost = true) (hp : fx.cfgPortDialed = true)
    (a : Args) (v : SshConfigView) (r : Resolved) (h : resolve fx a v = .ok r) :
    ReportedEqDialed a.transport r :=
  reported_eq_dialed_partial fx a v r h (by simp [hs]) (by simp [hp])

/-! witnesses on the pre-fix code (`Fixes.none`, /repo before caab241) -/

/-- nothing exists, no ssh config anywhere -/
def vEmpty : SshConfigView := { home := "/home/u".toList, isFile := fun _ => false, lookup := fun _ => {} }

/-- one ssh config file `/c` whose entry for the host says `Port 2222` -/
def vPort : SshConfigView :=
  { home := "/home/u".toList, isFile := fun p => p == "/c".toList,
    lookup := fun p => if p == "/c".toList then { port := some 2222 } else {} }

def aBlanks : Args := { transport := .telnet, host := " dev1 ".toList }
def aLibPort : Args := { transport := .paramiko, host := "dev1".toList, cfgArg := .path "/c".toList }
def aLibPort830 : Args := { aLibPort with transport := .asyncssh, port := some 830 }
def aSysPort : Args := { transport := .system, host := "dev1".toList, cfgArg := .path "/c".toList }
def aDash : Args := { transport := .system, host := "-l".toList }

def got (fx : Fixes) (a : Args) (v : SshConfigView) : Resolved :=
  match resolve fx a v with
  | .ok r => r
  | .error _ => Resolved.dummy

/-- pre-fix code, host `" dev1 "`: reported `dev1`, dialed `" dev1 "` — although no ssh config exists -/
theorem reported_eq_dialed_refuted_blanks :
    ¬ ∀ (a : Args) (v : SshConfigView) (r : Resolved), (∀ p, (v.lookup p).port = none) →
        resolve Fixes.none a v = .ok r → ReportedEqDialed a.transport r := by
  intro h
  have hr : resolve Fixes.none aBlanks vEmpty = .ok (got Fixes.none aBlanks vEmpty) :=
    ok_of_toOption _ _ (by decide)
  have := (h aBlanks vEmpty _ (fun _ => rfl) hr).1
  exact absurd this (by decide)

/-- pre-fix code, ssh config `Port 2222`: reported 2222, dialed 22 — although the host is clean -/
theorem reported_eq_dialed_refuted_port :
    ¬ ∀ (a : Args) (v : SshConfigView) (r : Resolved), strip a.host = a.host →
        resolve Fixes.none a v = .ok r → ReportedEqDialed a.transport r := by
  intro h
  have hr : resolve Fixes.none aLibPort vPort = .ok (got Fixes.none aLibPort vPort) :=
    ok_of_toOption _ _ (by decide)
  have := (h aLibPort vPort _ (by decide) hr).2.1
  exact absurd this (by decide)

/-- the same with an explicit port: 830 is dialed, 2222 reported -/
theorem reported_eq_dialed_refuted_explicit_port :
    (got Fixes.none aLibPort830 vPort).reported.port = 2222 ∧ (got Fixes.none aLibPort830 vPort).bta.port = 830 ∧
    resolve Fixes.none aLibPort830 vPort = .ok (got Fixes.none aLibPort830 vPort) :=
  ⟨by decide, by decide, ok_of_toOption _ _ (by decide)⟩

/-- **the full statement is false for the pre-fix code** -/
theorem reported_eq_dialed_full_refuted :
    ¬ ∀ (a : Args) (v : SshConfigView) (r : Resolved),
        resolve Fixes.none a v = .ok r → ReportedEqDialed a.transport r :=
  fun h => reported_eq_dialed_refuted_port (fun a v r _ hr => h a v r hr)

/-! ## 3. the ssh command line -/

/-- **argv well-formed, all variants**: for the system transport, OpenSSH's grammar reads the command line
    back as destination = the dialed host and exactly the options the reported parameters call for, each
    value a separate argument — for ALL strings in argument position (user `-oFoo`, paths with blanks …);
    the user's extra words are parsed after them and can only add options or a command.  Without the
    fix that refuses such hosts the host must not start with `-`. -/
theorem argv_wellformed_partial (fx : Fixes) (a : Args) (v : SshConfigView) (r : Resolved)
    (h : resolve fx a v = .ok r) (hsys : isSystem a.transport = true)
    (hDash : fx.rejectDashHost = false → (strip a.host).head? ≠ some '-') :
    parseSshArgv r.argv =
      match getopts none a.extra with
      | .error e => .error e
      | .ok g => .ok { dest := r.bta.host,
                       opts := specOpts r.reported r.bta.port a.tSocket a.tTransport ++ g.opts,
                       command := g.rest } := by
  obtain ⟨_, hrej, key, _, rfl⟩ := resolve_ok h
  obtain ⟨-, fbh, -, -, -, fts, ftt, fex, -, -, -, -⟩ := folded_spec fx a v (strip a.host) key
  have hnd : (strip a.host).head? ≠ some '-' := by
    cases hr : fx.rejectDashHost
    · exact hDash hr
    · exact hrej hr
  have hd : (folded fx a v (strip a.host) key).2.host.head? ≠ some '-' := by
    rw [fbh]
    split
    · exact hnd
    · intro hh; exact hnd (strip_head_dash _ hh)
  have ht := isSystem_eq _ hsys
  rw [construct_argv, hsys, if_pos rfl, parse_buildOpenCmd _ _ hd, fex, construct_bta, construct_reported]
  have hp := plugin_system (folded fx a v (strip a.host) key).1
  simp only [] at hp
  obtain ⟨h1, h2, h3, h4, h5⟩ := hp
  have hpl : (construct fx a v (strip a.host) key).plugin =
      (pluginFieldsOf .system).map fun f => (f, (folded fx a v (strip a.host) key).1.getattr f) := by
    rw [construct_plugin, ht]
  rw [hpl, pairs_eq_specOpts (folded fx a v (strip a.host) key).1 _ _ h1 h2 h3 h4 h5, fts, ftt]
  rfl

/-- **argv well-formed, after the fixes**, no extra words: destination = the reported host, port = the reported
    port, and nothing but the expected arguments; never host-as-option, for every host string the
    constructor accepts. -/
theorem argv_wellformed (fx : Fixes) (hs : fx.stripDialedHost = true) (hp : fx.cfgPortDialed = true)
    (hd : fx.rejectDashHost = true) (a : Args) (v : SshConfigView) (r : Resolved)
    (h : resolve fx a v = .ok r) (hsys : isSystem a.transport = true) (hx : a.extra = []) :
    parseSshArgv r.argv = .ok { dest := r.reported.host,
                                opts := specOpts r.reported r.reported.port a.tSocket a.tTransport,
                                command := [] } := by
  have h1 := argv_wellformed_partial fx a v r h hsys (by simp [hd])
  obtain ⟨e1, e2, -, -⟩ := reported_eq_dialed fx hs hp a v r h
  rw [h1, hx, e1, e2]
  simp [getopts]

/-- pre-fix code, host `-l`: ssh takes `-p` as the login name and `22` as the destination -/
theorem argv_wellformed_full_refuted :
    ¬ ∀ (a : Args) (v : SshConfigView) (r : Resolved), isSystem a.transport = true → a.extra = [] →
        resolve Fixes.none a v = .ok r → ∃ p, parseSshArgv r.argv = .ok p ∧ p.dest = r.reported.host := by
  intro h
  have hr : resolve Fixes.none aDash vEmpty = .ok (got Fixes.none aDash vEmpty) := ok_of_toOption _ _ (by decide)
  obtain ⟨p, hp, hd⟩ := h aDash vEmpty _ (by decide) rfl hr
  have hw : (parseSshArgv (got Fixes.none aDash vEmpty).argv).toOption =
      some { dest := "22".toList, opts := [('l', some "-p".toList), ('o', some "ConnectTimeout=15".toList),
             ('o', some "ServerAliveInterval=30".toList), ('o', some "StrictHostKeyChecking=yes".toList),
             ('F', some "/dev/null".toList)], command := [] } := by decide
  rw [hp] at hw
  simp [Except.toOption] at hw
  subst hw
  exact absurd hd (by decide)

/-- a word starting with `-` (other than `-` alone) in destination position is never the destination:
    whatever follows, ssh either rejects the command line or takes a *later* word as destination -/
theorem dash_word_is_never_destination (prog w : Str) (rest : List Str) (c : Char) (cs : Str)
    (hw : w = '-' :: c :: cs) (p : SshParse) (h : parseSshArgv (prog :: w :: rest) = .ok p) :
    p.dest ∈ rest := by
  subst hw
  exact dest_mem_of_dash prog c cs rest p h

/-! ## 2. precedence -/

/-- **precedence, all variants** (paths are taken as given: `str(Path(p))` normalisation — `./k`, `a//b`, trailing
    `/` — is outside the model, the check generates normalised paths only): explicit argument > ssh config (library ssh transports: folded in by
    scrapli; system transport: read by ssh from the file handed over with -F / its defaults) > 22 / 23,
    for port, user and key *in effect*, under exactly these exclusions:
    system transport with omitted port and a config Port ≠ 22 (open finding: `-p 22` is always passed);
    and, only where the ssh-config-port fix is absent, library transport with a config Port ≠ what the
    constructor started from. -/
theorem precedence_partial (fx : Fixes) (a : Args) (v : SshConfigView) (r : Resolved)
    (hwf : v.WF) (hx : a.extra = []) (h : resolve fx a v = .ok r)
    (hDash : fx.rejectDashHost = false → isSystem a.transport = true → (strip a.host).head? ≠ some '-')
    (hDest : isSystem a.transport = true → destPlain r.bta.host = true)
    (hSys : isSystem a.transport = true → a.port = none →
      ∀ q, (specCfgEntry a v).portTruthy = some q → q = 22)
    (hLib : consultsCfg a.transport = true → ∀ q, (specCfgEntry a v).portTruthy = some q →
      (a.port = none → fx.cfgPortDialed = false → q = 22) ∧
      (∀ p, a.port = some p → fx.cfgPortDialed = true → fx.explicitPortWins = false → p = q)) :
    PrecedenceHolds a v r := by
  obtain ⟨_, hrej, key, hkey, rfl⟩ := resolve_ok h
  have hk := key_spec hwf hkey
  rcases transport_kind a.transport with ⟨ht, hc, hs⟩ | ⟨ht, hc, hs⟩ | ⟨ht, hc, hs⟩
  · exact precedence_telnet fx a v key ht hc hs
  · exact precedence_lib fx a v key hwf ht hc hs hk (hLib hc)
  · have hnd : (strip a.host).head? ≠ some '-' := by
      cases hr : fx.rejectDashHost
      · exact hDash hr hs
      · exact hrej hr
    exact precedence_sys fx a v key hwf hx ht hc hs hnd (hDest hs) hk (hSys hs)

/-- the dialed host is the stripped host once the strip fix is in -/
theorem bta_host_stripped (fx : Fixes) (hs : fx.stripDialedHost = true) (a : Args) (v : SshConfigView) (r : Resolved)
    (h : resolve fx a v = .ok r) : r.bta.host = strip a.host := by
  obtain ⟨_, _, key, _, rfl⟩ := resolve_ok h
  obtain ⟨-, fbh, -⟩ := folded_spec fx a v (strip a.host) key
  rw [construct_bta, fbh]
  simp [hs]

/-- **precedence on the fixed code (/repo HEAD = `Fixes.head`, and with the proposed destination patch)**: two
    exclusions are left, both for the system transport: the always-passed `-p 22` (open finding F16b) and — unless
    `_setup_host` refuses such hosts (proposed patch) — a host word ssh takes apart (`user@host`, `ssh://…`,
    open finding F16c). -/
theorem precedence_partial_fixed (fx : Fixes) (hst : fx.stripDialedHost = true) (hp : fx.cfgPortDialed = true)
    (he : fx.explicitPortWins = true) (hd : fx.rejectDashHost = true) (a : Args) (v : SshConfigView) (r : Resolved)
    (hwf : v.WF) (hx : a.extra = []) (h : resolve fx a v = .ok r)
    (hDest : fx.rejectDestSyntax = false → isSystem a.transport = true → destPlain (strip a.host) = true)
    (hSys : isSystem a.transport = true → a.port = none →
      ∀ q, (specCfgEntry a v).portTruthy = some q → q = 22) :
    PrecedenceHolds a v r := by
  refine precedence_partial fx a v r hwf hx h (by simp [hd]) ?_ hSys (by simp [hp, he])
  intro hs
  rw [bta_host_stripped fx hst a v r h]
  cases hr : fx.rejectDestSyntax
  · exact hDest hr hs
  · exact resolve_ok_dest h hr

/-- **the full precedence statement is false for every variant** (open finding): system transport, config
    file with `Port 2222` handed to ssh with -F, port omitted — `-p 22` wins. -/
theorem precedence_full_refuted (fx : Fixes) :
    ¬ ∀ (a : Args) (v : SshConfigView) (r : Resolved), v.WF → a.extra = [] →
        (strip a.host).head? ≠ some '-' → resolve fx a v = .ok r → PrecedenceHolds a v r := by
  intro h
  have hr : resolve fx aSysPort vPort = .ok (got fx aSysPort vPort) :=
    ok_of_toOption _ _ (by rcases fx with ⟨_ | _, _ | _, _ | _, _ | _, _ | _⟩ <;> decide)
  obtain ⟨e, he, hp, -, -⟩ := h aSysPort vPort _ (by decide) rfl (by decide) hr
  have hw : ((effective aSysPort.transport (got fx aSysPort vPort) vPort).toOption.map (·.port)) = some "22".toList := by
    rcases fx with ⟨_ | _, _ | _, _ | _, _ | _, _ | _⟩ <;> decide
  rw [he] at hw
  simp [Except.toOption] at hw
  rw [hw] at hp
  exact absurd hp (by decide)

/-- pre-fix code, library transport: config `Port 2222`, port omitted — 22 is dialed -/
theorem precedence_refuted_library_unfixed :
    ¬ ∀ (a : Args) (v : SshConfigView) (r : Resolved), v.WF → a.extra = [] → isSystem a.transport = false →
        resolve Fixes.none a v = .ok r → PrecedenceHolds a v r := by
  intro h
  have hr : resolve Fixes.none aLibPort vPort = .ok (got Fixes.none aLibPort vPort) :=
    ok_of_toOption _ _ (by decide)
  obtain ⟨e, he, hp, -, -⟩ := h aLibPort vPort _ (by decide) rfl (by decide) hr
  have hw : ((effective aLibPort.transport (got Fixes.none aLibPort vPort) vPort).toOption.map (·.port)) = some "22".toList := by
    decide
  rw [he] at hw
  simp [Except.toOption] at hw
  rw [hw] at hp
  exact absurd hp (by decide)

def aUserInHost : Args := { transport := .system, host := "admin@dev1".toList, user := "bob".toList }
def aUriHost : Args := { transport := .system, host := "ssh://carl@dev1:2222".toList, user := "bob".toList, port := some 830 }

/-- **/repo HEAD, open finding F16c**: host `admin@dev1` with `auth_username="bob"`: ssh splits the destination at
    the `@` and, the destination standing before `-l bob`, logs in as `admin` — the explicit argument loses -/
theorem precedence_refuted_user_in_host :
    ¬ ∀ (a : Args) (v : SshConfigView) (r : Resolved), v.WF → a.extra = [] → (strip a.host).head? ≠ some '-' →
        resolve Fixes.head a v = .ok r → PrecedenceHolds a v r := by
  intro h
  have hr : resolve Fixes.head aUserInHost vEmpty = .ok (got Fixes.head aUserInHost vEmpty) :=
    ok_of_toOption _ _ (by decide)
  obtain ⟨e, he, -, hu, -⟩ := h aUserInHost vEmpty _ (by decide) rfl (by decide) hr
  have hw : ((effective aUserInHost.transport (got Fixes.head aUserInHost vEmpty) vEmpty).toOption.map (·.user)) =
      some "admin".toList := by decide
  rw [he] at hw
  simp [Except.toOption] at hw
  rw [hw] at hu
  exact absurd hu (by decide)

/-- **/repo HEAD, F16c**: host `ssh://carl@dev1:2222` with `port=830`: ssh dials port 2222 (and logs in as `carl`) -/
theorem precedence_refuted_uri_in_host :
    ¬ ∀ (a : Args) (v : SshConfigView) (r : Resolved), v.WF → a.extra = [] → (strip a.host).head? ≠ some '-' →
        resolve Fixes.head a v = .ok r → PrecedenceHolds a v r := by
  intro h
  have hr : resolve Fixes.head aUriHost vEmpty = .ok (got Fixes.head aUriHost vEmpty) :=
    ok_of_toOption _ _ (by decide)
  obtain ⟨e, he, hp, -, -⟩ := h aUriHost vEmpty _ (by decide) rfl (by decide) hr
  have hw : ((effective aUriHost.transport (got Fixes.head aUriHost vEmpty) vEmpty).toOption.map (·.port)) =
      some "2222".toList := by decide
  rw [he] at hw
  simp [Except.toOption] at hw
  rw [hw] at hp
  exact absurd hp (by decide)

def errOf {α : Type} : Except Err α → Option Err
  | .error e => some e
  | .ok _ => none

/-- with the proposed patch both hosts are refused by the constructor -/
theorem destination_syntax_refused_when_patched :
    errOf (resolve Fixes.all aUserInHost vEmpty) = some .destSyntaxHost ∧
    errOf (resolve Fixes.all aUriHost vEmpty) = some .destSyntaxHost ∧
    destPlain aUserInHost.host = false ∧ destPlain aUriHost.host = false := by decide

/-! ## 2b. the reported file names -/

/-- **the reported ssh config file and known-hosts file follow the documented resolution** (all variants):
    telnet or `False` → none; `True`/`""` on the system transport → the marker (ssh uses its own files); else the
    given path if it exists, else `~/.ssh/config` (`~/.ssh/known_hosts`), else `/etc/ssh/ssh_config`
    (`/etc/ssh/ssh_known_hosts`), else none.  Together with `reported_eq_dialed` / `argv_wellformed` these are the
    files the transports use (`-F`, `-o UserKnownHostsFile=`, plugin args). -/
theorem files_resolved (fx : Fixes) (a : Args) (v : SshConfigView) (r : Resolved) (h : resolve fx a v = .ok r) :
    r.reported.cfgFile = specFile v a.transport a.cfgArg magicCfg userCfgPath sysCfgPath ∧
    r.reported.khFile = specFile v a.transport a.khArg magicKh userKhPath sysKhPath := by
  obtain ⟨_, _, key, _, rfl⟩ := resolve_ok h
  obtain ⟨-, -, fcfg, fkh, -⟩ := folded_spec fx a v (strip a.host) key
  rw [construct_reported, fcfg, fkh, setupSshFileArgs_spec]
  exact ⟨rfl, rfl⟩

/-! ## 4. several drivers in one process: resolution is a function of the driver's own arguments -/

/-- **history independence — an invariant of the MODEL's cache discipline** (true by construction of `step`, which
    only ever stores `v.lookup file` and never writes into an entry; that the real constructor follows this
    discipline is established by the history differential of the check and by the translator's probe, which
    raises if `_update_ssh_args_from_ssh_config` changes the entry object it is handed).  Statement: in a process
    whose cache of parsed ssh configs is consistent with the files
    (in particular the empty cache of a fresh process), every construction of a history — any length, any
    mix of transports, hosts, explicit and omitted arguments — returns exactly what it returns in
    isolation.  (The invariant behind it: entries handed out by the cache are only read.) -/
theorem resolve_is_stateless (fx : Fixes) (W : Str → Str → HostCfg) (hist : List (Args × SshConfigView))
    (c : Cache) (hc : c.Consistent W) (hh : ∀ s ∈ hist, Coherent W s.1 s.2) :
    runHistory fx c hist = hist.map (fun s => resolve fx s.1 s.2) := by
  induction hist generalizing c with
  | nil => rfl
  | cons s rest ih =>
    obtain ⟨a, v⟩ := s
    have hv : Coherent W a v := hh (a, v) (by simp)
    simp only [runHistory, List.map_cons]
    rw [step_result fx W c a v hc hv,
        ih _ (step_consistent fx W c a v hc hv) (fun s hs => hh s (by simp [hs]))]

/-- … hence the order of construction does not matter: permuting the history permutes the results -/
theorem history_order_independent (fx : Fixes) (W : Str → Str → HostCfg) (h1 h2 : List (Args × SshConfigView))
    (hp : h1.Perm h2) (hh : ∀ s ∈ h1, Coherent W s.1 s.2) :
    (runHistory fx [] h1).Perm (runHistory fx [] h2) := by
  have hc : Cache.Consistent W [] := by intro p h e hg; simp [Cache.get] at hg
  rw [resolve_is_stateless fx W h1 [] hc hh,
      resolve_is_stateless fx W h2 [] hc (fun s hs => hh s (hp.mem_iff.mpr hs))]
  exact hp.map _

/-- not a triviality: a constructor that writes its explicit port into the entry object it was handed makes
    the second driver (port omitted) report the first driver's 830 instead of the file's 2222 -/
theorem leaky_constructor_is_not_stateless :
    ((runLeaky Fixes.all [] [(aLibPort830, vPort), (aLibPort, vPort)]).map
        fun r => r.toOption.map (·.reported.port)) = [some 830, some 830] ∧
    ((runHistory Fixes.all [] [(aLibPort830, vPort), (aLibPort, vPort)]).map
        fun r => r.toOption.map (·.reported.port)) = [some 830, some 2222] := by decide

/-! ## non-vacuity: concrete non-trivial values inside the quantifiers -/

/-- fixed code: paramiko, host with blanks, key from `~`, user and Port from the ssh config -/
def aEx : Args := { transport := .paramiko, host := " Dev1.example.com\n".toList, key := "~/.ssh/id".toList,
                    cfgArg := .auto, khArg := .path "/kh".toList, strict := true }
def vEx : SshConfigView :=
  { home := "/home/u".toList,
    isFile := fun p => p == "/home/u/.ssh/id".toList || p == "/home/u/.ssh/config".toList,
    lookup := fun p => if p == "/home/u/.ssh/config".toList then { port := some 2222, user := "carl".toList } else {} }

example : vEx.WF ∧ ∃ r, resolve Fixes.all aEx vEx = .ok r ∧
    r.reported.host = "Dev1.example.com".toList ∧ r.bta.host = "Dev1.example.com".toList ∧
    r.reported.port = 2222 ∧ r.bta.port = 2222 ∧ r.reported.user = "carl".toList ∧
    r.plugin.str .auth_private_key = "/home/u/.ssh/id".toList ∧ r.reported.cfgFile = "/home/u/.ssh/config".toList :=
  ⟨by decide, got Fixes.all aEx vEx, ok_of_toOption _ _ (by decide), by decide, by decide, by decide, by decide,
   by decide, by decide, by decide⟩

/-- … and on it the specification is not trivial (config Port, config User, `~` key), and what the model
    says is in effect is what the specification names (hypotheses of `precedence` are met) -/
example : aEx.extra = [] ∧ (specCfgEntry aEx vEx).portTruthy = some 2222 ∧ specPort aEx vEx = 2222 ∧
    specUser aEx vEx = "carl".toList ∧ specKey aEx vEx = "/home/u/.ssh/id".toList ∧
    (effective aEx.transport (got Fixes.all aEx vEx) vEx).toOption =
      some { host := "Dev1.example.com".toList, port := "2222".toList, user := "carl".toList,
             key := "/home/u/.ssh/id".toList } := by decide

/-- system transport, everything given, user starting with `-`: hypotheses of `argv_wellformed` are met -/
def aExSys : Args := { transport := .system, host := "dev1".toList, port := some 830, user := "-oFoo".toList,
                       key := "/k y".toList, strict := true, cfgArg := .path "/c".toList, khArg := .path "/kh".toList }
def vExSys : SshConfigView :=
  { home := "/home/u".toList, isFile := fun p => p == "/k y".toList || p == "/c".toList || p == "/kh".toList,
    lookup := fun p => if p == "/c".toList then { port := some 2222, user := "carl".toList } else {} }

example : isSystem aExSys.transport = true ∧ aExSys.extra = [] ∧ destPlain aExSys.host = true ∧
    (resolve Fixes.all aExSys vExSys).toOption.map (·.argv) =
      some (["ssh", "dev1", "-p", "830", "-o", "ConnectTimeout=15", "-o", "ServerAliveInterval=30", "-i", "/k y",
             "-l", "-oFoo", "-o", "StrictHostKeyChecking=yes", "-o", "UserKnownHostsFile=/kh", "-F", "/c"].map String.toList) := by
  decide

/-- system transport with an explicit port and a config Port: inside `precedence` (its exclusion speaks only
    about an omitted port); ssh's view of the command line gives 830, user `-oFoo`, the given key -/
example : vExSys.WF ∧ aExSys.port ≠ none ∧ specPort aExSys vExSys = 830 ∧
    (effective aExSys.transport (got Fixes.all aExSys vExSys) vExSys).toOption =
      some { host := "dev1".toList, port := "830".toList, user := "-oFoo".toList, key := "/k y".toList } := by decide

/-- the refutation witnesses are inside the quantifier of the partial theorems' *negated* hypotheses only -/
example : strip aBlanks.host ≠ aBlanks.host ∧ (lookupCfg vPort "/c".toList).portTruthy = some 2222 ∧
    (strip aDash.host).head? = some '-' ∧ vPort.WF := by decide

end Scrapli.Resolve
