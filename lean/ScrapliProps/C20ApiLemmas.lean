import ScrapliProps.C20Lemmas
import ScrapliModel.LogApi
/-
  C20 — lemmas for (1) ill-formed records through the buffering handler and (2) histories of the
  logging API (ScrapliModel/LogApi.lean).  Specifications first, then the proofs.
-/
namespace Scrapli.Log
open Scrapli Scrapli.Gen.Log

/-! ## Handlers only ever append to their output -/

def core (h : HSt) : HSt := { h with out := [] }

theorem baseEmit_frame (v : Variant) (cfg : FmtCfg) (h : HSt) (r : Rec) :
    baseEmit v cfg h r = { baseEmit v cfg (core h) r with out := h.out ++ (baseEmit v cfg (core h) r).out } := by
  unfold baseEmit core
  cases hf : format v cfg h.nextId r with
  | error e => simp
  | ok s => by_cases ha : (v.asciiStream && !isAsciiStr s) = true <;> simp [ha]

theorem emitBuffered_frame (v : Variant) (cfg : FmtCfg) (h : HSt) :
    emitBuffered v cfg h = { emitBuffered v cfg (core h) with out := h.out ++ (emitBuffered v cfg (core h)).out } := by
  obtain ⟨buf, mb, id, out⟩ := h
  cases buf with
  | none => simp [emitBuffered, core]
  | some b =>
    simp only [emitBuffered, core]
    rw [baseEmit_frame]
    simp [core]

theorem emit_frame (v : Variant) (cfg : FmtCfg) (h : HSt) (r : Rec) :
    emit v cfg h r = { emit v cfg (core h) r with out := h.out ++ (emit v cfg (core h) r).out } := by
  obtain ⟨buf, mb, id, out⟩ := h
  unfold emit
  by_cases hr : isRead r = true
  · simp only [hr, Bool.not_true, Bool.false_eq_true, ↓reduceIte, core]
    cases payload v r with
    | error e => simp
    | ok p => cases buf <;> simp
  · have hr' : isRead r = false := by simpa using hr
    simp only [hr', Bool.not_false, ↓reduceIte, core]
    cases buf with
    | none =>
      simp only [Option.isSome_none, Bool.false_eq_true, ↓reduceIte]
      rw [baseEmit_frame]; simp [core]
    | some b =>
      simp only [Option.isSome_some, ↓reduceIte]
      rw [baseEmit_frame, emitBuffered_frame]
      conv => rhs; rw [baseEmit_frame]
      simp [core, List.append_assoc]

theorem close_frame (v : Variant) (cfg : FmtCfg) (h : HSt) :
    close v cfg h = { close v cfg (core h) with out := h.out ++ (close v cfg (core h)).out } := by
  obtain ⟨buf, mb, id, out⟩ := h
  unfold close
  by_cases hc : (v.flushOnClose && buf.isSome) = true
  · simp only [core, hc, ↓reduceIte]
    rw [emitBuffered_frame]; simp [core]
  · simp [core, hc]

/-! ## Ill-formed records through the buffering handler: specification

  A record is ill formed when `msg % args` raises (arity mismatch, args without a directive, an
  incomplete directive).  What the (fixed) buffering handler does with ANY sequence, written by cutting
  the sequence into maximal runs of read records — no handler state:
  * an ill-formed READ record costs one logging error at the moment it is logged and is otherwise
    invisible: it neither ends the run nor contributes to it;
  * the well-formed members of a run become ONE line (columns of the first well-formed member, payload =
    concatenation of their payloads), written when the run ends; a run without a well-formed member
    writes nothing and uses no message id;
  * an ill-formed non-read record ends the run before it like any other non-read record, costs one
    logging error, writes nothing and uses no message id. -/

/-- the logging error a record causes when it is rendered (none for a well-formed record) -/
def errOf (r : Rec) : List Ev :=
  match getMessage r with
  | .ok _ => []
  | .error e => [.error e]

def specEvs (cfg : FmtCfg) : Nat → List Rec → List Ev
  | _, [] => []
  | id, r :: rs =>
    if isRead r then
      match (r :: rs.takeWhile isRead).filter Rec.wfb with
      | [] => (r :: rs.takeWhile isRead).flatMap errOf ++ specEvs cfg id (rs.dropWhile isRead)
      | g :: gs =>
        (r :: rs.takeWhile isRead).flatMap errOf ++
          .line (specFormat cfg id g (Entry.text ⟨g, .reads ((g :: gs).flatMap payloadText)⟩)) ::
          specEvs cfg (id + 1) (rs.dropWhile isRead)
    else if r.wfb then .line (specFormat cfg id r (message r)) :: specEvs cfg (id + 1) rs
    else errOf r ++ specEvs cfg id rs
termination_by _ l => l.length
decreasing_by
  all_goals
    first
    | (have := (List.dropWhile_sublist isRead : List.Sublist (rs.dropWhile isRead) rs).length_le
       simp only [List.length_cons]; omega)
    | simp

def linesOf (evs : List Ev) : List Str :=
  evs.filterMap fun
    | .line s => some s
    | .error _ => none

/-! ## Ill-formed records: proofs -/

theorem errOf_wfb {r : Rec} (h : r.wfb = true) : errOf r = [] := by
  unfold errOf; unfold Rec.wfb at h
  cases hg : getMessage r <;> simp_all

theorem emit_read_bad (cfg : FmtCfg) (h : HSt) (r : Rec) (hr : isRead r = true) (hw : r.wfb = false) :
    emit Variant.fixed cfg h r = { h with out := h.out ++ errOf r } := by
  unfold Rec.wfb at hw
  unfold emit payload errOf
  cases hg : getMessage r with
  | ok m => simp [hg] at hw
  | error e => simp [hr, Variant.fixed, Except.map]

theorem emit_read_good (cfg : FmtCfg) (h : HSt) (r : Rec) (hr : isRead r = true) (hw : r.wfb = true) :
    emit Variant.fixed cfg h r =
      match h.buf with
      | none => { h with buf := some r, msgBuf := encode (payloadText r) }
      | some _ => { h with msgBuf := h.msgBuf ++ encode (payloadText r) } := by
  have hok : RecOK Variant.fixed r := ⟨(wf_iff_wfb r).mpr hw, Or.inl rfl, Or.inl rfl, rfl⟩
  unfold emit
  simp only [hr, Bool.not_true, Bool.false_eq_true, ↓reduceIte, payload_ok _ r hok hr]
  cases h.buf <;> rfl

theorem foldl_reads_some (cfg : FmtCfg) (run : List Rec) (hrun : ∀ r ∈ run, isRead r = true) :
    ∀ (h : HSt) (b : Rec), h.buf = some b →
      run.foldl (emit Variant.fixed cfg) h =
        { h with msgBuf := h.msgBuf ++ encode ((run.filter Rec.wfb).flatMap payloadText),
                 out := h.out ++ run.flatMap errOf } := by
  induction run with
  | nil => intro h b _; simp [encode]
  | cons r run ih =>
    intro h b hb
    have hr := hrun r (by simp)
    have ih' := ih (fun x hx => hrun x (by simp [hx]))
    rw [List.foldl_cons]
    cases hw : r.wfb
    · rw [emit_read_bad cfg h r hr hw, ih' { h with out := h.out ++ errOf r } b hb]
      simp [hw, List.append_assoc]
    · rw [emit_read_good cfg h r hr hw]
      simp only [hb]
      rw [ih' ⟨some b, h.msgBuf ++ encode (payloadText r), h.nextId, h.out⟩ b rfl]
      simp [hw, errOf_wfb hw, encode_append, List.append_assoc]

theorem foldl_reads_none (cfg : FmtCfg) (run : List Rec) (hrun : ∀ r ∈ run, isRead r = true) :
    ∀ h : HSt, h.buf = none →
      run.foldl (emit Variant.fixed cfg) h =
        match run.filter Rec.wfb with
        | [] => { h with out := h.out ++ run.flatMap errOf }
        | g :: gs => { h with buf := some g, msgBuf := encode ((g :: gs).flatMap payloadText),
                              out := h.out ++ run.flatMap errOf } := by
  induction run with
  | nil => intro h _; simp
  | cons r run ih =>
    intro h hb
    have hr := hrun r (by simp)
    have hrun' : ∀ x ∈ run, isRead x = true := fun x hx => hrun x (by simp [hx])
    rw [List.foldl_cons]
    cases hw : r.wfb
    · rw [emit_read_bad cfg h r hr hw, ih hrun' { h with out := h.out ++ errOf r } hb]
      simp only [List.filter_cons, hw, Bool.false_eq_true, ↓reduceIte]
      cases run.filter Rec.wfb <;> simp [List.append_assoc]
    · rw [emit_read_good cfg h r hr hw]
      simp only [hb]
      rw [foldl_reads_some cfg run hrun' _ r rfl]
      simp [hw, errOf_wfb hw, encode_append]

/-- refinement for ANY record sequence, from any state with an empty buffer -/
theorem runFrom_specEvs (cfg : FmtCfg) (id : Nat) (recs : List Rec) :
    ∀ h : HSt, h.buf = none → h.nextId = id →
      runFrom Variant.fixed cfg h recs = h.out ++ specEvs cfg id recs := by
  fun_induction specEvs cfg id recs with
  | case1 => intro h hb _; simp [runFrom, close, hb]
  | case2 id r rs hr hgood ih =>
    intro h hb hid
    have hrun : ∀ x ∈ r :: rs.takeWhile isRead, isRead x = true := by
      intro x hx
      rcases List.mem_cons.mp hx with rfl | hx
      · exact hr
      · exact mem_takeWhile_true hx
    have hfold : (r :: rs).foldl (emit Variant.fixed cfg) h =
        (rs.dropWhile isRead).foldl (emit Variant.fixed cfg) ((r :: rs.takeWhile isRead).foldl (emit Variant.fixed cfg) h) := by
      conv => lhs; rw [← List.takeWhile_append_dropWhile (p := isRead) (l := rs)]
      rw [← List.cons_append, List.foldl_append]
    have hst := foldl_reads_none cfg _ hrun h hb
    rw [hgood] at hst
    unfold runFrom
    rw [hfold, hst]
    have := ih { h with out := h.out ++ (r :: rs.takeWhile isRead).flatMap errOf } hb hid
    unfold runFrom at this
    rw [this]
    simp [List.append_assoc]
  | case3 id r rs hr g gs hgood ih =>
    intro h hb hid
    have hrun : ∀ x ∈ r :: rs.takeWhile isRead, isRead x = true := by
      intro x hx
      rcases List.mem_cons.mp hx with rfl | hx
      · exact hr
      · exact mem_takeWhile_true hx
    have hfold : (r :: rs).foldl (emit Variant.fixed cfg) h =
        (rs.dropWhile isRead).foldl (emit Variant.fixed cfg) ((r :: rs.takeWhile isRead).foldl (emit Variant.fixed cfg) h) := by
      conv => lhs; rw [← List.takeWhile_append_dropWhile (p := isRead) (l := rs)]
      rw [← List.cons_append, List.foldl_append]
    have hst := foldl_reads_none cfg _ hrun h hb
    rw [hgood] at hst
    obtain ⟨pend, hst, hpb, hpid, hpout, hpmb⟩ : ∃ p : HSt,
        (r :: rs.takeWhile isRead).foldl (emit Variant.fixed cfg) h = p ∧ p.buf = some g ∧ p.nextId = id ∧
        p.out = h.out ++ (r :: rs.takeWhile isRead).flatMap errOf ∧
        p.msgBuf = encode ((g :: gs).flatMap payloadText) := ⟨_, hst, rfl, hid, rfl, rfl⟩
    have hflushed := emitBuffered_ok Variant.fixed cfg pend g hpb (Or.inl rfl) (Or.inl rfl) rfl
    unfold runFrom
    rw [hfold, hst]
    cases hd : rs.dropWhile isRead with
    | nil =>
      simp only [List.foldl_nil, close, Variant.fixed, hpb, Option.isSome_some, Bool.and_self, ↓reduceIte]
      have hf' := hflushed
      simp only [Variant.fixed] at hf'
      rw [hf', hpid, hpout, hpmb]
      simp [specEvs, Entry.text, bufferedHead, List.append_assoc]
    | cons x t =>
      have hx : isRead x = false := head_dropWhile_isRead rs x t hd
      rw [hd] at ih
      have hemit : emit Variant.fixed cfg pend x = emit Variant.fixed cfg (emitBuffered Variant.fixed cfg pend) x := by
        have hnone : (emitBuffered Variant.fixed cfg pend).buf = none := by rw [hflushed]
        have hsome : pend.buf.isSome = true := by rw [hpb]; rfl
        simp only [emit, hx, Bool.not_false, ↓reduceIte, hsome, hnone, Option.isSome_none, Bool.false_eq_true]
      rw [List.foldl_cons, hemit, ← List.foldl_cons]
      have := ih (emitBuffered Variant.fixed cfg pend) (by rw [hflushed]) (by rw [hflushed, hpid])
      unfold runFrom at this
      rw [this, hflushed, hpid, hpout, hpmb]
      simp [Entry.text, bufferedHead, List.append_assoc]
  | case4 id r rs hr hw ih =>
    intro h hb hid
    have hr' : isRead r = false := by simpa using hr
    have h1 : emit Variant.fixed cfg h r = baseEmit Variant.fixed cfg h r := by
      unfold emit
      simp [hr', hb]
    unfold runFrom
    rw [List.foldl_cons, h1, baseEmit_ok Variant.fixed cfg h r ((wf_iff_wfb r).mpr hw) (Or.inl rfl) rfl]
    have := ih { h with nextId := h.nextId + 1,
                        out := h.out ++ [.line (specFormat cfg h.nextId r (message r))] } hb (by simp [hid])
    unfold runFrom at this
    rw [this, hid]
    simp
  | case5 id r rs hr hw ih =>
    intro h hb hid
    have hr' : isRead r = false := by simpa using hr
    have hw' : r.wfb = false := by simpa using hw
    have h1 : emit Variant.fixed cfg h r = { h with out := h.out ++ errOf r } := by
      unfold Rec.wfb at hw'
      unfold emit baseEmit format errOf
      cases hg : getMessage r with
      | ok m => simp [hg] at hw'
      | error e => simp [hr', hb, bind, Except.bind]
    unfold runFrom
    rw [List.foldl_cons, h1]
    have := ih { h with out := h.out ++ errOf r } hb hid
    unfold runFrom at this
    rw [this]
    simp [List.append_assoc]

theorem errorCount_errOf (r : Rec) : errorCount (errOf r) = if r.wfb then 0 else 1 := by
  unfold errOf Rec.wfb
  cases getMessage r <;> simp [errorCount]

theorem errorCount_flatMap_errOf (l : List Rec) :
    errorCount (l.flatMap errOf) = (l.filter fun r => !r.wfb).length := by
  induction l with
  | nil => rfl
  | cons a l ih =>
    rw [List.flatMap_cons, errorCount_append, ih, errorCount_errOf, List.filter_cons]
    cases a.wfb <;> simp <;> omega

theorem errorCount_specEvs (cfg : FmtCfg) (id : Nat) (recs : List Rec) :
    errorCount (specEvs cfg id recs) = (recs.filter fun r => !r.wfb).length := by
  fun_induction specEvs cfg id recs with
  | case1 => rfl
  | case2 id r rs hr hgood ih =>
    rw [errorCount_append, ih, errorCount_flatMap_errOf]
    conv => rhs; rw [← List.takeWhile_append_dropWhile (p := isRead) (l := rs), ← List.cons_append, List.filter_append]
    simp
  | case3 id r rs hr g gs hgood ih =>
    rw [errorCount_append, errorCount_flatMap_errOf]
    have : errorCount (Ev.line (specFormat cfg id g (Entry.text ⟨g, .reads ((g :: gs).flatMap payloadText)⟩)) ::
        specEvs cfg (id + 1) (rs.dropWhile isRead)) = errorCount (specEvs cfg (id + 1) (rs.dropWhile isRead)) := by
      simp [errorCount]
    rw [this, ih]
    conv => rhs; rw [← List.takeWhile_append_dropWhile (p := isRead) (l := rs), ← List.cons_append, List.filter_append]
    simp
  | case4 id r rs hr hw ih =>
    have : errorCount (Ev.line (specFormat cfg id r (message r)) :: specEvs cfg (id + 1) rs)
        = errorCount (specEvs cfg (id + 1) rs) := by simp [errorCount]
    rw [this, ih]
    simp [hw]
  | case5 id r rs hr hw ih =>
    have hw' : r.wfb = false := by simpa using hw
    rw [errorCount_append, ih, errorCount_errOf]
    simp [hw']
    omega

/-! ## API histories: specification -/

/-- the records that reach the handlers of the `scrapli` logger: those that pass the level in force
    when they are logged (the level is set by the latest `enable_basic_logging` call) -/
def delivered : Nat → List ApiOp → List Rec
  | _, [] => []
  | lvl, .emit r n :: t => if lvl ≤ n then r :: delivered lvl t else delivered lvl t
  | _, .enable a :: t => delivered a.level t

/-- the call installs a handler on path `f` -/
def configures (f : Nat) : ApiOp → Bool
  | .enable a => a.file == some f && (basicLoggingMode a.mode).toOption.isSome
  | .emit _ _ => false

def onFile (f : Nat) (hd : Hd) : Bool := hd.file == f

/-- a handler fed a list of records -/
def feed (v : Variant) (recs : List Rec) (hd : Hd) : Hd := recs.foldl (fun hd r => hdEmit v r hd) hd

/-! ## API histories: proofs -/

theorem fileText_append (a b : List Ev) : fileText (a ++ b) = fileText a ++ fileText b := by
  simp [fileText]

/-- a transition of a handler that keeps its file and only appends to its output -/
def Grows (step : Hd → Hd) : Prop :=
  ∀ hd, (step hd).file = hd.file ∧ ∃ X, (step hd).st.out = hd.st.out ++ X

theorem grows_written {step : Hd → Hd} (hg : Grows step) (hd : Hd) :
    fileText hd.st.out ++ written hd.st (step hd).st = fileText (step hd).st.out := by
  obtain ⟨_, X, hX⟩ := hg hd
  unfold written
  rw [hX, List.drop_left, fileText_append]

theorem hdEmit_grows (v : Variant) (r : Rec) : Grows (hdEmit v r) := by
  intro hd
  refine ⟨rfl, ?_⟩
  unfold hdEmit
  cases hd.buffered
  · exact ⟨_, by simp only [Bool.false_eq_true, ↓reduceIte]; rw [baseEmit_frame]⟩
  · exact ⟨_, by simp only [↓reduceIte]; rw [emit_frame]⟩

theorem hdClose_grows (v : Variant) : Grows (hdClose v) := by
  intro hd
  refine ⟨rfl, ?_⟩
  unfold hdClose
  cases hd.buffered
  · exact ⟨[], by simp⟩
  · exact ⟨_, by simp only [↓reduceIte]; rw [close_frame]⟩

theorem writeAll_at (step : Hd → Hd) (f : Nat) (hs : List Hd) :
    ∀ files : Nat → Str, writeAll step hs files f =
      files f ++ (hs.filter (onFile f)).flatMap fun hd => written hd.st (step hd).st := by
  induction hs with
  | nil => intro files; simp [writeAll]
  | cons hd hs ih =>
    intro files
    unfold writeAll at ih ⊢
    rw [List.foldl_cons, ih]
    by_cases hf : hd.file = f
    · simp [appendFile, onFile, hf]
    · have hf' : ¬ f = hd.file := fun h => hf h.symm
      simp [appendFile, onFile, hf, hf']

theorem filter_map_step {step : Hd → Hd} (hg : Grows step) (f : Nat) (hs : List Hd) :
    (hs.map step).filter (onFile f) = (hs.filter (onFile f)).map step := by
  induction hs with
  | nil => rfl
  | cons hd hs ih =>
    have : onFile f (step hd) = onFile f hd := by simp [onFile, (hg hd).1]
    simp [List.filter_cons, this, ih]
    split <;> simp

/-- one step of all handlers, seen from a path that has exactly one handler -/
theorem step_all_single {step : Hd → Hd} (hg : Grows step) (f : Nat) (hs order : List Hd) (files : Nat → Str)
    (hd : Hd) (base : Str) (hone : hs.filter (onFile f) = [hd]) (hord : order.filter (onFile f) = [hd])
    (hfile : files f = base ++ fileText hd.st.out) :
    (hs.map step).filter (onFile f) = [step hd] ∧
    writeAll step order files f = base ++ fileText (step hd).st.out := by
  refine ⟨by rw [filter_map_step hg, hone]; rfl, ?_⟩
  rw [writeAll_at, hord, hfile]
  simp [List.append_assoc, grows_written hg]

/-- seen from a path without a handler nothing happens -/
theorem step_all_none {step : Hd → Hd} (hg : Grows step) (f : Nat) (hs order : List Hd) (files : Nat → Str)
    (hnone : hs.filter (onFile f) = []) (hord : order.filter (onFile f) = []) :
    (hs.map step).filter (onFile f) = [] ∧ writeAll step order files f = files f := by
  refine ⟨by rw [filter_map_step hg, hnone]; rfl, ?_⟩
  rw [writeAll_at, hord]
  simp

theorem apiStep_other (v : Variant) (f : Nat) (s : Api) (a : EnableArgs) (hc : configures f (.enable a) = false) :
    (apiStep v s (.enable a)).handlers.filter (onFile f) = s.handlers.filter (onFile f) ∧
    (apiStep v s (.enable a)).files f = s.files f ∧ (apiStep v s (.enable a)).level = a.level := by
  cases hm : basicLoggingMode a.mode with
  | error e => simp [apiStep, hm]
  | ok m =>
    cases hfile : a.file with
    | none => simp [apiStep, hm, hfile]
    | some g =>
      have hne : g ≠ f := by
        intro h
        simp [configures, hm, hfile, h, Except.toOption] at hc
      have hne' : ¬ f = g := fun h => hne h.symm
      refine ⟨by simp [apiStep, hm, hfile, List.filter_append, onFile, hne], ?_, by simp [apiStep, hm, hfile]⟩
      by_cases ha : (m == ['a']) = true
      · simp [apiStep, hm, hfile, ha]
      · simp [apiStep, hm, hfile, ha, truncateFile, hne']

/-- the fold over a history, seen from a path with exactly one handler that no later call touches -/
theorem foldl_apiStep_single (v : Variant) (f : Nat) (base : Str) (post : List ApiOp) :
    ∀ (s : Api) (hd : Hd), s.handlers.filter (onFile f) = [hd] → s.files f = base ++ fileText hd.st.out →
      (∀ op ∈ post, configures f op = false) →
      ((post.foldl (apiStep v) s).handlers.filter (onFile f) = [feed v (delivered s.level post) hd] ∧
       (post.foldl (apiStep v) s).files f = base ++ fileText (feed v (delivered s.level post) hd).st.out) := by
  induction post with
  | nil => intro s hd h1 h2 _; exact ⟨by simpa [feed, delivered] using h1, by simpa [feed, delivered] using h2⟩
  | cons op post ih =>
    intro s hd h1 h2 hc
    have hc' : ∀ op ∈ post, configures f op = false := fun o ho => hc o (by simp [ho])
    rw [List.foldl_cons]
    cases op with
    | emit r n =>
      by_cases hl : s.level ≤ n
      · have hst := step_all_single (hdEmit_grows v r) f s.handlers s.handlers s.files hd base h1 h1 h2
        have := ih { s with handlers := s.handlers.map (hdEmit v r), files := writeAll (hdEmit v r) s.handlers s.files }
          (hdEmit v r hd) hst.1 hst.2 hc'
        simpa [apiStep, hl, delivered, feed] using this
      · have := ih s hd h1 h2 hc'
        simpa [apiStep, hl, delivered] using this
    | enable a =>
      obtain ⟨e1, e2, e3⟩ := apiStep_other v f s a (hc _ (by simp))
      have := ih (apiStep v s (.enable a)) hd (by rw [e1, h1]) (by rw [e2, h2]) hc'
      rw [e3] at this
      simpa [delivered] using this

theorem foldl_apiStep_none (v : Variant) (f : Nat) (pre : List ApiOp) :
    ∀ s : Api, s.handlers.filter (onFile f) = [] → (∀ op ∈ pre, configures f op = false) →
      ((pre.foldl (apiStep v) s).handlers.filter (onFile f) = [] ∧ (pre.foldl (apiStep v) s).files f = s.files f) := by
  induction pre with
  | nil => intro s h _; exact ⟨h, rfl⟩
  | cons op pre ih =>
    intro s h1 hc
    have hc' : ∀ op ∈ pre, configures f op = false := fun o ho => hc o (by simp [ho])
    rw [List.foldl_cons]
    cases op with
    | emit r n =>
      by_cases hl : s.level ≤ n
      · have hst := step_all_none (hdEmit_grows v r) f s.handlers s.handlers s.files h1 h1
        have := ih { s with handlers := s.handlers.map (hdEmit v r), files := writeAll (hdEmit v r) s.handlers s.files } hst.1 hc'
        simp only [apiStep, hl, ↓reduceIte]
        exact ⟨this.1, by rw [this.2]; exact hst.2⟩
      · simpa [apiStep, hl] using ih s h1 hc'
    | enable a =>
      obtain ⟨e1, e2, _⟩ := apiStep_other v f s a (hc _ (by simp))
      have := ih (apiStep v s (.enable a)) (by rw [e1, h1]) hc'
      rw [this.2, e2]
      exact ⟨this.1, rfl⟩

theorem feed_st (v : Variant) (recs : List Rec) :
    ∀ hd : Hd, feed v recs hd =
      { hd with st := if hd.buffered then recs.foldl (emit v hd.cfg) hd.st else recs.foldl (baseEmit v hd.cfg) hd.st } := by
  induction recs with
  | nil => intro hd; cases hd; simp [feed]
  | cons r rs ih =>
    intro hd
    unfold feed at ih ⊢
    rw [List.foldl_cons, ih]
    cases hb : hd.buffered <;> simp [hdEmit, hb]

/-- the life of a freshly installed handler that is fed `recs` and closed is `runHandler` -/
theorem fresh_life (v : Variant) (f : Nat) (buffered : Bool) (cfg : FmtCfg) (recs : List Rec) :
    hdClose v (feed v recs { file := f, buffered := buffered, cfg := cfg }) =
      { file := f, buffered := buffered, cfg := cfg, closed := true,
        st := if buffered then close v cfg (recs.foldl (emit v cfg) {}) else recs.foldl (baseEmit v cfg) {} } := by
  rw [feed_st]
  cases buffered <;> simp [hdClose]

theorem fresh_life_out (v : Variant) (f : Nat) (buffered : Bool) (cfg : FmtCfg) (recs : List Rec) :
    (hdClose v (feed v recs { file := f, buffered := buffered, cfg := cfg })).st.out = runHandler v cfg buffered recs := by
  rw [fresh_life]
  cases buffered <;> simp [runHandler]

/-- the whole program, seen from a path that exactly one call configures -/
theorem runApi_single (v : Variant) (lvl0 : Nat) (files0 : Nat → Str) (pre post : List ApiOp) (a : EnableArgs)
    (e : ApiEnd) (f : Nat) (m : Str) (hm : basicLoggingMode a.mode = .ok m) (hf : a.file = some f)
    (hpre : ∀ op ∈ pre, configures f op = false) (hpost : ∀ op ∈ post, configures f op = false) :
    let s := runApi v (Api.init lvl0 files0) (pre ++ .enable a :: post) e
    let life := hdClose v (feed v (delivered a.level post) { file := f, buffered := a.bufferLog, cfg := ⟨true, a.callerInfo⟩ })
    s.handlers.filter (onFile f) = [life] ∧
    s.files f = (if m == ['a'] then files0 f else []) ++ fileText life.st.out := by
  intro s life
  have h0 := foldl_apiStep_none v f pre (Api.init lvl0 files0) (by simp [Api.init]) hpre
  generalize hs0 : pre.foldl (apiStep v) (Api.init lvl0 files0) = s0 at h0
  -- the configuring call
  have h1 : (apiStep v s0 (.enable a)).handlers.filter (onFile f)
      = [{ file := f, buffered := a.bufferLog, cfg := ⟨true, a.callerInfo⟩ }] := by
    simp [apiStep, hm, hf, List.filter_append, h0.1, onFile]
  have h2 : (apiStep v s0 (.enable a)).files f = (if m == ['a'] then files0 f else []) ++ fileText [] := by
    have : (Api.init lvl0 files0).files f = files0 f := rfl
    by_cases ha : (m == ['a']) = true
    · simp [apiStep, hm, hf, ha, h0.2, this, fileText]
    · simp [apiStep, hm, hf, ha, truncateFile, fileText]
  have h3 : (apiStep v s0 (.enable a)).level = a.level := by
    simp [apiStep, hm, hf]
  have h4 := foldl_apiStep_single v f _ post (apiStep v s0 (.enable a)) _ h1 h2 hpost
  rw [h3] at h4
  have hs : s = apiEnd v (post.foldl (apiStep v) (apiStep v s0 (.enable a))) e := by
    simp only [s, runApi, List.foldl_append, List.foldl_cons, hs0]
  generalize post.foldl (apiStep v) (apiStep v s0 (.enable a)) = s1 at h4 hs
  rw [hs]
  cases e with
  | shutdown =>
    have hrev : s1.handlers.reverse.filter (onFile f) = [feed v (delivered a.level post)
        { file := f, buffered := a.bufferLog, cfg := ⟨true, a.callerInfo⟩ }] := by
      rw [List.filter_reverse, h4.1]; rfl
    exact step_all_single (hdClose_grows v) f s1.handlers s1.handlers.reverse s1.files _ _ h4.1 hrev h4.2
  | closeAll =>
    exact step_all_single (hdClose_grows v) f s1.handlers s1.handlers s1.files _ _ h4.1 h4.1 h4.2

/-- the whole program, seen from a path that no call configures -/
theorem runApi_untouched (v : Variant) (lvl0 : Nat) (files0 : Nat → Str) (ops : List ApiOp) (e : ApiEnd) (f : Nat)
    (hops : ∀ op ∈ ops, configures f op = false) :
    (runApi v (Api.init lvl0 files0) ops e).files f = files0 f := by
  have h0 := foldl_apiStep_none v f ops (Api.init lvl0 files0) (by simp [Api.init]) hops
  unfold runApi
  generalize ops.foldl (apiStep v) (Api.init lvl0 files0) = s1 at h0
  have hinit : (Api.init lvl0 files0).files f = files0 f := rfl
  cases e with
  | shutdown =>
    have hrev : s1.handlers.reverse.filter (onFile f) = [] := by rw [List.filter_reverse, h0.1]; rfl
    have := step_all_none (hdClose_grows v) f s1.handlers s1.handlers.reverse s1.files h0.1 hrev
    simp only [apiEnd]; rw [this.2, h0.2, hinit]
  | closeAll =>
    have := step_all_none (hdClose_grows v) f s1.handlers s1.handlers s1.files h0.1 h0.1
    simp only [apiEnd]; rw [this.2, h0.2, hinit]

end Scrapli.Log
