import ScrapliModel.TimeoutRestore
/-
  C14 helper lemmas and the spec-level definitions (`Coherent`, `bad`, `nbad`).
  One relational invariant `Rel sh c c'` ("between the contexts c and c' the configured timeouts
  were preserved unless an exception escaped an unprotected temporary-timeout region") is shown to
  hold across every model function, for every shape whose `timeout_modifier` restores in `finally`.
-/
namespace Scrapli.TimeoutRestore
open M

variable {α β γ : Type}

/-! ### spec-level definitions -/

/-- the library session holds the configured transport timeout (what `open()` and the
    `timeout_transport` setter establish), or the transport has no session timeout at all -/
def Coherent (s : St α) : Prop := s.sess = none ∨ s.sess = some s.tr

instance [DecidableEq α] (s : St α) : Decidable (Coherent s) := by unfold Coherent; infer_instance

/-- a log entry that records an exception leaving a temporary-`timeout_transport` region whose
    restore is NOT in a `finally` (so: never, for `Shape.fixed`).
    chan region (`_read_until_prompt_or_time`): every class but ScrapliTimeout (which is suppressed);
    cb region (`read_callback`): every exception except ScrapliTimeout raised by `channel.read()`. -/
def bad (sh : Shape) (e : Entry α) : Bool :=
  match e.ev.exc, e.region with
  | some x, .chan => !sh.chanFinally && decide (x ≠ .timeout)
  | some x, .cb => !sh.cbFinally && !(decide (e.site = .read) && decide (x = .timeout))
  | _, _ => false

def nbad (sh : Shape) (c : Ctx α) : Nat := c.log.countP (bad sh)

theorem bad_fixed (sh : Shape) (hc : sh.chanFinally = true) (hb : sh.cbFinally = true) (e : Entry α) :
    bad sh e = false := by
  unfold bad; split <;> simp [hc, hb]

theorem nbad_fixed (sh : Shape) (hc : sh.chanFinally = true) (hb : sh.cbFinally = true) (c : Ctx α) :
    nbad sh c = 0 := by
  unfold nbad
  rw [List.countP_eq_zero]
  intro e _; simp [bad_fixed sh hc hb e]

/-! ### the monad, unfolded -/

theorem pure_apply (x : β) (c : Ctx α) : (pure x : M α β) c = (.ok x, c) := rfl
theorem raise_apply (e : Exc) (c : Ctx α) : (raise e : M α β) c = (.error e, c) := rfl
theorem bind_apply (m : M α β) (f : β → M α γ) (c : Ctx α) :
    (m >>= f) c = match m c with
      | (.ok x, c') => f x c'
      | (.error e, c') => (.error e, c') := rfl
theorem bind_ok {m : M α β} {f : β → M α γ} {c c' : Ctx α} {x : β} (h : m c = (.ok x, c')) :
    (m >>= f) c = f x c' := by rw [bind_apply, h]
theorem bind_err {m : M α β} {f : β → M α γ} {c c' : Ctx α} {e : Exc} (h : m c = (.error e, c')) :
    (m >>= f) c = (.error e, c') := by rw [bind_apply, h]

theorem err_ne_ok {e : Exc} {x : β} {P : Prop} (h : (Except.error e : Except Exc β) = .ok x) : P := nomatch h
theorem ok_ne_err {e : Exc} {x : β} {P : Prop} (h : (Except.ok x : Except Exc β) = .error e) : P := nomatch h

/-! ### the invariant -/

structure Rel (sh : Shape) (c c' : Ctx α) : Prop where
  ops : c'.st.ops = c.st.ops
  mono : nbad sh c ≤ nbad sh c'
  tr : nbad sh c' = nbad sh c → c'.st.tr = c.st.tr
  sess : nbad sh c' = nbad sh c → Coherent c.st → c'.st.sess = c.st.sess

theorem Rel.refl {sh : Shape} {c : Ctx α} : Rel sh c c :=
  ⟨rfl, Nat.le_refl _, fun _ => rfl, fun _ _ => rfl⟩

theorem Rel.trans {sh : Shape} {a b c : Ctx α} (h1 : Rel sh a b) (h2 : Rel sh b c) : Rel sh a c := by
  have hm1 := h1.mono
  have hm2 := h2.mono
  refine ⟨h2.ops.trans h1.ops, Nat.le_trans hm1 hm2, ?_, ?_⟩
  · intro h
    have e1 : nbad sh b = nbad sh a := by omega
    have e2 : nbad sh c = nbad sh b := by omega
    exact (h2.tr e2).trans (h1.tr e1)
  · intro h hc
    have e1 : nbad sh b = nbad sh a := by omega
    have e2 : nbad sh c = nbad sh b := by omega
    have hb : Coherent b.st := by
      unfold Coherent at hc ⊢
      rw [h1.tr e1, h1.sess e1 hc]; exact hc
    exact (h2.sess e2 hb).trans (h1.sess e1 hc)

/-- same state, log only grown -/
theorem Rel.of_same {sh : Shape} {c c' : Ctx α} (hst : c'.st = c.st) (hm : nbad sh c ≤ nbad sh c') :
    Rel sh c c' :=
  ⟨by rw [hst], hm, fun _ => by rw [hst], fun _ _ => by rw [hst]⟩

def Inv (sh : Shape) (m : M α β) : Prop := ∀ c, Rel sh c (m c).2

theorem inv_pure {sh : Shape} (x : β) : Inv (α := α) sh (pure x) := fun _ => Rel.refl
theorem inv_raise {sh : Shape} (e : Exc) : Inv sh (raise e : M α β) := fun _ => Rel.refl

theorem inv_bind {sh : Shape} {m : M α β} {f : β → M α γ} (hm : Inv sh m) (hf : ∀ x, Inv sh (f x)) :
    Inv sh (m >>= f) := by
  intro c
  have h := hm c
  rw [bind_apply]
  generalize m c = r at h ⊢
  obtain ⟨res, c'⟩ := r
  cases res with
  | ok x => exact Rel.trans h (hf x c')
  | error e => exact h

theorem inv_ite {sh : Shape} {p : Prop} [Decidable p] {a b : M α β} (ha : Inv sh a) (hb : Inv sh b) :
    Inv sh (if p then a else b) := by
  split <;> assumption

/-! ### call sites -/

theorem siteEv_fst (k : Site) (r : Region) (c : Ctx α) : (siteEv k r c).1 = .ok (nextEv c.tape).1 := rfl
theorem siteEv_st (k : Site) (r : Region) (c : Ctx α) : (siteEv k r c).2.st = c.st := rfl

theorem nbad_siteEv (sh : Shape) (k : Site) (r : Region) (c : Ctx α) :
    nbad sh (siteEv k r c).2 = nbad sh c + (if bad sh ⟨k, r, c.st, (nextEv c.tape).1⟩ = true then 1 else 0) := by
  simp [nbad, siteEv, List.countP_append, List.countP_cons]

theorem inv_siteEv {sh : Shape} (k : Site) (r : Region) : Inv sh (siteEv k r : M α Ev) := by
  intro c
  apply Rel.of_same (siteEv_st k r c)
  rw [nbad_siteEv]; exact Nat.le_add_right _ _

theorem inv_site {sh : Shape} (k : Site) (r : Region) : Inv sh (site k r : M α Bool) := by
  unfold site
  apply inv_bind (inv_siteEv k r)
  intro e
  split
  · exact inv_pure _
  · exact inv_raise _

theorem inv_call {sh : Shape} (k : Site) (r : Region) : Inv sh (call k r : M α Unit) := by
  unfold call
  exact inv_bind (inv_site k r) (fun _ => inv_pure _)

theorem inv_callIf {sh : Shape} (b : Bool) (k : Site) : Inv sh (callIf b k : M α Unit) := by
  unfold callIf
  exact inv_ite (inv_call _ _) (inv_pure _)

/-! ### setters -/

theorem getSt_apply (c : Ctx α) : (getSt : M α (St α)) c = (.ok c.st, c) := rfl
theorem setOps_apply (v : α) (c : Ctx α) : setOps v c = (.ok (), { c with st := { c.st with ops := v } }) := rfl
theorem setTrArgs_apply (v : α) (c : Ctx α) : setTrArgs v c = (.ok (), { c with st := { c.st with tr := v } }) := rfl
theorem setTr_apply (v : α) (c : Ctx α) :
    setTr v c = (.ok (), { c with st := { c.st with tr := v, sess := c.st.sess.map (fun _ => v) } }) := rfl
theorem tryFin_apply (m : M α β) (fin : M α Unit) (c : Ctx α) :
    tryFin m fin c = match fin (m c).2 with
      | (.ok _, c'') => ((m c).1, c'')
      | (.error e, c'') => (.error e, c'') := rfl

/-! ### timeout_modifier -/

theorem inv_timeoutModifier [DecidableEq α] {sh : Shape} (hmod : sh.modFinally = true) (ov : Ov α)
    {body : M α β} (hb : Inv sh body) : Inv sh (timeoutModifier sh ov body) := by
  intro c
  cases ov with
  | none => exact hb c
  | bad => exact Rel.refl
  | num v =>
    unfold timeoutModifier
    simp only [bind_apply, getSt_apply]
    by_cases hv : v = c.st.ops
    · rw [if_pos hv]; exact hb c
    · rw [if_neg hv]
      simp only [bind_apply, setOps_apply, hmod, if_true, tryFin_apply]
      have h := hb { c with st := { c.st with ops := v } }
      have h2 : nbad sh ({ c with st := { c.st with ops := v } } : Ctx α) = nbad sh c := rfl
      refine ⟨rfl, ?_, ?_, ?_⟩
      · exact h2 ▸ h.mono
      · intro hn; exact h.tr (by rw [h2]; exact hn)
      · intro hn hc; exact h.sess (by rw [h2]; exact hn) hc

/-! ### `_read_until_prompt_or_time` -/

theorem readLoop_succ (n : Nat) (c : Ctx α) :
    readLoop (n + 1) c =
      match (nextEv c.tape).1.exc with
      | some x =>
        if x = .timeout then
          (if (nextEv c.tape).1.flag = true then (.ok (), (siteEv .read .chan c).2) else readLoop n (siteEv .read .chan c).2)
        else (.error x, (siteEv .read .chan c).2)
      | none =>
        if (nextEv c.tape).1.flag = true then (.ok (), (siteEv .read .chan c).2) else readLoop n (siteEv .read .chan c).2 := by
  rw [readLoop, bind_ok (m := siteEv .read .chan) (c' := (siteEv .read .chan c).2) (x := (nextEv c.tape).1) rfl]
  unfold suppressTimeout
  cases (nextEv c.tape).1.exc with
  | none =>
    simp only [bind_apply, pure_apply]
    split <;> rfl
  | some x =>
    by_cases hx : x = .timeout
    · simp only [hx, if_true, bind_apply, pure_apply]
      split <;> rfl
    · simp only [hx, if_false, bind_apply, raise_apply]

/-- the read loop never changes the state; an exception that leaves it is recorded as `bad`
    when the restore is not in a `finally` -/
theorem readLoop_spec (sh : Shape) (n : Nat) (c : Ctx α) :
    (readLoop n c).2.st = c.st ∧ nbad sh c ≤ nbad sh (readLoop n c).2 ∧
    (∀ e, (readLoop n c).1 = .error e → sh.chanFinally = false → nbad sh c < nbad sh (readLoop n c).2) := by
  induction n generalizing c with
  | zero => exact ⟨rfl, Nat.le_refl _, fun e h => by cases h⟩
  | succ n ih =>
    rw [readLoop_succ]
    have hst := siteEv_st .read .chan c
    have hnb := nbad_siteEv sh .read .chan c
    have ih1 := ih (siteEv .read .chan c).2
    have hle : nbad sh c ≤ nbad sh (siteEv .read .chan c).2 := by rw [hnb]; exact Nat.le_add_right _ _
    have hcont : ∀ r : Except Exc Unit × Ctx α,
        r = (if (nextEv c.tape).1.flag = true then (.ok (), (siteEv .read .chan c).2) else readLoop n (siteEv .read .chan c).2) →
        r.2.st = c.st ∧ nbad sh c ≤ nbad sh r.2 ∧
        (∀ e, r.1 = .error e → sh.chanFinally = false → nbad sh c < nbad sh r.2) := by
      intro r hr
      by_cases hf : (nextEv c.tape).1.flag = true
      · rw [if_pos hf] at hr; subst hr
        exact ⟨hst, hle, fun e h => by cases h⟩
      · rw [if_neg hf] at hr; subst hr
        refine ⟨ih1.1.trans hst, Nat.le_trans hle ih1.2.1, fun e h hc => ?_⟩
        exact Nat.lt_of_le_of_lt hle (ih1.2.2 e h hc)
    cases hexc : (nextEv c.tape).1.exc with
    | none => exact hcont _ rfl
    | some x =>
      by_cases hx : x = .timeout
      · simp only [hx, if_true]; exact hcont _ rfl
      · simp only [hx, if_false]
        refine ⟨hst, hle, fun e _ hc => ?_⟩
        rw [hnb]
        have : bad sh (⟨.read, .chan, c.st, (nextEv c.tape).1⟩ : Entry α) = true := by
          simp [bad, hexc, hc, hx]
        rw [if_pos this]; exact Nat.lt_succ_self _

/-- `_read_until_prompt_or_time`, computed -/
theorem readUntil_apply (sh : Shape) (V : ValOps α) (fuel : Nat) (rd : Option α) (c : Ctx α) :
    readUntilPromptOrTime sh V fuel rd c =
      if sh.chanFinally = true then
        ((readLoop fuel { c with st := { c.st with tr := V.trunc (rd.getD V.chanDflt) } }).1,
         { (readLoop fuel { c with st := { c.st with tr := V.trunc (rd.getD V.chanDflt) } }).2 with
           st := { (readLoop fuel { c with st := { c.st with tr := V.trunc (rd.getD V.chanDflt) } }).2.st with tr := c.st.tr } })
      else
        match readLoop fuel { c with st := { c.st with tr := V.trunc (rd.getD V.chanDflt) } } with
        | (.ok _, c2) => (.ok (), { c2 with st := { c2.st with tr := c.st.tr } })
        | (.error e, c2) => (.error e, c2) := by
  unfold readUntilPromptOrTime
  simp only [bind_apply, getSt_apply, setTrArgs_apply]
  by_cases hf : sh.chanFinally = true
  · rw [if_pos hf, if_pos hf, tryFin_apply, setTrArgs_apply]
  · rw [if_neg hf, if_neg hf, bind_apply]
    split <;> rename_i h <;> simp only [h, setTrArgs_apply]

/-- `_read_until_prompt_or_time` as a whole -/
theorem inv_readUntil {sh : Shape} (V : ValOps α) (fuel : Nat) (rd : Option α) :
    Inv sh (readUntilPromptOrTime sh V fuel rd) := by
  intro c
  rw [readUntil_apply]
  have hn : nbad sh ({ c with st := { c.st with tr := V.trunc (rd.getD V.chanDflt) } } : Ctx α) = nbad sh c := rfl
  obtain ⟨h1, h2, h3⟩ := readLoop_spec sh fuel ({ c with st := { c.st with tr := V.trunc (rd.getD V.chanDflt) } } : Ctx α)
  rw [hn] at h2 h3
  generalize readLoop fuel ({ c with st := { c.st with tr := V.trunc (rd.getD V.chanDflt) } } : Ctx α) = r at h1 h2 h3 ⊢
  obtain ⟨res, c2⟩ := r
  have h1' : c2.st = { c.st with tr := V.trunc (rd.getD V.chanDflt) } := h1
  have h2' : nbad sh c ≤ nbad sh c2 := h2
  by_cases hf : sh.chanFinally = true
  · rw [if_pos hf]
    exact ⟨by simp [h1'], h2', fun _ => rfl, fun _ _ => by simp [h1']⟩
  · rw [if_neg hf]
    cases res with
    | ok u => exact ⟨by simp [h1'], h2', fun _ => rfl, fun _ _ => by simp [h1']⟩
    | error e =>
      have hlt : nbad sh c < nbad sh c2 := h3 e rfl (by simpa using hf)
      refine ⟨by simp [h1'], h2', fun hh => ?_, fun hh _ => ?_⟩
      · have : nbad sh c2 = nbad sh c := hh
        omega
      · have : nbad sh c2 = nbad sh c := hh
        omega

/-! ### read_callback -/

/-- the effect of the `timeout_transport` setter on the state -/
def restoreTr (v : α) (s : St α) : St α := { s with tr := v, sess := s.sess.map (fun _ => v) }

theorem restoreTr_restoreTr (s : St α) (x : α) :
    (restoreTr s.tr (restoreTr x s)).ops = s.ops ∧ (restoreTr s.tr (restoreTr x s)).tr = s.tr ∧
    (Coherent s → (restoreTr s.tr (restoreTr x s)).sess = s.sess) := by
  refine ⟨rfl, rfl, ?_⟩
  intro hc
  rcases hc with h | h <;> simp [restoreTr, h]

theorem site_apply (k : Site) (r : Region) (c : Ctx α) :
    site k r c = match (nextEv c.tape).1.exc with
      | none => (.ok (nextEv c.tape).1.flag, (siteEv k r c).2)
      | some x => (.error x, (siteEv k r c).2) := by
  unfold site
  rw [bind_ok (m := siteEv k r) (c' := (siteEv k r c).2) (x := (nextEv c.tape).1) rfl]
  cases (nextEv c.tape).1.exc <;> rfl

/-- checking the callbacks never changes the state; an exception raised by a check is `bad`
    when the restore is not in a `finally` -/
theorem checkCbs_spec (sh : Shape) (cbs : List (Cb α)) (c : Ctx α) :
    (checkCbs cbs c).2.st = c.st ∧ nbad sh c ≤ nbad sh (checkCbs cbs c).2 ∧
    (∀ e, (checkCbs cbs c).1 = .error e → sh.cbFinally = false → nbad sh c < nbad sh (checkCbs cbs c).2) := by
  induction cbs generalizing c with
  | nil => exact ⟨rfl, Nat.le_refl _, fun e h => by cases h⟩
  | cons cb rest ih =>
    rw [checkCbs, bind_apply, site_apply]
    have hst := siteEv_st .check .cb c
    have hnb := nbad_siteEv sh .check .cb c
    have hle : nbad sh c ≤ nbad sh (siteEv .check .cb c).2 := by rw [hnb]; exact Nat.le_add_right _ _
    have ih1 := ih (siteEv .check .cb c).2
    cases hexc : (nextEv c.tape).1.exc with
    | none =>
      simp only []
      by_cases hf : (nextEv c.tape).1.flag = true
      · rw [if_pos hf]
        exact ⟨hst, hle, fun e h => by cases h⟩
      · rw [if_neg hf]
        exact ⟨ih1.1.trans hst, Nat.le_trans hle ih1.2.1, fun e h hc => Nat.lt_of_le_of_lt hle (ih1.2.2 e h hc)⟩
    | some x =>
      simp only []
      refine ⟨hst, hle, fun e _ hc => ?_⟩
      rw [hnb]
      have : bad sh (⟨.check, .cb, c.st, (nextEv c.tape).1⟩ : Entry α) = true := by
        simp [bad, hexc, hc]
      rw [if_pos this]; exact Nat.lt_succ_self _

theorem cbReadExc_apply (sh : Shape) (orig : α) (e : Ev) (c : Ctx α) :
    cbReadExc sh orig e c = match e.exc with
      | none => (.ok (), c)
      | some x => (.error x, if x = .timeout ∧ sh.cbFinally = false then { c with st := restoreTr orig c.st } else c) := by
  unfold cbReadExc
  cases e.exc with
  | none => rfl
  | some x =>
    simp only [bind_apply]
    by_cases h : x = .timeout ∧ sh.cbFinally = false
    · have h' : (decide (x = Exc.timeout) && !sh.cbFinally) = true := by simp [h.1, h.2]
      rw [if_pos h', if_pos h, setTr_apply]; rfl
    · have h' : ¬ (decide (x = Exc.timeout) && !sh.cbFinally) = true := by
        simp only [Bool.and_eq_true, decide_eq_true_eq, Bool.not_eq_true', not_and] at h ⊢
        exact h
      rw [if_neg h', if_neg h, pure_apply]; rfl

theorem cbLoop_succ (sh : Shape) (orig : α) (cbs : List (Cb α)) (n : Nat) (c : Ctx α) :
    cbLoop sh orig cbs (n + 1) c =
      match cbReadExc sh orig (nextEv c.tape).1 (siteEv .read .cb c).2 with
      | (.error x, c1) => (.error x, c1)
      | (.ok _, c1) =>
        match checkCbs cbs c1 with
        | (.error x, c2) => (.error x, c2)
        | (.ok (some cb), c2) => (.ok cb, c2)
        | (.ok none, c2) => cbLoop sh orig cbs n c2 := by
  rw [cbLoop, bind_ok (m := siteEv .read .cb) (c' := (siteEv .read .cb c).2) (x := (nextEv c.tape).1) rfl]
  simp only [bind_apply]
  generalize cbReadExc sh orig (nextEv c.tape).1 (siteEv .read .cb c).2 = r1
  obtain ⟨res1, c1⟩ := r1
  cases res1 with
  | error e => rfl
  | ok u =>
    dsimp only
    generalize checkCbs cbs c1 = r2
    obtain ⟨res2, c2⟩ := r2
    cases res2 with
    | error e => rfl
    | ok m => cases m <;> rfl

theorem cbLoop_zero (sh : Shape) (orig : α) (cbs : List (Cb α)) (c : Ctx α) :
    cbLoop sh orig cbs 0 c =
      (.error .timeout, if sh.cbFinally = false then { c with st := restoreTr orig c.st } else c) := by
  rw [cbLoop, bind_apply, cbReadExc_apply]
  by_cases hf : sh.cbFinally = false <;> simp [hf]

/-- the read loop of read_callback: the state it leaves behind -/
theorem cbLoop_spec (sh : Shape) (orig : α) (cbs : List (Cb α)) (n : Nat) (c : Ctx α) :
    (cbLoop sh orig cbs n c).2.st.ops = c.st.ops ∧ nbad sh c ≤ nbad sh (cbLoop sh orig cbs n c).2 ∧
    (∀ x, (cbLoop sh orig cbs n c).1 = .ok x → (cbLoop sh orig cbs n c).2.st = c.st) ∧
    (∀ e, (cbLoop sh orig cbs n c).1 = .error e → sh.cbFinally = true → (cbLoop sh orig cbs n c).2.st = c.st) ∧
    (∀ e, (cbLoop sh orig cbs n c).1 = .error e → sh.cbFinally = false →
      nbad sh c < nbad sh (cbLoop sh orig cbs n c).2 ∨ (cbLoop sh orig cbs n c).2.st = restoreTr orig c.st) := by
  induction n generalizing c with
  | zero =>
    rw [cbLoop_zero]
    by_cases hf : sh.cbFinally = false
    · rw [if_pos hf]
      exact ⟨rfl, Nat.le_refl _, fun x h => err_ne_ok h, fun e _ ht => (by rw [hf] at ht; cases ht),
        fun e _ _ => Or.inr rfl⟩
    · rw [if_neg hf]
      exact ⟨rfl, Nat.le_refl _, fun x h => err_ne_ok h, fun e _ _ => rfl, fun e _ hc => absurd hc hf⟩
  | succ n ih =>
    rw [cbLoop_succ, cbReadExc_apply]
    have hst := siteEv_st .read .cb c
    have hnb := nbad_siteEv sh .read .cb c
    have hle : nbad sh c ≤ nbad sh (siteEv .read .cb c).2 := by rw [hnb]; exact Nat.le_add_right _ _
    cases hexc : (nextEv c.tape).1.exc with
    | some x =>
      dsimp only
      by_cases h : x = .timeout ∧ sh.cbFinally = false
      · rw [if_pos h]
        refine ⟨by simp [restoreTr, hst], hle, fun y hy => err_ne_ok hy, fun e _ ht => ?_, fun e _ _ => Or.inr ?_⟩
        · rw [h.2] at ht; cases ht
        · simp [hst]
      · rw [if_neg h]
        refine ⟨by rw [hst], hle, fun y hy => err_ne_ok hy, fun e _ _ => hst, fun e _ hc => Or.inl ?_⟩
        rw [hnb]
        have hx : x ≠ .timeout := fun hx => h ⟨hx, hc⟩
        have : bad sh (⟨.read, .cb, c.st, (nextEv c.tape).1⟩ : Entry α) = true := by
          simp [bad, hexc, hc, hx]
        rw [if_pos this]; exact Nat.lt_succ_self _
    | none =>
      dsimp only
      obtain ⟨k1, k2, k3⟩ := checkCbs_spec sh cbs (siteEv .read .cb c).2
      generalize checkCbs cbs (siteEv .read .cb c).2 = r at k1 k2 k3 ⊢
      obtain ⟨res, c2⟩ := r
      have k1' : c2.st = c.st := k1.trans hst
      have k2' : nbad sh c ≤ nbad sh c2 := Nat.le_trans hle k2
      cases res with
      | error e =>
        dsimp only
        refine ⟨by rw [k1'], k2', fun y hy => err_ne_ok hy, fun _ _ _ => k1', fun e' _ hc => Or.inl ?_⟩
        exact Nat.lt_of_le_of_lt hle (k3 e rfl hc)
      | ok m =>
        cases m with
        | some cb =>
          dsimp only
          exact ⟨by rw [k1'], k2', fun _ _ => k1', fun e h => ok_ne_err h, fun e h => ok_ne_err h⟩
        | none =>
          dsimp only
          obtain ⟨i1, i2, i3, i4, i5⟩ := ih c2
          refine ⟨i1.trans (by rw [k1']), Nat.le_trans k2' i2, fun x hx => (i3 x hx).trans k1',
            fun e he hf => (i4 e he hf).trans k1', fun e he hf => ?_⟩
          rcases i5 e he hf with h | h
          · exact Or.inl (Nat.lt_of_le_of_lt k2' h)
          · exact Or.inr (by rw [h, k1'])

/-- the swapped part of read_callback, computed -/
theorem cbSwap_apply (sh : Shape) (V : ValOps α) (cbs : List (Cb α)) (fuel : Nat) (rt : α) (c : Ctx α) :
    cbSwap sh V cbs fuel rt c =
      if sh.cbFinally = true then
        ((cbLoop sh c.st.tr cbs fuel { c with st := restoreTr (if V.nonneg rt = true then rt else c.st.tr) c.st }).1,
         { (cbLoop sh c.st.tr cbs fuel { c with st := restoreTr (if V.nonneg rt = true then rt else c.st.tr) c.st }).2 with
           st := restoreTr c.st.tr
             (cbLoop sh c.st.tr cbs fuel { c with st := restoreTr (if V.nonneg rt = true then rt else c.st.tr) c.st }).2.st })
      else
        match cbLoop sh c.st.tr cbs fuel { c with st := restoreTr (if V.nonneg rt = true then rt else c.st.tr) c.st } with
        | (.ok cb, c2) => (.ok cb, { c2 with st := restoreTr c.st.tr c2.st })
        | (.error e, c2) => (.error e, c2) := by
  unfold cbSwap
  simp only [bind_apply, getSt_apply, setTr_apply]
  by_cases hf : sh.cbFinally = true
  · rw [if_pos hf, if_pos hf, tryFin_apply, setTr_apply]; rfl
  · rw [if_neg hf, if_neg hf, bind_apply]
    split <;> rename_i h <;> simp only [restoreTr, h, bind_apply, setTr_apply, pure_apply]

theorem inv_cbSwap {sh : Shape} (V : ValOps α) (cbs : List (Cb α)) (fuel : Nat) (rt : α) :
    Inv sh (cbSwap sh V cbs fuel rt) := by
  intro c
  rw [cbSwap_apply]
  have hn : nbad sh ({ c with st := restoreTr (if V.nonneg rt = true then rt else c.st.tr) c.st } : Ctx α) = nbad sh c := rfl
  obtain ⟨h1, h2, h3, h4, h5⟩ := cbLoop_spec sh c.st.tr cbs fuel
    ({ c with st := restoreTr (if V.nonneg rt = true then rt else c.st.tr) c.st } : Ctx α)
  rw [hn] at h2 h5
  generalize cbLoop sh c.st.tr cbs fuel
    ({ c with st := restoreTr (if V.nonneg rt = true then rt else c.st.tr) c.st } : Ctx α) = r at h1 h2 h3 h4 h5 ⊢
  obtain ⟨res, c2⟩ := r
  obtain ⟨r1, r2, r3⟩ := restoreTr_restoreTr c.st (if V.nonneg rt = true then rt else c.st.tr)
  have h2' : nbad sh c ≤ nbad sh c2 := h2
  -- whenever the loop left the swapped state untouched, restoring gives back the original
  have key : c2.st = restoreTr (if V.nonneg rt = true then rt else c.st.tr) c.st →
      Rel sh c ({ c2 with st := restoreTr c.st.tr c2.st } : Ctx α) := by
    intro hs
    refine ⟨?_, h2', fun _ => ?_, fun _ hc => ?_⟩
    · show (restoreTr c.st.tr c2.st).ops = c.st.ops
      rw [hs]; exact r1
    · show (restoreTr c.st.tr c2.st).tr = c.st.tr
      rw [hs]; exact r2
    · show (restoreTr c.st.tr c2.st).sess = c.st.sess
      rw [hs]; exact r3 hc
  by_cases hf : sh.cbFinally = true
  · rw [if_pos hf]
    cases res with
    | ok x => exact key (h3 x rfl)
    | error e => exact key (h4 e rfl hf)
  · rw [if_neg hf]
    have hf' : sh.cbFinally = false := by simpa using hf
    cases res with
    | ok x => exact key (h3 x rfl)
    | error e =>
      simp only []
      rcases h5 e rfl hf' with hlt | hs
      · have hlt' : nbad sh c < nbad sh c2 := hlt
        refine ⟨h1, h2', fun hh => ?_, fun hh _ => ?_⟩
        · have : nbad sh c2 = nbad sh c := hh
          omega
        · have : nbad sh c2 = nbad sh c := hh
          omega
      · have hs' : c2.st = restoreTr c.st.tr (restoreTr (if V.nonneg rt = true then rt else c.st.tr) c.st) := hs
        refine ⟨?_, h2', fun _ => ?_, fun _ hc => ?_⟩
        · rw [hs']; exact r1
        · rw [hs']; exact r2
        · rw [hs']; exact r3 hc

theorem inv_readCallback {sh : Shape} (V : ValOps α) (cbs : List (Cb α)) :
    ∀ (n : Nat) (init : Bool) (rt : α), Inv sh (readCallback sh V cbs n init rt)
  | 0, _, _ => by rw [readCallback]; exact inv_raise _
  | n + 1, true, rt => by
    rw [readCallback]
    exact inv_bind (inv_call _ _) (fun _ => inv_readCallback V cbs n false rt)
  | n + 1, false, rt => by
    rw [readCallback]
    exact inv_bind (inv_cbSwap V cbs (n + 1) rt) (fun cb =>
      inv_bind (inv_call _ _) (fun _ => inv_ite (inv_pure _) (inv_readCallback V cbs n false cb.next)))

/-! ### the operations -/

section ops
variable [DecidableEq α] {sh : Shape} (hmod : sh.modFinally = true)
include hmod

theorem inv_sendCommand1 (ov : Ov α) : Inv sh (sendCommand1 sh ov) :=
  inv_timeoutModifier hmod ov (inv_bind (inv_call _ _) (fun _ => inv_site _ _))

theorem inv_sendCommandsLoop (ov : Ov α) (stop : Bool) : ∀ n, Inv sh (sendCommandsLoop sh ov stop n)
  | 0 => by rw [sendCommandsLoop]; exact inv_pure _
  | n + 1 => by
    rw [sendCommandsLoop]
    exact inv_bind (inv_sendCommand1 hmod ov) (fun _ => inv_ite (inv_pure _) (inv_sendCommandsLoop ov stop n))

theorem inv_sendCommands (ov : Ov α) (stop : Bool) (n : Nat) : Inv sh (sendCommands sh ov stop n) := by
  unfold sendCommands
  exact inv_ite (inv_raise _) (inv_sendCommandsLoop hmod ov stop n)

theorem inv_sendAndRead (V : ValOps α) (fuel : Nat) (ov : Ov α) (rd : Option α) :
    Inv sh (sendAndRead sh V fuel ov rd) :=
  inv_timeoutModifier hmod ov
    (inv_bind (inv_call _ _) fun _ => inv_bind (inv_call _ _) fun _ => inv_bind (inv_call _ _) fun _ =>
      inv_bind (inv_call _ _) fun _ => inv_readUntil V fuel rd)

theorem inv_sendInteractive (ov : Ov α) : Inv sh (sendInteractive sh ov) :=
  inv_timeoutModifier hmod ov (inv_bind (inv_call _ _) fun _ => inv_call _ _)

theorem inv_runOp (V : ValOps α) (fuel : Nat) (op : Op α) : Inv sh (runOp sh V fuel op) := by
  cases op with
  | sendCommand net ov =>
    exact inv_bind (inv_callIf _ _) fun _ => inv_bind (inv_sendCommand1 hmod ov) fun _ => inv_pure _
  | sendCommands net file ov n stop =>
    exact inv_bind (inv_callIf _ _) fun _ => inv_bind (inv_callIf _ _) fun _ =>
      inv_bind (inv_sendCommands hmod ov stop n) fun _ => inv_pure _
  | sendAndRead ov rd => exact inv_sendAndRead hmod V fuel ov rd
  | sendInteractive net ov => exact inv_bind (inv_callIf _ _) fun _ => inv_sendInteractive hmod ov
  | sendConfigs ov n stop acq =>
    exact inv_bind (inv_call _ _) fun _ => inv_bind (inv_callIf _ _) fun _ =>
      inv_bind (inv_sendCommands hmod ov stop n) fun _ => inv_callIf _ _
  | readCallback init rt cbs => exact inv_readCallback V cbs fuel init rt

/-- sequences of calls: every recorded state agrees with the initial one on `timeout_ops`, and on
    everything if no exception escaped an unprotected region anywhere in the run -/
theorem runOps_spec (V : ValOps α) (fuel : Nat) (ops : List (Op α)) (c : Ctx α) :
    Rel sh c (runOps sh V fuel ops c).2 ∧
    ∀ step ∈ (runOps sh V fuel ops c).1, step.st.ops = c.st.ops ∧
      (nbad sh (runOps sh V fuel ops c).2 = nbad sh c →
        step.st.tr = c.st.tr ∧ (Coherent c.st → step.st.sess = c.st.sess)) := by
  induction ops generalizing c with
  | nil => exact ⟨Rel.refl, fun _ h => by cases h⟩
  | cons op rest ih =>
    rw [runOps]
    have h1 := inv_runOp hmod V fuel op c
    obtain ⟨h2, h3⟩ := ih (runOp sh V fuel op c).2
    have hm1 := h1.mono
    have hm2 := h2.mono
    refine ⟨Rel.trans h1 h2, ?_⟩
    intro step hstep
    simp only [List.mem_cons] at hstep
    rcases hstep with rfl | hstep
    · refine ⟨h1.ops, fun hn => ?_⟩
      have e1 : nbad sh (runOp sh V fuel op c).2 = nbad sh c := by
        have : nbad sh (runOps sh V fuel rest (runOp sh V fuel op c).2).2 = nbad sh c := hn
        omega
      exact ⟨h1.tr e1, h1.sess e1⟩
    · obtain ⟨g1, g2⟩ := h3 step hstep
      refine ⟨g1.trans h1.ops, fun hn => ?_⟩
      have hn' : nbad sh (runOps sh V fuel rest (runOp sh V fuel op c).2).2 = nbad sh c := hn
      have e1 : nbad sh (runOp sh V fuel op c).2 = nbad sh c := by omega
      have e2 : nbad sh (runOps sh V fuel rest (runOp sh V fuel op c).2).2 = nbad sh (runOp sh V fuel op c).2 := by omega
      obtain ⟨g3, g4⟩ := g2 e2
      refine ⟨g3.trans (h1.tr e1), fun hc => ?_⟩
      have hc1 : Coherent (runOp sh V fuel op c).2.st := by
        unfold Coherent at hc ⊢
        rw [h1.tr e1, h1.sess e1 hc]; exact hc
      exact (g4 hc1).trans (h1.sess e1 hc)

end ops

end Scrapli.TimeoutRestore
