import ScrapliModel.TimeoutRestore
/-
  C14 helper lemmas and the spec-level definitions (`Coherent`, `bad`, `nbad`).
  One relational invariant `Rel sh q c c'` ("between the contexts c and c' the configured timeouts
  were preserved unless an exception escaped an unprotected temporary-timeout region") is shown to
  hold across every model function, for every shape whose `timeout_modifier` restores in `finally`.
-/
namespace Scrapli.TimeoutRestore
open M

variable {α β γ : Type}

/-! ### spec-level definitions -/

/-- the library session holds the configured transport timeout (what `open()` and the
    `timeout_transport` setter establish), or the transport has no session timeout at all -/
def Coherent (s : St α) : Prop := s.sess = none ∨ s.sess = some s.tr

instance [DecidableEq α] (s : St α) : Decidable (Coherent s) := by unfold Coherent; infer_instance

/-- a log entry that records an exception leaving a temporary-`timeout_transport` region whose
    restore is NOT in a `finally` (so: never, for `Shape.fixed`).
    chan region (`_read_until_prompt_or_time`): every class but ScrapliTimeout (which is suppressed);
    cb region (`read_callback`): every exception except ScrapliTimeout raised by `channel.read()`. -/
def badCore (sh : Shape) (e : Entry α) : Bool :=
  match e.ev.exc, e.region with
  | some x, .chan => !sh.chanFinally && decide (x ≠ .timeout)
  | some x, .cb => !sh.cbFinally && !(decide (e.site = .read) && decide (x = .timeout))
  | some _, .swap => !sh.cbSwapInTry
  | some _, .gap => sh.asyncExc && !(sh.chanFinally && sh.chanSwapInTry)
  | _, _ => false

/-- `q = true` (strict): a `_set_timeout` that raised counts as well (then the session value is unspecified) -/
def bad (sh : Shape) (q : Bool) (e : Entry α) : Bool :=
  badCore sh e || (q && decide (e.site = .push) && e.ev.exc.isSome)

def nbad (sh : Shape) (q : Bool) (c : Ctx α) : Nat := c.log.countP (bad sh q)

theorem bad_fixed (sh : Shape) (hc : sh.chanFinally = true) (hb : sh.cbFinally = true) (hs : sh.cbSwapInTry = true)
    (ha : sh.chanSwapInTry = true ∨ sh.asyncExc = false) (e : Entry α) : bad sh false e = false := by
  unfold bad badCore; rcases ha with ha | ha <;> split <;> simp [hc, hb, hs, ha]

theorem nbad_fixed (sh : Shape) (hc : sh.chanFinally = true) (hb : sh.cbFinally = true) (hs : sh.cbSwapInTry = true)
    (ha : sh.chanSwapInTry = true ∨ sh.asyncExc = false) (c : Ctx α) : nbad sh false c = 0 := by
  unfold nbad
  rw [List.countP_eq_zero]
  intro e _; simp [bad_fixed sh hc hb hs ha e]

/-- the strict count dominates the plain one -/
theorem nbad_le_strict (sh : Shape) (c : Ctx α) : nbad sh false c ≤ nbad sh true c := by
  unfold nbad
  apply List.countP_mono_left
  intro e _ h
  simp only [bad, Bool.false_and, Bool.or_false] at h
  simp [bad, h]

/-! ### the monad, unfolded -/

theorem pure_apply (x : β) (c : Ctx α) : (pure x : M α β) c = (.ok x, c) := rfl
theorem raise_apply (e : Exc) (c : Ctx α) : (raise e : M α β) c = (.error e, c) := rfl
theorem bind_apply (m : M α β) (f : β → M α γ) (c : Ctx α) :
    (m >>= f) c = match m c with
      | (.ok x, c') => f x c'
      | (.error e, c') => (.error e, c') := rfl
theorem bind_ok {m : M α β} {f : β → M α γ} {c c' : Ctx α} {x : β} (h : m c = (.ok x, c')) :
    (m >>= f) c = f x c' := by rw [bind_apply, h]
theorem bind_err {m : M α β} {f : β → M α γ} {c c' : Ctx α} {e : Exc} (h : m c = (.error e, c')) :
    (m >>= f) c = (.error e, c') := by rw [bind_apply, h]

theorem err_ne_ok {e : Exc} {x : β} {P : Prop} (h : (Except.error e : Except Exc β) = .ok x) : P := nomatch h
theorem ok_ne_err {e : Exc} {x : β} {P : Prop} (h : (Except.ok x : Except Exc β) = .error e) : P := nomatch h

/-! ### the invariant -/

structure Rel (sh : Shape) (q : Bool) (c c' : Ctx α) : Prop where
  ops : c'.st.ops = c.st.ops
  mono : nbad sh q c ≤ nbad sh q c'
  tr : nbad sh q c' = nbad sh q c → c'.st.tr = c.st.tr
  sess : q = true → nbad sh q c' = nbad sh q c → Coherent c.st → c'.st.sess = c.st.sess

theorem Rel.refl {sh : Shape} {q : Bool} {c : Ctx α} : Rel sh q c c :=
  ⟨rfl, Nat.le_refl _, fun _ => rfl, fun _ _ _ => rfl⟩

theorem Rel.trans {sh : Shape} {q : Bool} {a b c : Ctx α} (h1 : Rel sh q a b) (h2 : Rel sh q b c) : Rel sh q a c := by
  have hm1 := h1.mono
  have hm2 := h2.mono
  refine ⟨h2.ops.trans h1.ops, Nat.le_trans hm1 hm2, ?_, ?_⟩
  · intro h
    have e1 : nbad sh q b = nbad sh q a := by omega
    have e2 : nbad sh q c = nbad sh q b := by omega
    exact (h2.tr e2).trans (h1.tr e1)
  · intro hq h hc
    have e1 : nbad sh q b = nbad sh q a := by omega
    have e2 : nbad sh q c = nbad sh q b := by omega
    have hb : Coherent b.st := by
      unfold Coherent at hc ⊢
      rw [h1.tr e1, h1.sess hq e1 hc]; exact hc
    exact (h2.sess hq e2 hb).trans (h1.sess hq e1 hc)

/-- same state, log only grown -/
theorem Rel.of_same {sh : Shape} {q : Bool} {c c' : Ctx α} (hst : c'.st = c.st) (hm : nbad sh q c ≤ nbad sh q c') :
    Rel sh q c c' :=
  ⟨by rw [hst], hm, fun _ => by rw [hst], fun _ _ _ => by rw [hst]⟩

def Inv (sh : Shape) (q : Bool) (m : M α β) : Prop := ∀ c, Rel sh q c (m c).2

theorem inv_pure {sh : Shape} {q : Bool} (x : β) : Inv (α := α) sh q (pure x) := fun _ => Rel.refl
theorem inv_raise {sh : Shape} {q : Bool} (e : Exc) : Inv sh q (raise e : M α β) := fun _ => Rel.refl

theorem inv_bind {sh : Shape} {q : Bool} {m : M α β} {f : β → M α γ} (hm : Inv sh q m) (hf : ∀ x, Inv sh q (f x)) :
    Inv sh q (m >>= f) := by
  intro c
  have h := hm c
  rw [bind_apply]
  generalize m c = r at h ⊢
  obtain ⟨res, c'⟩ := r
  cases res with
  | ok x => exact Rel.trans h (hf x c')
  | error e => exact h

theorem inv_ite {sh : Shape} {q : Bool} {p : Prop} [Decidable p] {a b : M α β} (ha : Inv sh q a) (hb : Inv sh q b) :
    Inv sh q (if p then a else b) := by
  split <;> assumption

/-! ### call sites -/

theorem siteEv_fst (k : Site) (r : Region) (c : Ctx α) : (siteEv k r c).1 = .ok (nextEv c.tape).1 := rfl
theorem siteEv_st (k : Site) (r : Region) (c : Ctx α) : (siteEv k r c).2.st = c.st := rfl

theorem nbad_siteEv (sh : Shape) (q : Bool) (k : Site) (r : Region) (c : Ctx α) :
    nbad sh q (siteEv k r c).2 = nbad sh q c + (if bad sh q ⟨k, r, c.st, (nextEv c.tape).1⟩ = true then 1 else 0) := by
  simp [nbad, siteEv, List.countP_append, List.countP_cons]

theorem inv_siteEv {sh : Shape} {q : Bool} (k : Site) (r : Region) : Inv sh q (siteEv k r : M α Ev) := by
  intro c
  apply Rel.of_same (siteEv_st k r c)
  rw [nbad_siteEv]; exact Nat.le_add_right _ _

theorem inv_site {sh : Shape} {q : Bool} (k : Site) (r : Region) : Inv sh q (site k r : M α Bool) := by
  unfold site
  apply inv_bind (inv_siteEv k r)
  intro e
  split
  · exact inv_pure _
  · exact inv_raise _

theorem inv_call {sh : Shape} {q : Bool} (k : Site) (r : Region) : Inv sh q (call k r : M α Unit) := by
  unfold call
  exact inv_bind (inv_site k r) (fun _ => inv_pure _)

theorem inv_callIf {sh : Shape} {q : Bool} (b : Bool) (k : Site) : Inv sh q (callIf b k : M α Unit) := by
  unfold callIf
  exact inv_ite (inv_call _ _) (inv_pure _)

/-! ### setters -/

theorem getSt_apply (c : Ctx α) : (getSt : M α (St α)) c = (.ok c.st, c) := rfl
theorem setOps_apply (v : α) (c : Ctx α) : setOps v c = (.ok (), { c with st := { c.st with ops := v } }) := rfl
theorem setTrArgs_apply (v : α) (c : Ctx α) : setTrArgs v c = (.ok (), { c with st := { c.st with tr := v } }) := rfl
theorem setTr_apply (v : α) (c : Ctx α) :
    setTr v c = (.ok (), { c with st := { c.st with tr := v, sess := c.st.sess.map (fun _ => v) } }) := rfl
theorem tryFin_apply (m : M α β) (fin : M α Unit) (c : Ctx α) :
    tryFin m fin c = match fin (m c).2 with
      | (.ok _, c'') => ((m c).1, c'')
      | (.error e, c'') => (.error e, c'') := rfl

theorem nbad_withSt (sh : Shape) (q : Bool) (c : Ctx α) (s : St α) : nbad sh q ({ c with st := s } : Ctx α) = nbad sh q c := rfl


theorem tryFin_snd (m : M α β) (fin : M α Unit) (c : Ctx α) : (tryFin m fin c).2 = (fin (m c).2).2 := by
  rw [tryFin_apply]; split <;> rename_i h <;> rw [h]


theorem site_apply (k : Site) (r : Region) (c : Ctx α) :
    site k r c = match (nextEv c.tape).1.exc with
      | none => (.ok (nextEv c.tape).1.flag, (siteEv k r c).2)
      | some x => (.error x, (siteEv k r c).2) := by
  unfold site
  rw [bind_ok (m := siteEv k r) (c' := (siteEv k r c).2) (x := (nextEv c.tape).1) rfl]
  cases (nextEv c.tape).1.exc <;> rfl


/-! ### timeout_modifier -/

theorem inv_timeoutModifier [DecidableEq α] {sh : Shape} {q : Bool} (hmod : sh.modFinally = true) (ov : Ov α)
    {body : M α β} (hb : Inv sh q body) : Inv sh q (timeoutModifier sh ov body) := by
  intro c
  cases ov with
  | none => exact hb c
  | bad => exact Rel.refl
  | num v =>
    unfold timeoutModifier
    simp only [bind_apply, getSt_apply]
    by_cases hv : v = c.st.ops
    · rw [if_pos hv]; exact hb c
    · rw [if_neg hv]
      simp only [bind_apply, setOps_apply, hmod, if_true, tryFin_apply]
      have h := hb { c with st := { c.st with ops := v } }
      have h2 : nbad sh q ({ c with st := { c.st with ops := v } } : Ctx α) = nbad sh q c := rfl
      refine ⟨rfl, ?_, ?_, ?_⟩
      · exact h2 ▸ h.mono
      · intro hn; exact h.tr (by rw [h2]; exact hn)
      · intro hq hn hc; exact h.sess hq (by rw [h2]; exact hn) hc

/-! ### `_read_until_prompt_or_time` -/

theorem readLoop_succ (n : Nat) (c : Ctx α) :
    readLoop (n + 1) c =
      match (nextEv c.tape).1.exc with
      | some x =>
        if x = .timeout then
          (if (nextEv c.tape).1.flag = true then (.ok (), (siteEv .read .chan c).2) else readLoop n (siteEv .read .chan c).2)
        else (.error x, (siteEv .read .chan c).2)
      | none =>
        if (nextEv c.tape).1.flag = true then (.ok (), (siteEv .read .chan c).2) else readLoop n (siteEv .read .chan c).2 := by
  rw [readLoop, bind_ok (m := siteEv .read .chan) (c' := (siteEv .read .chan c).2) (x := (nextEv c.tape).1) rfl]
  unfold suppressTimeout
  cases (nextEv c.tape).1.exc with
  | none =>
    simp only [bind_apply, pure_apply]
    split <;> rfl
  | some x =>
    by_cases hx : x = .timeout
    · simp only [hx, if_true, bind_apply, pure_apply]
      split <;> rfl
    · simp only [hx, if_false, bind_apply, raise_apply]

/-- the read loop never changes the state; an exception that leaves it is recorded as `bad`
    when the restore is not in a `finally` -/
theorem readLoop_spec (sh : Shape) (q : Bool) (n : Nat) (c : Ctx α) :
    (readLoop n c).2.st = c.st ∧ nbad sh q c ≤ nbad sh q (readLoop n c).2 ∧
    (∀ e, (readLoop n c).1 = .error e → sh.chanFinally = false → nbad sh q c < nbad sh q (readLoop n c).2) := by
  induction n generalizing c with
  | zero => exact ⟨rfl, Nat.le_refl _, fun e h => by cases h⟩
  | succ n ih =>
    rw [readLoop_succ]
    have hst := siteEv_st .read .chan c
    have hnb := nbad_siteEv sh q .read .chan c
    have ih1 := ih (siteEv .read .chan c).2
    have hle : nbad sh q c ≤ nbad sh q (siteEv .read .chan c).2 := by rw [hnb]; exact Nat.le_add_right _ _
    have hcont : ∀ r : Except Exc Unit × Ctx α,
        r = (if (nextEv c.tape).1.flag = true then (.ok (), (siteEv .read .chan c).2) else readLoop n (siteEv .read .chan c).2) →
        r.2.st = c.st ∧ nbad sh q c ≤ nbad sh q r.2 ∧
        (∀ e, r.1 = .error e → sh.chanFinally = false → nbad sh q c < nbad sh q r.2) := by
      intro r hr
      by_cases hf : (nextEv c.tape).1.flag = true
      · rw [if_pos hf] at hr; subst hr
        exact ⟨hst, hle, fun e h => by cases h⟩
      · rw [if_neg hf] at hr; subst hr
        refine ⟨ih1.1.trans hst, Nat.le_trans hle ih1.2.1, fun e h hc => ?_⟩
        exact Nat.lt_of_le_of_lt hle (ih1.2.2 e h hc)
    cases hexc : (nextEv c.tape).1.exc with
    | none => exact hcont _ rfl
    | some x =>
      by_cases hx : x = .timeout
      · simp only [hx, if_true]; exact hcont _ rfl
      · simp only [hx, if_false]
        refine ⟨hst, hle, fun e _ hc => ?_⟩
        rw [hnb]
        have : bad sh q (⟨.read, .chan, c.st, (nextEv c.tape).1⟩ : Entry α) = true := by
          simp [bad, badCore, hexc, hc, hx]
        rw [if_pos this]; exact Nat.lt_succ_self _

theorem readTail_spec (sh : Shape) (q : Bool) (fuel : Nat) (prev : α) (c1 : Ctx α) :
    (readTail sh fuel prev c1).2.st.ops = c1.st.ops ∧ (readTail sh fuel prev c1).2.st.sess = c1.st.sess ∧
    nbad sh q c1 ≤ nbad sh q (readTail sh fuel prev c1).2 ∧
    (nbad sh q (readTail sh fuel prev c1).2 = nbad sh q c1 → (readTail sh fuel prev c1).2.st.tr = prev) := by
  obtain ⟨h1, h2, h3⟩ := readLoop_spec sh q fuel c1
  unfold readTail
  by_cases hf : sh.chanFinally = true
  · rw [if_pos hf, tryFin_snd, setTrArgs_apply]
    refine ⟨?_, ?_, h2, fun _ => rfl⟩
    · show (readLoop fuel c1).2.st.ops = _
      rw [h1]
    · show (readLoop fuel c1).2.st.sess = _
      rw [h1]
  · rw [if_neg hf, bind_apply]
    generalize readLoop fuel c1 = r at h1 h2 h3 ⊢
    obtain ⟨res, c2⟩ := r
    have h1' : c2.st = c1.st := h1
    have h2' : nbad sh q c1 ≤ nbad sh q c2 := h2
    cases res with
    | ok u =>
      refine ⟨?_, ?_, h2', fun _ => rfl⟩
      · show c2.st.ops = _
        rw [h1']
      · show c2.st.sess = _
        rw [h1']
    | error e =>
      have hlt : nbad sh q c1 < nbad sh q c2 := h3 e rfl (by simpa using hf)
      refine ⟨by show c2.st.ops = _; rw [h1'], by show c2.st.sess = _; rw [h1'], h2', fun hh => ?_⟩
      have : nbad sh q c2 = nbad sh q c1 := hh
      omega

theorem call_apply (k : Site) (r : Region) (c : Ctx α) :
    call k r c = match (nextEv c.tape).1.exc with
      | none => (.ok (), (siteEv k r c).2)
      | some x => (.error x, (siteEv k r c).2) := by
  unfold call
  rw [bind_apply, site_apply]
  cases (nextEv c.tape).1.exc <;> rfl

/-- the gap never changes the state; a raise there is `bad` unless the swap stands inside a protected try -/
theorem gap_spec (sh : Shape) (q : Bool) (c1 : Ctx α) :
    (callIf' sh.asyncExc c1).2.st = c1.st ∧ nbad sh q c1 ≤ nbad sh q (callIf' sh.asyncExc c1).2 ∧
    (∀ u, (callIf' sh.asyncExc c1).1 = .ok u → nbad sh q (callIf' sh.asyncExc c1).2 = nbad sh q c1) ∧
    (∀ e, (callIf' sh.asyncExc c1).1 = .error e → (sh.chanFinally && sh.chanSwapInTry) = false →
      nbad sh q c1 < nbad sh q (callIf' sh.asyncExc c1).2) := by
  unfold callIf'
  by_cases ha : sh.asyncExc = true
  · rw [if_pos ha, call_apply]
    have hst := siteEv_st .gap .gap c1
    have hnb := nbad_siteEv sh q .gap .gap c1
    cases hexc : (nextEv c1.tape).1.exc with
    | none =>
      have hb : bad sh q (⟨.gap, .gap, c1.st, (nextEv c1.tape).1⟩ : Entry α) = false := by
        simp [bad, badCore, hexc]
      rw [hb] at hnb
      exact ⟨hst, by show nbad sh q c1 ≤ nbad sh q (siteEv .gap .gap c1).2; omega,
        fun _ _ => by show nbad sh q (siteEv .gap .gap c1).2 = _; rw [hnb]; rfl, fun e h => ok_ne_err h⟩
    | some x =>
      refine ⟨hst, by show nbad sh q c1 ≤ nbad sh q (siteEv .gap .gap c1).2; rw [hnb]; exact Nat.le_add_right _ _,
        fun _ h => err_ne_ok h, fun e _ hg => ?_⟩
      have hb : bad sh q (⟨.gap, .gap, c1.st, (nextEv c1.tape).1⟩ : Entry α) = true := by
        simp only [bad, badCore, hexc, ha, hg]; simp
      show nbad sh q c1 < nbad sh q (siteEv .gap .gap c1).2
      rw [hnb, if_pos hb]; exact Nat.lt_succ_self _
  · rw [if_neg ha]
    exact ⟨rfl, Nat.le_refl _, fun _ _ => rfl, fun e h => ok_ne_err h⟩

/-- `_read_until_prompt_or_time` as a whole -/
theorem inv_readUntil {sh : Shape} {q : Bool} (V : ValOps α) (fuel : Nat) (rd : Option α) :
    Inv sh q (readUntilPromptOrTime sh V fuel rd) := by
  intro c
  unfold readUntilPromptOrTime
  simp only [bind_apply, getSt_apply]
  by_cases hg : (sh.chanFinally && sh.chanSwapInTry) = true
  · -- swap, gap and loop all inside the try: whatever happens, the finally puts the saved value back
    rw [if_pos hg, tryFin_snd, setTrArgs_apply]
    rw [bind_apply, setTrArgs_apply]
    dsimp only
    generalize hc1 : ({ c with st := { c.st with tr := V.trunc (rd.getD V.chanDflt) } } : Ctx α) = c1
    have e_ops : c1.st.ops = c.st.ops := by rw [← hc1]
    have e_sess : c1.st.sess = c.st.sess := by rw [← hc1]
    have e_nb : nbad sh q c1 = nbad sh q c := by rw [← hc1]; rfl
    obtain ⟨g1, g2, _, _⟩ := gap_spec sh q c1
    rw [bind_apply]
    generalize callIf' sh.asyncExc c1 = r at g1 g2 ⊢
    obtain ⟨res, c2⟩ := r
    have g1' : c2.st = c1.st := g1
    have g2' : nbad sh q c1 ≤ nbad sh q c2 := g2
    cases res with
    | error e =>
      refine ⟨?_, ?_, fun _ => rfl, fun _ _ _ => ?_⟩
      · show c2.st.ops = _; rw [g1', e_ops]
      · show nbad sh q c ≤ nbad sh q c2; omega
      · show c2.st.sess = _; rw [g1', e_sess]
    | ok u =>
      obtain ⟨h1, h2, _⟩ := readLoop_spec sh q fuel c2
      refine ⟨?_, ?_, fun _ => rfl, fun _ _ _ => ?_⟩
      · show (readLoop fuel c2).2.st.ops = _; rw [h1, g1', e_ops]
      · show nbad sh q c ≤ nbad sh q (readLoop fuel c2).2; omega
      · show (readLoop fuel c2).2.st.sess = _; rw [h1, g1', e_sess]
  · rw [if_neg hg]
    have hg' : (sh.chanFinally && sh.chanSwapInTry) = false := by simpa using hg
    simp only [bind_apply, setTrArgs_apply]
    generalize hc1 : ({ c with st := { c.st with tr := V.trunc (rd.getD V.chanDflt) } } : Ctx α) = c1
    have e_ops : c1.st.ops = c.st.ops := by rw [← hc1]
    have e_sess : c1.st.sess = c.st.sess := by rw [← hc1]
    have e_nb : nbad sh q c1 = nbad sh q c := by rw [← hc1]; rfl
    obtain ⟨g1, g2, g3, g4⟩ := gap_spec sh q c1
    generalize callIf' sh.asyncExc c1 = r at g1 g2 g3 g4 ⊢
    obtain ⟨res, c2⟩ := r
    have g1' : c2.st = c1.st := g1
    have g2' : nbad sh q c1 ≤ nbad sh q c2 := g2
    cases res with
    | error e =>
      have hlt : nbad sh q c1 < nbad sh q c2 := g4 e rfl hg'
      refine ⟨by show c2.st.ops = _; rw [g1', e_ops], by show nbad sh q c ≤ nbad sh q c2; omega, fun h => ?_, fun _ h _ => ?_⟩
      · have : nbad sh q c2 = nbad sh q c := h
        omega
      · have : nbad sh q c2 = nbad sh q c := h
        omega
    | ok u =>
      have g3' : nbad sh q c2 = nbad sh q c1 := g3 u rfl
      dsimp only
      obtain ⟨t1, t2, t3, t4⟩ := readTail_spec sh q fuel c.st.tr c2
      exact ⟨by rw [t1, g1', e_ops], by omega, fun h => t4 (by omega), fun _ _ _ => by rw [t2, g1', e_sess]⟩

/-! ### read_callback -/

/-- the effect of the `timeout_transport` setter on the state -/
def restoreTr (v : α) (s : St α) : St α := { s with tr := v, sess := s.sess.map (fun _ => v) }

theorem restoreTr_restoreTr (s : St α) (x : α) :
    (restoreTr s.tr (restoreTr x s)).ops = s.ops ∧ (restoreTr s.tr (restoreTr x s)).tr = s.tr ∧
    (Coherent s → (restoreTr s.tr (restoreTr x s)).sess = s.sess) := by
  refine ⟨rfl, rfl, ?_⟩
  intro hc
  rcases hc with h | h <;> simp [restoreTr, h]

/-- checking the callbacks never changes the state; an exception raised by a check is `bad`
    when the restore is not in a `finally` -/
theorem checkCbs_spec (sh : Shape) (q : Bool) (cbs : List (Cb α)) (c : Ctx α) :
    (checkCbs cbs c).2.st = c.st ∧ nbad sh q c ≤ nbad sh q (checkCbs cbs c).2 ∧
    (∀ e, (checkCbs cbs c).1 = .error e → sh.cbFinally = false → nbad sh q c < nbad sh q (checkCbs cbs c).2) := by
  induction cbs generalizing c with
  | nil => exact ⟨rfl, Nat.le_refl _, fun e h => by cases h⟩
  | cons cb rest ih =>
    rw [checkCbs, bind_apply, site_apply]
    have hst := siteEv_st .check .cb c
    have hnb := nbad_siteEv sh q .check .cb c
    have hle : nbad sh q c ≤ nbad sh q (siteEv .check .cb c).2 := by rw [hnb]; exact Nat.le_add_right _ _
    have ih1 := ih (siteEv .check .cb c).2
    cases hexc : (nextEv c.tape).1.exc with
    | none =>
      simp only []
      by_cases hf : (nextEv c.tape).1.flag = true
      · rw [if_pos hf]
        exact ⟨hst, hle, fun e h => by cases h⟩
      · rw [if_neg hf]
        exact ⟨ih1.1.trans hst, Nat.le_trans hle ih1.2.1, fun e h hc => Nat.lt_of_le_of_lt hle (ih1.2.2 e h hc)⟩
    | some x =>
      simp only []
      refine ⟨hst, hle, fun e _ hc => ?_⟩
      rw [hnb]
      have : bad sh q (⟨.check, .cb, c.st, (nextEv c.tape).1⟩ : Entry α) = true := by
        simp [bad, badCore, hexc, hc]
      rw [if_pos this]; exact Nat.lt_succ_self _

theorem cbReadExc_apply (sh : Shape) (orig : α) (e : Ev) (c : Ctx α) :
    cbReadExc sh orig e c = match e.exc with
      | none => (.ok (), c)
      | some x => (.error x, if x = .timeout ∧ sh.cbFinally = false then { c with st := restoreTr orig c.st } else c) := by
  unfold cbReadExc
  cases e.exc with
  | none => rfl
  | some x =>
    simp only [bind_apply]
    by_cases h : x = .timeout ∧ sh.cbFinally = false
    · have h' : (decide (x = Exc.timeout) && !sh.cbFinally) = true := by simp [h.1, h.2]
      rw [if_pos h', if_pos h, setTr_apply]; rfl
    · have h' : ¬ (decide (x = Exc.timeout) && !sh.cbFinally) = true := by
        simp only [Bool.and_eq_true, decide_eq_true_eq, Bool.not_eq_true', not_and] at h ⊢
        exact h
      rw [if_neg h', if_neg h, pure_apply]; rfl

theorem cbLoop_succ (sh : Shape) (orig : α) (cbs : List (Cb α)) (n : Nat) (c : Ctx α) :
    cbLoop sh orig cbs (n + 1) c =
      match cbReadExc sh orig (nextEv c.tape).1 (siteEv .read .cb c).2 with
      | (.error x, c1) => (.error x, c1)
      | (.ok _, c1) =>
        match checkCbs cbs c1 with
        | (.error x, c2) => (.error x, c2)
        | (.ok (some cb), c2) => (.ok cb, c2)
        | (.ok none, c2) => cbLoop sh orig cbs n c2 := by
  rw [cbLoop, bind_ok (m := siteEv .read .cb) (c' := (siteEv .read .cb c).2) (x := (nextEv c.tape).1) rfl]
  simp only [bind_apply]
  generalize cbReadExc sh orig (nextEv c.tape).1 (siteEv .read .cb c).2 = r1
  obtain ⟨res1, c1⟩ := r1
  cases res1 with
  | error e => rfl
  | ok u =>
    dsimp only
    generalize checkCbs cbs c1 = r2
    obtain ⟨res2, c2⟩ := r2
    cases res2 with
    | error e => rfl
    | ok m => cases m <;> rfl

theorem cbLoop_zero (sh : Shape) (orig : α) (cbs : List (Cb α)) (c : Ctx α) :
    cbLoop sh orig cbs 0 c =
      (.error .timeout, if sh.cbFinally = false then { c with st := restoreTr orig c.st } else c) := by
  rw [cbLoop, bind_apply, cbReadExc_apply]
  by_cases hf : sh.cbFinally = false <;> simp [hf]

/-- the read loop of read_callback: the state it leaves behind -/
theorem cbLoop_spec (sh : Shape) (q : Bool) (orig : α) (cbs : List (Cb α)) (n : Nat) (c : Ctx α) :
    (cbLoop sh orig cbs n c).2.st.ops = c.st.ops ∧ nbad sh q c ≤ nbad sh q (cbLoop sh orig cbs n c).2 ∧
    (∀ x, (cbLoop sh orig cbs n c).1 = .ok x → (cbLoop sh orig cbs n c).2.st = c.st) ∧
    (∀ e, (cbLoop sh orig cbs n c).1 = .error e → sh.cbFinally = true → (cbLoop sh orig cbs n c).2.st = c.st) ∧
    (∀ e, (cbLoop sh orig cbs n c).1 = .error e → sh.cbFinally = false →
      nbad sh q c < nbad sh q (cbLoop sh orig cbs n c).2 ∨ (cbLoop sh orig cbs n c).2.st = restoreTr orig c.st) := by
  induction n generalizing c with
  | zero =>
    rw [cbLoop_zero]
    by_cases hf : sh.cbFinally = false
    · rw [if_pos hf]
      exact ⟨rfl, Nat.le_refl _, fun x h => err_ne_ok h, fun e _ ht => (by rw [hf] at ht; cases ht),
        fun e _ _ => Or.inr rfl⟩
    · rw [if_neg hf]
      exact ⟨rfl, Nat.le_refl _, fun x h => err_ne_ok h, fun e _ _ => rfl, fun e _ hc => absurd hc hf⟩
  | succ n ih =>
    rw [cbLoop_succ, cbReadExc_apply]
    have hst := siteEv_st .read .cb c
    have hnb := nbad_siteEv sh q .read .cb c
    have hle : nbad sh q c ≤ nbad sh q (siteEv .read .cb c).2 := by rw [hnb]; exact Nat.le_add_right _ _
    cases hexc : (nextEv c.tape).1.exc with
    | some x =>
      dsimp only
      by_cases h : x = .timeout ∧ sh.cbFinally = false
      · rw [if_pos h]
        refine ⟨by simp [restoreTr, hst], hle, fun y hy => err_ne_ok hy, fun e _ ht => ?_, fun e _ _ => Or.inr ?_⟩
        · rw [h.2] at ht; cases ht
        · simp [hst]
      · rw [if_neg h]
        refine ⟨by rw [hst], hle, fun y hy => err_ne_ok hy, fun e _ _ => hst, fun e _ hc => Or.inl ?_⟩
        rw [hnb]
        have hx : x ≠ .timeout := fun hx => h ⟨hx, hc⟩
        have : bad sh q (⟨.read, .cb, c.st, (nextEv c.tape).1⟩ : Entry α) = true := by
          simp [bad, badCore, hexc, hc, hx]
        rw [if_pos this]; exact Nat.lt_succ_self _
    | none =>
      dsimp only
      obtain ⟨k1, k2, k3⟩ := checkCbs_spec sh q cbs (siteEv .read .cb c).2
      generalize checkCbs cbs (siteEv .read .cb c).2 = r at k1 k2 k3 ⊢
      obtain ⟨res, c2⟩ := r
      have k1' : c2.st = c.st := k1.trans hst
      have k2' : nbad sh q c ≤ nbad sh q c2 := Nat.le_trans hle k2
      cases res with
      | error e =>
        dsimp only
        refine ⟨by rw [k1'], k2', fun y hy => err_ne_ok hy, fun _ _ _ => k1', fun e' _ hc => Or.inl ?_⟩
        exact Nat.lt_of_le_of_lt hle (k3 e rfl hc)
      | ok m =>
        cases m with
        | some cb =>
          dsimp only
          exact ⟨by rw [k1'], k2', fun _ _ => k1', fun e h => ok_ne_err h, fun e h => ok_ne_err h⟩
        | none =>
          dsimp only
          obtain ⟨i1, i2, i3, i4, i5⟩ := ih c2
          refine ⟨i1.trans (by rw [k1']), Nat.le_trans k2' i2, fun x hx => (i3 x hx).trans k1',
            fun e he hf => (i4 e he hf).trans k1', fun e he hf => ?_⟩
          rcases i5 e he hf with h | h
          · exact Or.inl (Nat.lt_of_le_of_lt k2' h)
          · exact Or.inr (by rw [h, k1'])

/-- the swapped part of read_callback in the form before 9d6a16c, computed -/
theorem cbSwapPre_apply (sh : Shape) (V : ValOps α) (cbs : List (Cb α)) (fuel : Nat) (rt : α) (c : Ctx α) :
    cbSwapPre sh V cbs fuel rt c =
        match cbLoop sh c.st.tr cbs fuel { c with st := restoreTr (if V.nonneg rt = true then rt else c.st.tr) c.st } with
        | (.ok cb, c2) => (.ok cb, { c2 with st := restoreTr c.st.tr c2.st })
        | (.error e, c2) => (.error e, c2) := by
  unfold cbSwapPre
  simp only [bind_apply, getSt_apply, setTr_apply]
  split <;> rename_i h <;> simp only [restoreTr, h, bind_apply, setTr_apply, pure_apply]

theorem inv_cbSwapPre {sh : Shape} {q : Bool} (hf' : sh.cbFinally = false) (V : ValOps α) (cbs : List (Cb α))
    (fuel : Nat) (rt : α) : Inv sh q (cbSwapPre sh V cbs fuel rt) := by
  intro c
  rw [cbSwapPre_apply]
  have hn : nbad sh q ({ c with st := restoreTr (if V.nonneg rt = true then rt else c.st.tr) c.st } : Ctx α) = nbad sh q c := rfl
  obtain ⟨h1, h2, h3, h4, h5⟩ := cbLoop_spec sh q c.st.tr cbs fuel
    ({ c with st := restoreTr (if V.nonneg rt = true then rt else c.st.tr) c.st } : Ctx α)
  rw [hn] at h2 h5
  generalize cbLoop sh c.st.tr cbs fuel
    ({ c with st := restoreTr (if V.nonneg rt = true then rt else c.st.tr) c.st } : Ctx α) = r at h1 h2 h3 h4 h5 ⊢
  obtain ⟨res, c2⟩ := r
  obtain ⟨r1, r2, r3⟩ := restoreTr_restoreTr c.st (if V.nonneg rt = true then rt else c.st.tr)
  have h2' : nbad sh q c ≤ nbad sh q c2 := h2
  cases res with
  | ok x =>
    have hs : c2.st = restoreTr (if V.nonneg rt = true then rt else c.st.tr) c.st := h3 x rfl
    refine ⟨?_, h2', fun _ => ?_, fun _ _ hc => ?_⟩
    · show (restoreTr c.st.tr c2.st).ops = c.st.ops
      rw [hs]; exact r1
    · show (restoreTr c.st.tr c2.st).tr = c.st.tr
      rw [hs]; exact r2
    · show (restoreTr c.st.tr c2.st).sess = c.st.sess
      rw [hs]; exact r3 hc
  | error e =>
    rcases h5 e rfl hf' with hlt | hs
    · have hlt' : nbad sh q c < nbad sh q c2 := hlt
      refine ⟨h1, h2', fun hh => ?_, fun _ hh _ => ?_⟩
      · have : nbad sh q c2 = nbad sh q c := hh
        omega
      · have : nbad sh q c2 = nbad sh q c := hh
        omega
    · have hs' : c2.st = restoreTr c.st.tr (restoreTr (if V.nonneg rt = true then rt else c.st.tr) c.st) := hs
      refine ⟨?_, h2', fun _ => ?_, fun _ _ hc => ?_⟩
      · rw [hs']; exact r1
      · rw [hs']; exact r2
      · rw [hs']; exact r3 hc

/-! the setter whose push can raise -/

theorem nbad_snoc (sh : Shape) (q : Bool) (c : Ctx α) (s : St α) (t : List Ev) (e : Entry α) :
    nbad sh q ({ st := s, tape := t, log := c.log ++ [e] } : Ctx α) =
      nbad sh q c + (if bad sh q e = true then 1 else 0) := by
  simp [nbad, List.countP_append, List.countP_cons]

theorem setTrP_apply (v : α) (r : Region) (c : Ctx α) :
    setTrP v r c =
      match c.st.sess, (nextEv c.tape).1.exc with
      | none, _ => (.ok (), { c with st := { c.st with tr := v } })
      | some _, none =>
        (.ok (), { st := { c.st with tr := v, sess := some v }, tape := (nextEv c.tape).2,
                   log := c.log ++ [⟨.push, r, { c.st with tr := v }, (nextEv c.tape).1⟩] })
      | some _, some x =>
        (.error x, { st := { c.st with tr := v }, tape := (nextEv c.tape).2,
                     log := c.log ++ [⟨.push, r, { c.st with tr := v }, (nextEv c.tape).1⟩] }) := by
  unfold setTrP
  rw [bind_apply, setTrArgs_apply]
  show push v r _ = _
  unfold push
  cases hs : c.st.sess with
  | none => simp [hs]
  | some w =>
    cases hexc : (nextEv c.tape).1.exc with
    | none => simp [hs, hexc, siteEv]
    | some x => simp [hs, hexc, siteEv]

theorem setTrP_spec (sh : Shape) (q : Bool) (v : α) (r : Region) (c : Ctx α) :
    (setTrP v r c).2.st.ops = c.st.ops ∧ (setTrP v r c).2.st.tr = v ∧
    nbad sh q c ≤ nbad sh q (setTrP v r c).2 ∧
    (∀ u, (setTrP v r c).1 = .ok u →
      (setTrP v r c).2.st.sess = c.st.sess.map (fun _ => v) ∧ nbad sh q (setTrP v r c).2 = nbad sh q c) ∧
    (∀ e, (setTrP v r c).1 = .error e → (setTrP v r c).2.st.sess = c.st.sess ∧
      (q = true → nbad sh q c < nbad sh q (setTrP v r c).2) ∧
      (r = .swap → sh.cbSwapInTry = false → nbad sh q c < nbad sh q (setTrP v r c).2)) := by
  rw [setTrP_apply]
  cases hs : c.st.sess with
  | none =>
    exact ⟨rfl, rfl, Nat.le_refl _, fun _ _ => ⟨hs, rfl⟩, fun e h => ok_ne_err h⟩
  | some w =>
    cases hexc : (nextEv c.tape).1.exc with
    | none =>
      have hb : bad sh q (⟨.push, r, { c.st with tr := v }, (nextEv c.tape).1⟩ : Entry α) = false := by
        simp [bad, badCore, hexc]
      refine ⟨rfl, rfl, ?_, fun _ _ => ⟨rfl, ?_⟩, fun e h => ok_ne_err h⟩
      · show nbad sh q c ≤ nbad sh q ({ st := _, tape := _, log := c.log ++ [_] } : Ctx α)
        rw [nbad_snoc]; exact Nat.le_add_right _ _
      · show nbad sh q ({ st := _, tape := _, log := c.log ++ [_] } : Ctx α) = nbad sh q c
        rw [nbad_snoc, hb]; rfl
    | some x =>
      refine ⟨rfl, rfl, ?_, fun _ h => err_ne_ok h, fun e _ => ⟨hs, fun hq => ?_, fun hr hsw => ?_⟩⟩
      · show nbad sh q c ≤ nbad sh q ({ st := _, tape := _, log := c.log ++ [_] } : Ctx α)
        rw [nbad_snoc]; exact Nat.le_add_right _ _
      · have hb : bad sh q (⟨.push, r, { c.st with tr := v }, (nextEv c.tape).1⟩ : Entry α) = true := by
          simp [bad, hexc, hq]
        show nbad sh q c < nbad sh q ({ st := _, tape := _, log := c.log ++ [_] } : Ctx α)
        rw [nbad_snoc, if_pos hb]; exact Nat.lt_succ_self _
      · have hb : bad sh q (⟨.push, r, { c.st with tr := v }, (nextEv c.tape).1⟩ : Entry α) = true := by
          simp [bad, badCore, hexc, hr, hsw]
        show nbad sh q c < nbad sh q ({ st := _, tape := _, log := c.log ++ [_] } : Ctx α)
        rw [nbad_snoc, if_pos hb]; exact Nat.lt_succ_self _

/-- coherent start: two successful pushes (temporary value, then the saved one) give the session back what it had -/
theorem map_map_coherent (s : St α) (x : α) (hc : Coherent s) :
    (s.sess.map (fun _ => x)).map (fun _ => s.tr) = s.sess := by
  rcases hc with h | h <;> simp [h]

/-- the common tail of both fixed forms: from a context whose state agrees with `c` except for tr/sess, run the
    restoring setter -/
theorem rel_after_restore {sh : Shape} {q : Bool} (c c2 : Ctx α) (x : α)
    (hops : c2.st.ops = c.st.ops) (hmono : nbad sh q c ≤ nbad sh q c2)
    (hsess : q = true → nbad sh q c2 = nbad sh q c → c2.st.sess = c.st.sess.map (fun _ => x)) :
    Rel sh q c (setTrP c.st.tr .none c2).2 := by
  obtain ⟨p1, p2, p3, p4, p5⟩ := setTrP_spec sh q c.st.tr .none c2
  generalize setTrP c.st.tr .none c2 = r at p1 p2 p3 p4 p5 ⊢
  obtain ⟨res, c3⟩ := r
  refine ⟨p1.trans hops, Nat.le_trans hmono p3, fun _ => p2, fun hq hn hc => ?_⟩
  have hn' : nbad sh q c3 = nbad sh q c := hn
  have p3' : nbad sh q c2 ≤ nbad sh q c3 := p3
  cases res with
  | ok u =>
    obtain ⟨g1, _⟩ := p4 u rfl
    have g1' : c3.st.sess = c2.st.sess.map (fun _ => c.st.tr) := g1
    show c3.st.sess = c.st.sess
    rw [g1', hsess hq (by omega)]
    exact map_map_coherent c.st x hc
  | error e =>
    obtain ⟨_, g2, _⟩ := p5 e rfl
    have : nbad sh q c2 < nbad sh q c3 := g2 hq
    omega

theorem inv_cbSwapOut {sh : Shape} {q : Bool} (hf : sh.cbFinally = true) (hsw : sh.cbSwapInTry = false)
    (V : ValOps α) (cbs : List (Cb α)) (fuel : Nat) (rt : α) : Inv sh q (cbSwapOut sh V cbs fuel rt) := by
  intro c
  unfold cbSwapOut
  simp only [bind_apply, getSt_apply]
  obtain ⟨p1, p2, p3, p4, p5⟩ := setTrP_spec sh q (if V.nonneg rt = true then rt else c.st.tr) .swap c
  generalize setTrP (if V.nonneg rt = true then rt else c.st.tr) .swap c = r at p1 p2 p3 p4 p5 ⊢
  obtain ⟨res, c1⟩ := r
  have p3' : nbad sh q c ≤ nbad sh q c1 := p3
  cases res with
  | error e =>
    obtain ⟨_, _, g3⟩ := p5 e rfl
    have hlt : nbad sh q c < nbad sh q c1 := g3 rfl hsw
    refine ⟨p1, p3', fun hh => ?_, fun _ hh _ => ?_⟩
    · have : nbad sh q c1 = nbad sh q c := hh
      omega
    · have : nbad sh q c1 = nbad sh q c := hh
      omega
  | ok u =>
    obtain ⟨g1, g2⟩ := p4 u rfl
    have g1' : c1.st.sess = c.st.sess.map (fun _ => (if V.nonneg rt = true then rt else c.st.tr)) := g1
    have g2' : nbad sh q c1 = nbad sh q c := g2
    dsimp only
    rw [tryFin_snd]
    obtain ⟨h1, h2, h3, h4, _⟩ := cbLoop_spec sh q c.st.tr cbs fuel c1
    have hst : (cbLoop sh c.st.tr cbs fuel c1).2.st = c1.st := by
      generalize cbLoop sh c.st.tr cbs fuel c1 = r2 at h3 h4
      obtain ⟨res2, c2⟩ := r2
      cases res2 with
      | ok x => exact h3 x rfl
      | error e => exact h4 e rfl hf
    apply rel_after_restore c _ (if V.nonneg rt = true then rt else c.st.tr)
    · rw [hst]; exact p1
    · omega
    · intro _ _; rw [hst]; exact g1'

theorem inv_cbSwapIn {sh : Shape} {q : Bool} (hf : sh.cbFinally = true) (hsw : sh.cbSwapInTry = true)
    (V : ValOps α) (cbs : List (Cb α)) (fuel : Nat) (rt : α) : Inv sh q (cbSwapIn sh V cbs fuel rt) := by
  intro c
  unfold cbSwapIn
  simp only [bind_apply, getSt_apply]
  rw [tryFin_snd, bind_apply]
  obtain ⟨p1, p2, p3, p4, p5⟩ := setTrP_spec sh q (if V.nonneg rt = true then rt else c.st.tr) .cb c
  generalize setTrP (if V.nonneg rt = true then rt else c.st.tr) .cb c = r at p1 p2 p3 p4 p5 ⊢
  obtain ⟨res, c1⟩ := r
  have p3' : nbad sh q c ≤ nbad sh q c1 := p3
  cases res with
  | error e =>
    obtain ⟨_, g2, _⟩ := p5 e rfl
    dsimp only
    apply rel_after_restore c c1 (if V.nonneg rt = true then rt else c.st.tr) p1 p3'
    intro hq hn
    have : nbad sh q c < nbad sh q c1 := g2 hq
    have hn' : nbad sh q c1 = nbad sh q c := hn
    omega
  | ok u =>
    obtain ⟨g1, g2⟩ := p4 u rfl
    have g1' : c1.st.sess = c.st.sess.map (fun _ => (if V.nonneg rt = true then rt else c.st.tr)) := g1
    have g2' : nbad sh q c1 = nbad sh q c := g2
    dsimp only
    obtain ⟨h1, h2, h3, h4, _⟩ := cbLoop_spec sh q c.st.tr cbs fuel c1
    have hst : (cbLoop sh c.st.tr cbs fuel c1).2.st = c1.st := by
      generalize cbLoop sh c.st.tr cbs fuel c1 = r2 at h3 h4
      obtain ⟨res2, c2⟩ := r2
      cases res2 with
      | ok x => exact h3 x rfl
      | error e => exact h4 e rfl hf
    apply rel_after_restore c _ (if V.nonneg rt = true then rt else c.st.tr)
    · rw [hst]; exact p1
    · omega
    · intro _ _; rw [hst]; exact g1'

theorem inv_cbSwap {sh : Shape} {q : Bool} (V : ValOps α) (cbs : List (Cb α)) (fuel : Nat) (rt : α) :
    Inv sh q (cbSwap sh V cbs fuel rt) := by
  unfold cbSwap
  by_cases hf : sh.cbFinally = true
  · rw [if_pos hf]
    by_cases hsw : sh.cbSwapInTry = true
    · rw [if_pos hsw]; exact inv_cbSwapIn hf hsw V cbs fuel rt
    · rw [if_neg hsw]; exact inv_cbSwapOut hf (by simpa using hsw) V cbs fuel rt
  · rw [if_neg hf]; exact inv_cbSwapPre (by simpa using hf) V cbs fuel rt

theorem inv_readCallback {sh : Shape} {q : Bool} (V : ValOps α) (cbs : List (Cb α)) :
    ∀ (n : Nat) (init : Bool) (rt : α), Inv sh q (readCallback sh V cbs n init rt)
  | 0, _, _ => by rw [readCallback]; exact inv_raise _
  | n + 1, true, rt => by
    rw [readCallback]
    exact inv_bind (inv_call _ _) (fun _ => inv_readCallback V cbs n false rt)
  | n + 1, false, rt => by
    rw [readCallback]
    exact inv_bind (inv_cbSwap V cbs (n + 1) rt) (fun cb =>
      inv_bind (inv_call _ _) (fun _ => inv_ite (inv_pure _) (inv_readCallback V cbs n false cb.next)))

/-! ### the operations -/

section ops
variable [DecidableEq α] {sh : Shape} {q : Bool} (hmod : sh.modFinally = true)
include hmod

theorem inv_sendCommand1 (ov : Ov α) : Inv sh q (sendCommand1 sh ov) :=
  inv_timeoutModifier hmod ov (inv_bind (inv_call _ _) (fun _ => inv_site _ _))

theorem inv_sendCommandsLoop (ov : Ov α) (stop : Bool) : ∀ n, Inv sh q (sendCommandsLoop sh ov stop n)
  | 0 => by rw [sendCommandsLoop]; exact inv_pure _
  | n + 1 => by
    rw [sendCommandsLoop]
    exact inv_bind (inv_sendCommand1 hmod ov) (fun _ => inv_ite (inv_pure _) (inv_sendCommandsLoop ov stop n))

theorem inv_sendCommands (ov : Ov α) (stop : Bool) (n : Nat) : Inv sh q (sendCommands sh ov stop n) := by
  unfold sendCommands
  exact inv_ite (inv_raise _) (inv_sendCommandsLoop hmod ov stop n)

theorem inv_sendAndRead (V : ValOps α) (fuel : Nat) (ov : Ov α) (rd : Option α) :
    Inv sh q (sendAndRead sh V fuel ov rd) :=
  inv_timeoutModifier hmod ov
    (inv_bind (inv_call _ _) fun _ => inv_bind (inv_call _ _) fun _ => inv_bind (inv_call _ _) fun _ =>
      inv_bind (inv_call _ _) fun _ => inv_readUntil V fuel rd)

theorem inv_sendInteractive (ov : Ov α) : Inv sh q (sendInteractive sh ov) :=
  inv_timeoutModifier hmod ov (inv_bind (inv_call _ _) fun _ => inv_call _ _)

theorem inv_runOp (V : ValOps α) (fuel : Nat) (op : Op α) : Inv sh q (runOp sh V fuel op) := by
  cases op with
  | sendCommand net ov =>
    exact inv_bind (inv_callIf _ _) fun _ => inv_bind (inv_sendCommand1 hmod ov) fun _ => inv_pure _
  | sendCommands net file ov n stop =>
    exact inv_bind (inv_callIf _ _) fun _ => inv_bind (inv_callIf _ _) fun _ =>
      inv_bind (inv_sendCommands hmod ov stop n) fun _ => inv_pure _
  | sendAndRead ov rd => exact inv_sendAndRead hmod V fuel ov rd
  | sendInteractive net ov => exact inv_bind (inv_callIf _ _) fun _ => inv_sendInteractive hmod ov
  | sendConfigs ov n stop acq =>
    exact inv_bind (inv_call _ _) fun _ => inv_bind (inv_callIf _ _) fun _ =>
      inv_bind (inv_sendCommands hmod ov stop n) fun _ => inv_callIf _ _
  | readCallback init rt cbs => exact inv_readCallback V cbs fuel init rt

/-- sequences of calls: every recorded state agrees with the initial one on `timeout_ops`, and on
    everything if no exception escaped an unprotected region anywhere in the run -/
theorem runOps_spec (V : ValOps α) (fuel : Nat) (ops : List (Op α)) (c : Ctx α) :
    Rel sh q c (runOps sh V fuel ops c).2 ∧
    ∀ step ∈ (runOps sh V fuel ops c).1, step.st.ops = c.st.ops ∧
      (nbad sh q (runOps sh V fuel ops c).2 = nbad sh q c →
        step.st.tr = c.st.tr ∧ (q = true → Coherent c.st → step.st.sess = c.st.sess)) := by
  induction ops generalizing c with
  | nil => exact ⟨Rel.refl, fun _ h => by cases h⟩
  | cons op rest ih =>
    rw [runOps]
    have h1 : Rel sh q c (runOp sh V fuel op c).2 := inv_runOp hmod V fuel op c
    obtain ⟨h2, h3⟩ := ih (runOp sh V fuel op c).2
    have hm1 := h1.mono
    have hm2 := h2.mono
    refine ⟨Rel.trans h1 h2, ?_⟩
    intro step hstep
    simp only [List.mem_cons] at hstep
    rcases hstep with rfl | hstep
    · refine ⟨h1.ops, fun hn => ?_⟩
      have e1 : nbad sh q (runOp sh V fuel op c).2 = nbad sh q c := by
        have : nbad sh q (runOps sh V fuel rest (runOp sh V fuel op c).2).2 = nbad sh q c := hn
        omega
      exact ⟨h1.tr e1, fun hq => h1.sess hq e1⟩
    · obtain ⟨g1, g2⟩ := h3 step hstep
      refine ⟨g1.trans h1.ops, fun hn => ?_⟩
      have hn' : nbad sh q (runOps sh V fuel rest (runOp sh V fuel op c).2).2 = nbad sh q c := hn
      have e1 : nbad sh q (runOp sh V fuel op c).2 = nbad sh q c := by omega
      have e2 : nbad sh q (runOps sh V fuel rest (runOp sh V fuel op c).2).2 = nbad sh q (runOp sh V fuel op c).2 := by omega
      obtain ⟨g3, g4⟩ := g2 e2
      refine ⟨g3.trans (h1.tr e1), fun hq hc => ?_⟩
      have hc1 : Coherent (runOp sh V fuel op c).2.st := by
        unfold Coherent at hc ⊢
        rw [h1.tr e1, h1.sess hq e1 hc]; exact hc
      exact (g4 hq hc1).trans (h1.sess hq e1 hc)

end ops

/-- every `_set_timeout` the run performed returned -/
def PushesOk (c : Ctx α) : Prop := ∀ e ∈ c.log, e.site = .push → e.ev.exc = none

instance (c : Ctx α) : Decidable (PushesOk c) := by unfold PushesOk; infer_instance

/-- with every restore protected, the strict count is the number of pushes that raised -/
theorem nbad_strict_fixed (sh : Shape) (hc : sh.chanFinally = true) (hb : sh.cbFinally = true) (hs : sh.cbSwapInTry = true)
    (ha : sh.chanSwapInTry = true ∨ sh.asyncExc = false) (c : Ctx α) (hp : PushesOk c) : nbad sh true c = 0 := by
  unfold nbad
  rw [List.countP_eq_zero]
  intro e he
  have h0 := bad_fixed sh hc hb hs ha e
  simp only [bad, Bool.false_and, Bool.or_false] at h0
  by_cases hsite : e.site = .push
  · simp [bad, h0, hp e he hsite]
  · simp [bad, h0, hsite]

end Scrapli.TimeoutRestore
