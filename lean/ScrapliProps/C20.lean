import ScrapliProps.C20Lemmas
import ScrapliProps.C20Repr
import ScrapliProps.C20ApiLemmas
/-
  C20 — channel log and scrapli log file record the session faithfully.
  Property theorems only (specification and helper lemmas: C20Lemmas.lean; model: ScrapliModel/Log.lean;
  generated constants: ScrapliModel/Gen/LogConsts.lean).

  Quantifiers: EVERY sequence of log records whose own `%`-formatting succeeds (any templates, any
  arguments, lazily formatted or eager, any subset of host / port / uid, any lengths), buffered and
  unbuffered handler, both formats (caller_info on/off), header on/off; EVERY sequence of sessions of
  reads / writes with arbitrary chunk contents for the channel log, every sink.

  `Variant.fixed` is the code with fixes/C20-*.patch applied (/repo since 58f1a8a, 93127cf, f3dbcd6),
  `Variant.legacy` the tree before them (8ae1258); the legacy theorems document the three repaired
  defects F2, F3, F4 and keep their witnesses kernel-checked.
-/
namespace Scrapli.Log
open Scrapli Scrapli.Gen.Log

/-! ## ScrapliFormatter -/

/-- **C20, formatter_total**: for every record — every subset of {host, port, uid} present, any
    values — `formatMessage` does not raise and produces exactly the specified row (and the header
    row in front of the first message); the target column is cut at 25 characters. -/
theorem formatter_total (cfg : FmtCfg) (id : Nat) (r : Rec) (m : Str) :
    formatMessage Variant.fixed cfg id r m = .ok (specFormat cfg id r m) :=
  formatMessage_spec _ cfg id r m (Or.inl rfl)

/-- the whole `Formatter.format`: total on every record whose `msg % args` is defined -/
theorem formatter_total_format (cfg : FmtCfg) (id : Nat) (r : Rec) (hwf : r.wf) :
    format Variant.fixed cfg id r = .ok (specFormat cfg id r (message r)) :=
  format_spec _ cfg id r hwf (Or.inl rfl)

/-- the eight subsets, spelled out: what the target column shows (before the cut at 25) -/
theorem formatter_targets (h p u : Str) (hl : (u ++ [':'] ++ (h ++ [':'] ++ p)).length ≤ 25) :
    specTarget { msg := [] } = [] ∧
    specTarget { msg := [], port := some p } = [] ∧
    specTarget { msg := [], host := some h } = (if h.length ≤ 25 then h else h.take 22 ++ ['.', '.', '.']) ∧
    specTarget { msg := [], host := some h, port := some p, uid := some u } = u ++ [':'] ++ (h ++ [':'] ++ p) := by
  refine ⟨rfl, rfl, ?_, ?_⟩
  · simp [specTarget]
  · simp only [specTarget]
    rw [if_pos hl]

/-- the tree before fixes/C20-formatter-port.patch: the full statement is false (finding F4) … -/
theorem formatter_legacy_refuted :
    ¬ ∀ (cfg : FmtCfg) (id : Nat) (r : Rec) (m : Str), ∃ s, formatMessage Variant.legacy cfg id r m = .ok s := by
  intro h
  obtain ⟨s, hs⟩ := h {} 1 { msg := [], host := some ['d', 'e', 'v', '1'] } []
  revert hs
  simp [formatMessage, Variant.legacy, attr, bind, Except.bind]

/-- … it holds for records that have a port whenever they have a host … -/
theorem formatter_legacy_partial (cfg : FmtCfg) (id : Nat) (r : Rec) (m : Str)
    (h : r.host.isSome = true → r.port.isSome = true) :
    formatMessage Variant.legacy cfg id r m = .ok (specFormat cfg id r m) :=
  formatMessage_spec _ cfg id r m (Or.inr h)

/-- … and for no others: host without port always raised AttributeError -/
theorem formatter_legacy_converse (cfg : FmtCfg) (id : Nat) (r : Rec) (m : Str)
    (h : r.host.isSome = true ∧ r.port.isSome = false) :
    formatMessage Variant.legacy cfg id r m = .error .attributeError := by
  obtain ⟨hh, hp⟩ := h
  cases hhost : r.host with
  | none => simp [hhost] at hh
  | some hv =>
    cases hport : r.port with
    | some pv => simp [hport] at hp
    | none => simp [formatMessage, Variant.legacy, attr, hhost, hport, bind, Except.bind]

/-- scrapli's own loggers (`get_instance_logger`) always set host and port together -/
theorem instance_extras_host_iff_port (host : Str) (port : Nat) (uid : Str) :
    (instanceExtras host port uid).1.isSome = (instanceExtras host port uid).2.1.isSome := by
  unfold instanceExtras
  cases (!host.isEmpty && port != 0) <;> simp

/-! ## ScrapliFileHandler / FileHandler -/

/-- **C20, handler_refines_spec**: for EVERY sequence of well-formed records followed by close(),
    with the buffering handler and with the plain one, in both formats: what is written is exactly
    the specified line for each entry of the sequence — maximal runs of read records replaced by one
    entry carrying the concatenation of their payloads, everything else one line each, in order,
    numbered from 1 — and logging reports no error.
    ASSUMPTION (explicit in the model): the log file's encoding can encode every character
    (`Variant.fixed.asciiStream = false`: UTF-8 — what enable_basic_logging guarantees once
    fixes/C20-log-file-utf8.patch is applied, and what a UTF-8 locale gives before it);
    `handler_ascii_stream_refuted` is the statement without it. -/
theorem handler_refines_spec (cfg : FmtCfg) (buffered : Bool) (recs : List Rec) (hwf : ∀ r ∈ recs, r.wf) :
    runHandler Variant.fixed cfg buffered recs = (specLines cfg 1 (specEntries buffered recs)).map Ev.line := by
  have hok : ∀ r ∈ recs, RecOK Variant.fixed r := fun r hr => ⟨hwf r hr, Or.inl rfl, Or.inl rfl, rfl⟩
  unfold runHandler specEntries
  cases buffered
  · simpa [firstMessageId] using foldl_baseEmit_spec Variant.fixed cfg recs {} hok
  · simpa [runFrom, firstMessageId] using runFrom_spec Variant.fixed cfg rfl recs {} rfl hok

theorem errorCount_map_line (l : List Str) : errorCount (l.map Ev.line) = 0 := by
  induction l with
  | nil => rfl
  | cons a l ih => simp [errorCount] at ih ⊢

theorem fileText_map_line (l : List Str) : fileText (l.map Ev.line) = l.flatMap (· ++ ['\n']) := by
  induction l with
  | nil => rfl
  | cons a l ih =>
    unfold fileText at ih ⊢
    simp only [List.map_cons, List.flatMap_cons, ih]

/-- the file itself, in write and in append mode, and logging's error count -/
theorem handler_file (cfg : FmtCfg) (buffered append : Bool) (old : Str) (recs : List Rec)
    (hwf : ∀ r ∈ recs, r.wf) :
    fileAfter append old (fileText (runHandler Variant.fixed cfg buffered recs))
        = (if append then old else []) ++ specFile cfg buffered recs ∧
    errorCount (runHandler Variant.fixed cfg buffered recs) = 0 := by
  rw [handler_refines_spec cfg buffered recs hwf, errorCount_map_line, fileText_map_line]
  cases append <;> simp [fileAfter, specFile]

/-- **nothing lost, nothing reordered**: flattening the specified entries gives back, in order,
    every non-read message and every character of every read payload of the record sequence … -/
theorem coalesce_loses_nothing (recs : List Rec) :
    (specEntries true recs).flatMap entryAtoms = recs.flatMap recAtoms ∧
    (specEntries false recs).flatMap entryAtoms = recs.flatMap fun r => [Sum.inl (message r)] := by
  refine ⟨by simpa [specEntries] using coalesce_atoms recs, ?_⟩
  simp only [specEntries, Bool.false_eq_true, ↓reduceIte]
  induction recs with
  | nil => rfl
  | cons r rs ih => simp [List.flatMap_cons, entryAtoms, ih]

/-- … and the runs are maximal: no two neighbouring entries are both coalesced read runs
    (together with the previous theorem this determines the entry list) -/
theorem coalesce_maximal (recs : List Rec) : noAdjacentReads (specEntries true recs) = true := by
  simpa [specEntries] using coalesce_noAdjacentReads recs

/-- what a coalesced entry shows: `read : ` + repr of the UTF-8 bytes of the concatenated payload
    texts — the head is the constant generated from `emit_buffered`, the payload starts after the
    generated "read: " prefix -/
theorem coalesced_entry_text (r : Rec) (run rest : List Rec) (hr : isRead r = true)
    (hrun : ∀ x ∈ run, isRead x = true) (hrest : ∀ x, rest.head? = some x → isRead x = false) :
    (coalesce (r :: run ++ rest)).head?.map Entry.text =
      some (bufferedHead ++ reprBytes (encode ((r :: run).flatMap fun x => (message x).drop readPrefix.length))) := by
  have htw : (run ++ rest).takeWhile isRead = run := by
    induction run with
    | nil =>
      cases rest with
      | nil => rfl
      | cons x t => simp [hrest x rfl]
    | cons a run ih =>
      simp [hrun a (by simp), ih (fun x hx => hrun x (by simp [hx]))]
  rw [List.cons_append, coalesce]
  simp [hr, htw, Entry.text, bufferedHead, payloadText, readPrefix]
  rfl

/-- the tree before fixes/C20-lazy-read-records.patch (finding F2): two consecutive lazily formatted
    read records make logging report an error — the full statement is false … -/
theorem handler_legacy_refuted_lazy :
    ¬ ∀ (cfg : FmtCfg) (recs : List Rec), (∀ r ∈ recs, r.wf) →
      runHandler ⟨false, true, true, false⟩ cfg true recs = (specLines cfg 1 (specEntries true recs)).map Ev.line := by
  intro h
  let a : Arg := ⟨"b'abc'".toList, "b'abc'".toList⟩
  let d : Arg := ⟨"b'def'".toList, "b'def'".toList⟩
  have h1 := h {} [{ msg := "read: %r".toList, args := [a] }, { msg := "read: %r".toList, args := [d] },
    { msg := "done".toList }] (by intro r hr; simp at hr; rcases hr with rfl | rfl | rfl <;> exact ⟨_, rfl⟩)
  have h2 := congrArg errorCount h1
  rw [errorCount_map_line] at h2
  revert h2
  decide +kernel

/-- … the tree before fixes/C20-flush-on-close.patch (finding F3): a trailing read record is never
    written — the full statement is false … -/
theorem handler_legacy_refuted_flush :
    ¬ ∀ (cfg : FmtCfg) (recs : List Rec), (∀ r ∈ recs, r.wf) →
      runHandler ⟨true, false, true, false⟩ cfg true recs = (specLines cfg 1 (specEntries true recs)).map Ev.line := by
  intro h
  have h1 := h {} [{ msg := "start".toList }, { msg := "read: b'tail'".toList }]
    (by intro r hr; simp at hr; rcases hr with rfl | rfl <;> exact ⟨_, rfl⟩)
  have h2 := congrArg List.length h1
  revert h2
  simp [specEntries, coalesce, isRead, readPrefix, specLines, List.isPrefixOf]
  decide

/-- … and the unfixed handler is right on sequences whose read records are eager (no args), whose
    records have a port whenever they have a host, and that end with a non-read record (sufficient
    condition; the three `_refuted` witnesses show each part is needed) -/
theorem handler_legacy_partial (cfg : FmtCfg) (pre : List Rec) (p : Rec) (hp : isRead p = false)
    (hwf : ∀ r ∈ pre ++ [p], r.wf)
    (hport : ∀ r ∈ pre ++ [p], r.host.isSome = true → r.port.isSome = true)
    (heager : ∀ r ∈ pre ++ [p], isRead r = true → r.args = []) :
    runHandler Variant.legacy cfg true (pre ++ [p])
      = (specLines cfg 1 (specEntries true (pre ++ [p]))).map Ev.line := by
  have hok : ∀ r ∈ pre ++ [p], RecOK ⟨false, true, false, false⟩ r :=
    fun r hr => ⟨hwf r hr, Or.inr (hport r hr), Or.inr (heager r hr), rfl⟩
  show runHandler ⟨false, false, false, false⟩ cfg true (pre ++ [p]) = _
  rw [runHandler_flush_irrelevant false false false cfg pre p hp]
  unfold runHandler specEntries
  simpa [runFrom, firstMessageId] using runFrom_spec ⟨false, true, false, false⟩ cfg rfl (pre ++ [p]) {} rfl hok

/-- **the file before close()** (what `tail -f` shows, what is left after a crash): write the
    sequence as `body ++ run`, `run` the trailing run of read records (`body` empty or ending with a
    non-read record).  Everything of `body` is in the file, exactly as specified; of `run` nothing yet,
    it is pending in the buffer (carrier = its first record, payload buffer = UTF-8 of the concatenated
    payload texts).  So at most the trailing run is missing, never anything earlier. -/
theorem handler_prefix (cfg : FmtCfg) (body run : List Rec)
    (hbody : body = [] ∨ ∃ pre p, body = pre ++ [p] ∧ isRead p = false)
    (hrun : ∀ r ∈ run, isRead r = true) (hwf : ∀ r ∈ body ++ run, r.wf) :
    let st := (body ++ run).foldl (emit Variant.fixed cfg) {}
    st.out = (specLines cfg 1 (specEntries true body)).map Ev.line ∧
    st.buf = run.head? ∧
    (run ≠ [] → st.msgBuf = encode (run.flatMap payloadText)) := by
  have := foldl_emit_body_run Variant.fixed cfg rfl body run hbody hrun
    (fun r hr => ⟨hwf r hr, Or.inl rfl, Or.inl rfl, rfl⟩)
  simpa [specEntries, firstMessageId] using this

/-- **encoding of the log file** (finding C20-ENC): when the file's encoding is the locale's and
    cannot encode a character (modelled: ASCII), the full statement is false — a message with a
    non-ASCII character is not written and logging reports an error -/
theorem handler_ascii_stream_refuted :
    ¬ ∀ (cfg : FmtCfg) (buffered : Bool) (recs : List Rec), (∀ r ∈ recs, r.wf) →
      runHandler ⟨true, true, true, true⟩ cfg buffered recs
        = (specLines cfg 1 (specEntries buffered recs)).map Ev.line := by
  intro h
  have h1 := h {} false [{ msg := "write: 'café'".toList }] (by intro r hr; simp at hr; subst hr; exact ⟨_, rfl⟩)
  have h2 := congrArg errorCount h1
  rw [errorCount_map_line] at h2
  revert h2
  decide +kernel

/-- … and the header row is lost with it when it was the first message: the file starts at id 2 -/
example :
    runHandler ⟨true, true, true, true⟩ { logHeader := true } false
        [{ msg := "write: 'café'".toList }, { msg := "second".toList }]
      = [Ev.error .unicodeEncodeError,
         Ev.line "2     |  |          |                           | second".toList] := by
  decide +kernel

/-- **attribution**: when all read records of the sequence carry the same target (one connection
    logging: scrapli gives every connection's loggers one host/port/uid), every non-read message and
    every payload character is shown under the target of the record it came from -/
theorem coalesce_attribution (recs : List Rec)
    (hsame : ∀ a ∈ recs, ∀ b ∈ recs, isRead a = true → isRead b = true → specTarget a = specTarget b) :
    (specEntries true recs).flatMap entryAtomsT = recs.flatMap recAtomsT := by
  simpa [specEntries] using coalesce_atomsT recs hsame

/-- … and NOT in general (documented limit of the handler, see design/C20.md): reads of two
    connections that interleave are coalesced into one line under the first one's target.  The
    specification (and the real handler) do this; `handler_refines_spec` cannot notice. -/
theorem coalesce_attribution_mixed_refuted :
    ¬ ∀ recs : List Rec, (specEntries true recs).flatMap entryAtomsT = recs.flatMap recAtomsT := by
  intro h
  have h1 := h [{ msg := "read: a".toList, host := some ['A'], port := some ['1'] },
                { msg := "read: b".toList, host := some ['B'], port := some ['2'] }]
  revert h1
  simp [specEntries, coalesce, isRead, readPrefix, List.isPrefixOf, entryAtomsT, entryAtoms, recAtomsT, recAtoms,
    payloadText, message, getMessage, specTarget]

/-- **ill-formed records, plain handler**: a record whose `msg % args` raises costs exactly one
    logging error and nothing else — the number of errors is the number of ill-formed records -/
theorem unbuffered_error_count (cfg : FmtCfg) (recs : List Rec) :
    errorCount (runHandler Variant.fixed cfg false recs) = (recs.filter fun r => !r.wfb).length := by
  unfold runHandler
  simpa [errorCount] using errorCount_foldl_baseEmit cfg recs {}

/-! ## Ill-formed records through the buffering handler -/

/-- **ill-formed records, buffering handler**: for EVERY record sequence — no well-formedness
    assumed: arity mismatches, args without a directive, incomplete directives, on read and non-read
    records — what the buffering handler writes and reports, in order, is `specEvs`, the specification
    by maximal runs of read records: an ill-formed read record costs one logging error when it is
    logged and neither ends nor feeds the run; the well-formed members of a run are ONE line (columns of
    the first well-formed member, concatenated payloads) written when the run ends, a run without a
    well-formed member writes nothing and uses no id; an ill-formed non-read record ends the run, costs
    one error and uses no id. -/
theorem buffered_illformed_events (cfg : FmtCfg) (recs : List Rec) :
    runHandler Variant.fixed cfg true recs = specEvs cfg 1 recs := by
  have := runFrom_specEvs cfg 1 recs {} rfl rfl
  simpa [runFrom, runHandler] using this

/-- … so the number of logging errors is the number of ill-formed records, buffered or not
    (`unbuffered_error_count` is the plain handler) … -/
theorem buffered_error_count (cfg : FmtCfg) (recs : List Rec) :
    errorCount (runHandler Variant.fixed cfg true recs) = (recs.filter fun r => !r.wfb).length := by
  rw [buffered_illformed_events, errorCount_specEvs]

/-- … and on well-formed sequences the general specification is the coalescing specification of
    `handler_refines_spec` (the two were written independently) -/
theorem illformed_spec_extends_wf (cfg : FmtCfg) (recs : List Rec) (hwf : ∀ r ∈ recs, r.wf) :
    specEvs cfg 1 recs = (specLines cfg 1 (specEntries true recs)).map Ev.line := by
  rw [← buffered_illformed_events, handler_refines_spec cfg true recs hwf]

/-- a sequence inside the quantifier: read, ILL-FORMED read (two directives, one argument), read,
    ill-formed non-read (args without directive), ill-formed read alone, info:
    the two good reads are one line although a bad read sits between them, the lone bad read leaves no line -/
def exBad : List Rec :=
  [{ msg := "read: %r".toList, args := [⟨"b'ab'".toList, "b'ab'".toList⟩] },
   { msg := "read: %r %r".toList, args := [⟨"b'x'".toList, "b'x'".toList⟩] },
   { msg := "read: %r".toList, args := [⟨"b'cd'".toList, "b'cd'".toList⟩] },
   { msg := "plain".toList, args := [⟨"1".toList, "1".toList⟩] },
   { msg := "read: %s".toList, args := [] , levelname := "DEBUG".toList },
   { msg := "read: 100%".toList, args := [⟨"1".toList, "1".toList⟩] },
   { msg := "done".toList }]

example : runHandler Variant.fixed { logHeader := false } true exBad =
    [.error .typeError,
     .line "1     |  |          |                           | read : b\"b'ab'b'cd'\"".toList,
     .error .typeError,
     .error .valueError,
     .line "2     |  | DEBUG    |                           | read : b'%s'".toList,
     .line "3     |  |          |                           | done".toList] := by
  decide +kernel

/-! ## Histories of the logging API (ScrapliModel/LogApi.lean) -/

/-- **C20, api_file_exact**: for EVERY history `pre ++ [enable_basic_logging(a)] ++ post` of calls and
    records, ended by logging.shutdown() or by closing the handlers, and every variant of the handler:
    if the call is valid and `f` is configured by this call only, then at the end
    * the logger has exactly one handler on `f`, it is closed, and its life is that of a freshly
      installed handler fed exactly the records `delivered a.level post` — those logged after the call
      that pass the level in force when they are logged (each later call may change the level) —
      each ONCE, in order, whatever other handlers the earlier and later calls stacked on the logger;
    * the file is what it held before (nothing in write mode: truncated at the call) followed by what
      that handler life writes, `runHandler`: nothing of it is lost at shutdown / close (the pending
      run is flushed), nothing is written twice. -/
theorem api_file_exact (v : Variant) (lvl0 : Nat) (files0 : Nat → Str) (pre post : List ApiOp) (a : EnableArgs)
    (e : ApiEnd) (f : Nat) (m : Str) (hm : basicLoggingMode a.mode = .ok m) (hf : a.file = some f)
    (hpre : ∀ op ∈ pre, configures f op = false) (hpost : ∀ op ∈ post, configures f op = false) :
    let s := runApi v (Api.init lvl0 files0) (pre ++ .enable a :: post) e
    let evs := runHandler v ⟨true, a.callerInfo⟩ a.bufferLog (delivered a.level post)
    s.files f = fileAfter (m == ['a']) (files0 f) (fileText evs) ∧
    ∃ hd, s.handlers.filter (onFile f) = [hd] ∧ hd.closed = true ∧ hd.st.out = evs ∧
      hd.buffered = a.bufferLog ∧ hd.cfg = ⟨true, a.callerInfo⟩ := by
  intro s evs
  have h := runApi_single v lvl0 files0 pre post a e f m hm hf hpre hpost
  have hout := fresh_life_out v f a.bufferLog ⟨true, a.callerInfo⟩ (delivered a.level post)
  have hlife := fresh_life v f a.bufferLog ⟨true, a.callerInfo⟩ (delivered a.level post)
  refine ⟨?_, _, h.1, ?_, hout, ?_, ?_⟩
  · rw [h.2, hout]
    cases (m == ['a']) <;> simp [fileAfter, evs]
  · rw [hlife]
  · rw [hlife]
  · rw [hlife]

/-- **completeness and order per file** (the fixed code, records whose own formatting succeeds): the
    file of a path configured once is its old content (append mode) followed by exactly the specified
    rendering of the delivered records — every record once, in emission order, maximal runs of read
    records coalesced as `specEntries` says, numbered from 1, header first — and its handler reported
    no logging error. -/
theorem api_file_complete_in_order (lvl0 : Nat) (files0 : Nat → Str) (pre post : List ApiOp) (a : EnableArgs)
    (e : ApiEnd) (f : Nat) (m : Str) (hm : basicLoggingMode a.mode = .ok m) (hf : a.file = some f)
    (hpre : ∀ op ∈ pre, configures f op = false) (hpost : ∀ op ∈ post, configures f op = false)
    (hwf : ∀ r ∈ delivered a.level post, r.wf) :
    (runApi Variant.fixed (Api.init lvl0 files0) (pre ++ .enable a :: post) e).files f =
      (if m == ['a'] then files0 f else []) ++ specFile ⟨true, a.callerInfo⟩ a.bufferLog (delivered a.level post) := by
  have h := (api_file_exact Variant.fixed lvl0 files0 pre post a e f m hm hf hpre hpost).1
  rw [h]
  exact (handler_file ⟨true, a.callerInfo⟩ a.bufferLog (m == ['a']) (files0 f) _ hwf).1

/-- **nothing duplicated — NOT in general** (finding C20-DUP): without "no later call configures the
    same path" the statement is false.  `enable_basic_logging` never removes a handler, so a second call
    on the same path (append mode) stacks a second handler on it and every later record is written to
    that file twice (each copy with its own numbering and header row). -/
theorem api_exactly_once_full_refuted :
    ¬ ∀ (files0 : Nat → Str) (pre post : List ApiOp) (a : EnableArgs) (e : ApiEnd) (f : Nat) (m : Str),
        basicLoggingMode a.mode = .ok m → a.file = some f → (∀ op ∈ pre, configures f op = false) →
        (runApi Variant.fixed (Api.init 30 files0) (pre ++ .enable a :: post) e).files f =
          fileAfter (m == ['a']) (files0 f)
            (fileText (runHandler Variant.fixed ⟨true, a.callerInfo⟩ a.bufferLog (delivered a.level post))) := by
  intro h
  have h1 := h (fun _ => []) []
    [.enable { file := some 0, level := 10, mode := "append".toList }, .emit { msg := "once".toList } 20]
    { file := some 0, level := 10, mode := "append".toList } .shutdown 0 ['a'] rfl rfl (by simp)
  have h2 := congrArg List.length h1
  revert h2
  decide +kernel

/-- a path no call configures is left alone -/
theorem api_untouched_file (v : Variant) (lvl0 : Nat) (files0 : Nat → Str) (ops : List ApiOp) (e : ApiEnd) (f : Nat)
    (hops : ∀ op ∈ ops, configures f op = false) :
    (runApi v (Api.init lvl0 files0) ops e).files f = files0 f :=
  runApi_untouched v lvl0 files0 ops e f hops

/-- an invalid `mode` raises after the level has been set and installs nothing -/
theorem api_invalid_mode (v : Variant) (s : Api) (a : EnableArgs) (err : PyErr) (hm : basicLoggingMode a.mode = .error err) :
    (apiStep v s (.enable a)).handlers = s.handlers ∧ (apiStep v s (.enable a)).raised = s.raised + 1 ∧
    (apiStep v s (.enable a)).level = a.level ∧ (apiStep v s (.enable a)).files = s.files := by
  simp [apiStep, hm]

/-- a history inside the quantifiers: a record before any call (dropped: level WARNING, no handler),
    file 0 buffered at debug, two reads, file 1 unbuffered at INFO (the level now hides debug records from
    BOTH files), a hidden read, an info record, an invalid call, a warning, shutdown.
    File 0: the two reads coalesced + info + warning; file 1 (append): old content + info + warning. -/
def exHist : List ApiOp :=
  [.emit { msg := "early".toList } 20,
   .enable { file := some 0, level := 10, bufferLog := true },
   .emit { msg := "read: %r".toList, args := [⟨"b'a'".toList, "b'a'".toList⟩] } 10,
   .emit { msg := "read: %r".toList, args := [⟨"b'b'".toList, "b'b'".toList⟩] } 10,
   .enable { file := some 1, level := 20, bufferLog := false, mode := "Append".toList },
   .emit { msg := "read: b'hidden'".toList } 10,
   .emit { msg := "info".toList } 20,
   .enable { file := some 2, level := 20, mode := "tacocat".toList },
   .emit { msg := "read: b'z'".toList } 30]

example :
    let s := runApi Variant.fixed (Api.init 30 fun f => if f = 1 then "old\n".toList else []) exHist .shutdown
    (s.files 0 = ("ID    | TIMESTAMP               | LEVEL    | (UID:)HOST:PORT           | MESSAGE\n" ++
                  "1     |  |          |                           | read : b\"b'a'b'b'\"\n" ++
                  "2     |  |          |                           | info\n" ++
                  "3     |  |          |                           | read : b\"b'z'\"\n").toList) ∧
    (s.files 1 = ("old\n" ++
                  "ID    | TIMESTAMP               | LEVEL    | (UID:)HOST:PORT           | MESSAGE\n" ++
                  "1     |  |          |                           | info\n" ++
                  "2     |  |          |                           | read: b'z'\n").toList) ∧
    s.files 2 = [] ∧ s.raised = 1 ∧ s.handlers.length = 2 ∧
    (delivered 30 exHist).length = 4 ∧ (delivered 10 (exHist.drop 2)).length = 4 := by
  decide +kernel

/-! ## Channel log -/

/-- **C20, channel_log_exact**: for every sink and every session `open, reads/writes …, close`
    — any number of reads, any chunk contents — the sink holds (`sessionDest`) what it held before
    (nothing for a path opened in write mode) followed by the CR-stripped concatenation of all chunks
    read: each once, in order; with channel_log off nothing is written.  Every read and write also produces its
    log record, in order. -/
theorem channel_log_exact (sink : Sink) (base : Rec) (old : Bytes) (ops : List ChanOp)
    (hio : ∀ o ∈ ops, isIO o = true) :
    let s := chanRun sink base { dest := old } (session ops)
    s.dest = sessionDest sink old (stripCR (readsOf ops).flatten) ∧
    s.recs = recsOf base ops ∧ s.handle = openAfterClose sink := by
  simp [chanRun_session sink base ops hio { dest := old } (fun _ => rfl)]

/-- what `sessionDest` says, sink by sink -/
theorem sessionDest_cases (old x : Bytes) :
    sessionDest .off old x = old ∧ sessionDest (.path false) old x = x ∧
    sessionDest (.path true) old x = old ++ x ∧ sessionDest .bytesio old x = old ++ x :=
  ⟨rfl, rfl, rfl, rfl⟩

/-- any number of sessions, every sink: append mode and a BytesIO (which the channel never closes)
    accumulate every session, write mode keeps the last one (each `open()` truncates), nothing is
    written with the log off; and the log records of all sessions are produced in order -/
theorem channel_log_sessions (sink : Sink) (base : Rec) (old : Bytes) (sessions : List (List ChanOp))
    (hio : ∀ l ∈ sessions, ∀ o ∈ l, isIO o = true) :
    (chanRun sink base { dest := old } (sessions.flatMap session)).dest = sessionsDest sink old sessions ∧
    (chanRun sink base { dest := old } (sessions.flatMap session)).recs = sessions.flatMap (recsOf base) := by
  have := chanRun_sessions sink base sessions hio { dest := old } (fun _ => rfl)
  simpa using this

theorem sessionsDest_cases (old : Bytes) (sessions : List (List ChanOp)) (l : List ChanOp) :
    sessionsDest .off old sessions = old ∧
    sessionsDest (.path true) old sessions = old ++ stripCR (sessions.flatMap readsOf).flatten ∧
    sessionsDest .bytesio old sessions = old ++ stripCR (sessions.flatMap readsOf).flatten ∧
    sessionsDest (.path false) old [] = old ∧
    sessionsDest (.path false) old (sessions ++ [l]) = stripCR (readsOf l).flatten := by
  refine ⟨rfl, rfl, rfl, rfl, ?_⟩
  simp [sessionsDest]

/-- the channel log does not depend on how the device's bytes were cut into reads -/
theorem channel_log_chunking_independent (sink : Sink) (base : Rec) (old : Bytes) (ops₁ ops₂ : List ChanOp)
    (h₁ : ∀ o ∈ ops₁, isIO o = true) (h₂ : ∀ o ∈ ops₂, isIO o = true)
    (hsame : (readsOf ops₁).flatten = (readsOf ops₂).flatten) :
    (chanRun sink base { dest := old } (session ops₁)).dest
      = (chanRun sink base { dest := old } (session ops₂)).dest := by
  rw [chanRun_session sink base ops₁ h₁ _ (fun _ => rfl), chanRun_session sink base ops₂ h₂ _ (fun _ => rfl), hsame]

/-- CR stripping is per byte: it commutes with concatenation of reads -/
theorem stripCR_spec (l : List Bytes) :
    stripCR l.flatten = (l.map stripCR).flatten ∧ ∀ b ∈ stripCR l.flatten, b ≠ 13 := by
  refine ⟨stripCR_flatten l, ?_⟩
  intro b hb
  have := (List.mem_filter.mp hb).2
  simpa [strippedByte] using this

/-- **channel → log file**: the records of a session of reads only, pushed through the buffering
    handler and closed, give ONE line whose payload is the concatenation of the reprs of the
    CR-stripped chunks — the channel's generated template "read: %r" is recognised by the handler's
    generated prefix, and a trailing run is flushed by close() -/
theorem session_log_file (cfg : FmtCfg) (base : Rec) (c : Bytes) (cs : List Bytes) :
    runHandler Variant.fixed cfg true ((c :: cs).map fun x => readRec base (stripCR x))
      = [Ev.line (specFormat cfg 1 base
          (bufferedHead ++ reprBytes (encode ((c :: cs).flatMap fun x => reprBytes (stripCR x)))))] := by
  have hwf : ∀ r ∈ (c :: cs).map (fun x => readRec base (stripCR x)), r.wf := by
    intro r hr
    obtain ⟨x, _, rfl⟩ := List.mem_map.mp hr
    exact ⟨_, readRec_message base _⟩
  rw [handler_refines_spec cfg true _ hwf]
  have hall : ∀ l : List Bytes, (l.map fun x => readRec base (stripCR x)).takeWhile isRead
      = l.map fun x => readRec base (stripCR x) := by
    intro l
    induction l with
    | nil => rfl
    | cons a l ih => simp [readRec_isRead, ih]
  have hnone : ∀ l : List Bytes, (l.map fun x => readRec base (stripCR x)).dropWhile isRead = [] := by
    intro l
    induction l with
    | nil => rfl
    | cons a l ih => simp [readRec_isRead, ih]
  have hpay : ∀ x : Bytes, payloadText (readRec base (stripCR x)) = reprBytes (stripCR x) := by
    intro x
    simp [payloadText, message, readRec_message, readPrefix]
  have hflat : ∀ l : List Bytes, (l.map fun x => readRec base (stripCR x)).flatMap payloadText
      = l.flatMap fun x => reprBytes (stripCR x) := by
    intro l
    induction l with
    | nil => rfl
    | cons a l ih => simp [List.flatMap_cons, hpay, ih]
  have hlist : (c :: cs).map (fun x => readRec base (stripCR x))
      = readRec base (stripCR c) :: cs.map (fun x => readRec base (stripCR x)) := rfl
  simp only [specEntries, ↓reduceIte]
  rw [hlist, coalesce]
  simp only [readRec_isRead, ↓reduceIte, hall, hnone, coalesce, specLines, List.map_cons, List.map_nil, Entry.text]
  rw [← hlist, hflat]
  rfl

/-- **lossless rendering**: the text shown for a payload determines the payload — for a channel
    read record the CR-stripped chunk, for a coalesced run the UTF-8 bytes of the concatenated payload
    texts — whatever quotes, backslashes, percent signs, control or non-UTF-8 bytes they contain -/
theorem payload_rendering_lossless (a b : Bytes) (p₁ p₂ : Str) (r₁ r₂ : Rec) :
    (reprBytes a = reprBytes b → a = b) ∧
    (Entry.text ⟨r₁, .reads p₁⟩ = Entry.text ⟨r₂, .reads p₂⟩ → encode p₁ = encode p₂) := by
  refine ⟨reprBytes_injective a b, ?_⟩
  intro h
  simp only [Entry.text] at h
  exact reprBytes_injective _ _ (List.append_cancel_left h)

/-- write records are never mistaken for read records, and they are always well formed -/
theorem write_records_plain (base : Rec) (i ri : Str) (red : Bool) :
    isRead (writeRec base i ri red) = false ∧ (writeRec base i ri red).wf :=
  ⟨writeRec_not_isRead base i ri red, writeRec_wf base i ri red⟩

/-! ## The data regenerated from the source is the data the property speaks about -/

theorem consts_as_specified :
    readPrefix = "read: ".toList ∧ bufferedHead = "read : ".toList ∧
    chanReadTemplate = "read: %r".toList ∧ chanWriteTemplate = "write: %r".toList ∧
    chanWriteRedacted = "write: REDACTED".toList ∧ strippedByte = 13 ∧
    targetLimit = 25 ∧ targetKeep + ellipsis.length = targetLimit ∧
    callerLimit = 20 ∧ callerKeep + ellipsis.length = callerLimit ∧ firstMessageId = 1 := by
  decide

/-- `enable_basic_logging(mode=…)`: exactly "write" and "append" (in any ASCII case) are accepted and
    give file modes "w" and "a" (`.lower()` is checked by the translator to be what the code compares) -/
theorem basic_logging_modes_iff (m x : Str) :
    basicLoggingMode m = .ok x ↔
      (m.map Char.toLower = "write".toList ∧ x = ['w']) ∨ (m.map Char.toLower = "append".toList ∧ x = ['a']) := by
  unfold basicLoggingMode logModes
  generalize m.map Char.toLower = k
  simp only [List.lookup]
  by_cases h1 : k = ['a', 'p', 'p', 'e', 'n', 'd']
  · subst h1; simp; constructor <;> intro h <;> simp_all [eq_comm]
  · by_cases h2 : k = ['w', 'r', 'i', 't', 'e']
    · subst h2; simp; constructor <;> intro h <;> simp_all [eq_comm]
    · have e1 : (k == ['a', 'p', 'p', 'e', 'n', 'd']) = false := by simpa using h1
      have e2 : (k == ['w', 'r', 'i', 't', 'e']) = false := by simpa using h2
      simp [e1, e2, h1, h2]

/-- instances of the previous theorem -/
theorem basic_logging_modes :
    (basicLoggingMode "write".toList).toOption = some ['w'] ∧
    (basicLoggingMode "Append".toList).toOption = some ['a'] ∧
    (basicLoggingMode "tacocat".toList).toOption = none ∧ (basicLoggingMode []).toOption = none ∧
    logModes.length = 2 := by
  decide

/-- `%`-formatting of a template that starts with a `%`-free literal keeps the literal: the text
    after "read: " of a lazily formatted read record is the rendering of its arguments -/
theorem lazy_read_payload (t : Str) (as : List Arg) :
    pyFormat (readPrefix ++ t) as = (pyFormat t as).map (readPrefix ++ ·) :=
  pyFormat_prefix readPrefix t as (by decide)

/-! ## Non-vacuity: concrete values inside the quantifiers -/

def exBytes : Arg := ⟨"b'it\\'s 100%'".toList, "b'it\\'s 100%'".toList⟩

/-- lazily formatted reads (one with quote and percent sign), an eager read, a write, an info record
    with host only, a trailing read -/
def exRecs : List Rec :=
  [{ msg := "read: %r".toList, args := [⟨"b'abc'".toList, "b'abc'".toList⟩], host := some "sim".toList, port := some "22".toList },
   { msg := "read: %r".toList, args := [exBytes], host := some "sim".toList, port := some "22".toList },
   { msg := "read: b'\\xff'".toList },
   { msg := "write: %r".toList, args := [⟨"'show version'".toList, "show version".toList⟩], uid := some "u1".toList },
   { msg := "opening %s 100%%".toList, args := [⟨"'x'".toList, "x".toList⟩], host := some "router-with-a-long-name.example.net".toList },
   { msg := "read: %r".toList, args := [⟨"b'r1#'".toList, "b'r1#'".toList⟩] }]

example : ∀ r ∈ exRecs, r.wf := by
  intro r hr
  simp [exRecs] at hr
  rcases hr with rfl | rfl | rfl | rfl | rfl | rfl <;> exact ⟨_, rfl⟩

/-- the handler really coalesces on this sequence: 6 records, 4 lines, no error; unbuffered 6 lines -/
example : (runHandler Variant.fixed {} true exRecs).length = 4 ∧ errorCount (runHandler Variant.fixed {} true exRecs) = 0 ∧
    (runHandler Variant.fixed {} false exRecs).length = 6 ∧
    (runHandler Variant.legacy {} true exRecs).length = 3 ∧ errorCount (runHandler Variant.legacy {} true exRecs) = 2 := by
  decide +kernel

/-- a channel session inside the quantifier of `channel_log_exact`: CR split from its LF across reads -/
def exOps : List ChanOp :=
  [.write "\n".toList "'\\n'".toList false, .read [114, 49, 35, 13], .read [10, 13, 13, 10, 27, 91, 48, 109],
   .write "pw".toList [] true, .read [], .read [13]]

example : (∀ o ∈ exOps, isIO o = true) ∧
    (chanRun (.path true) {msg := []} { dest := [111] } (session exOps)).dest = [111, 114, 49, 35, 10, 10, 27, 91, 48, 109] ∧
    (chanRun (.path false) {msg := []} { dest := [111] } (session exOps)).dest = [114, 49, 35, 10, 10, 27, 91, 48, 109] ∧
    (chanRun .off {msg := []} { dest := [111] } (session exOps)).dest = [111] ∧
    (chanRun .bytesio {msg := []} { dest := [] } ([exOps, exOps].flatMap session)).dest
      = [114, 49, 35, 10, 10, 27, 91, 48, 109, 114, 49, 35, 10, 10, 27, 91, 48, 109] := by
  decide

end Scrapli.Log
