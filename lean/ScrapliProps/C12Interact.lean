import ScrapliProps.C01
/-
  C12, the premise behind the "flows through the device are not tracked" rule of the flow graph:
  **a hidden input is typed only at the prompt it was meant for.**  Corollary of C01's `interact_exact`
  (the model of `send_inputs_interact` against a scripted dialogue device, every segmentation,
  following fix c887324): once an exchange ends on an interaction-complete pattern instead of the
  event's own expected response, nothing further is written — in particular not the hidden input of a
  later event (before c887324 it was typed at an ordinary, echoing prompt: finding C12-F2 / C04-F23).
  What remains an ASSUMPTION (environment): the device does not echo at the expected (password)
  prompt.
-/
namespace Scrapli.Chan

theorem consumed_append_of_ends (complete : List Bytes) : ∀ (pre rest : List (Ev × Step)),
    (∃ e ∈ pre, e.2.ends complete = true) → consumed complete (pre ++ rest) = consumed complete pre := by
  intro pre
  induction pre with
  | nil => intro rest h; obtain ⟨e, he, _⟩ := h; cases he
  | cons p pre ih =>
    intro rest h
    simp only [List.cons_append, consumed]
    by_cases hp : p.2.ends complete = true
    · simp [hp]
    · simp only [hp]
      obtain ⟨e, he, hee⟩ := h
      rcases List.mem_cons.mp he with rfl | he'
      · exact absurd hee hp
      · simp [ih rest ⟨e, he', hee⟩]

theorem consumed_prefix (complete : List Bytes) : ∀ (ps : List (Ev × Step)), consumed complete ps <+: ps := by
  intro ps
  induction ps with
  | nil => simp [consumed]
  | cons p ps ih =>
    unfold consumed
    split
    · exact ⟨ps, rfl⟩
    · exact (List.prefix_cons_inj p).mpr ih

/-- **the hidden input is not typed after the session ended**: events `pre ++ (ev, st) :: post` (each
    with the exchange that answers it, inside C01's quantifier), completion patterns given.  If some
    exchange before `ev` did not end on its event's expected response (so, by `GoodStep.stops`, on a
    completion pattern), then everything written during the whole call is the inputs (each followed
    by one return) of a PREFIX of `pre`: the input of `ev` — e.g. `auth_secondary` in `_escalate`
    when the device answers `enable` with the privileged prompt — is never written. -/
theorem input_not_typed_after_session_end {cfg : Cfg} {complete : List Bytes} (hstrict : cfg.rough = false)
    (hret : IsRet cfg.ret) (hc : complete ≠ []) (pre : List (Ev × Step)) (ev : Ev) (st : Step)
    (post : List (Ev × Step)) (extra : List Step)
    (hg : ∀ p ∈ pre ++ (ev, st) :: post, ∃ Pr Pc, GoodStep cfg complete Pr Pc p.1 p.2)
    (w : Wire) (hres : ∀ x ∈ w.avail, isHws x = true) (hheld : w.held = [])
    (hearly : ∃ e ∈ pre, e.2.isResp = false) :
    ∃ res w' rest, sendInputsInteract cfg scriptDev ((pre ++ (ev, st) :: post).map (·.1)) complete
        (w, (pre ++ (ev, st) :: post).map (·.2) ++ extra) = some (res, (w', rest)) ∧
      ∃ done, done <+: pre ∧ w'.writes = w.writes ++ (done.map (fun p => [p.1.1, cfg.ret])).flatten := by
  obtain ⟨raw, w', h1, _, _, _, h5, _⟩ :=
    interact_exact hstrict hret (pre ++ (ev, st) :: post) extra hg w hres hheld
  have hends : ∃ e ∈ pre, e.2.ends complete = true := by
    obtain ⟨e, he, hr⟩ := hearly
    obtain ⟨Pr, Pc, hgood⟩ := hg e (List.mem_append_left _ he)
    refine ⟨e, he, ?_⟩
    have hs := hgood.stops
    rw [hr] at hs
    have hcm : e.2.isComplete = true := by simpa using hs
    have hne : complete.isEmpty = false := by
      cases complete with
      | nil => exact absurd rfl hc
      | cons _ _ => rfl
    simp [Step.ends, hr, hcm, hne]
  rw [consumed_append_of_ends complete pre _ hends] at h5
  exact ⟨_, w', _, h1, consumed complete pre, consumed_prefix complete pre, h5⟩

end Scrapli.Chan
