import ScrapliModel.Factory
/-
  Helper lemmas + specification definitions for the factory half of C18.
-/
namespace Scrapli.Factory

/-! ## specification -/

/-- the keywords the factory forwards by name -/
def Tables.forwarded (t : Tables) : List String := t.call.map (·.1)

/-- **what the user supplied** as seen from the driver: every keyword of the call except `platform` and
    `variant`; a factory parameter passed as `None` counts as not supplied (that is the parameter's
    default); keywords the factory has no parameter for are passed through whatever their value -/
def supplied (t : Tables) (call : Kw) (k : String) : Option PyVal :=
  if k = "platform" ∨ k = "variant" then none
  else match get call k with
    | some none => if t.newSig.names.contains k then none else some none
    | r => r

def sameSet (a b : List String) : Bool := a.all b.contains && b.all a.contains

/-- the shape the model's proofs need from the generated tables (decided on the generated instance) -/
def Tables.ok (t : Tables) : Bool :=
  t.newSig.varKw && t.fwd && t.bpkSig.varKw
  && t.call.all (fun e => e.1 == e.2)
  && t.bpkDict.all (fun e => e.1 == e.2)
  && sameSet t.forwarded (t.newSig.names.filter (fun n => !(n == "platform" || n == "variant")))
  && sameSet t.forwarded t.bpkSig.names
  && sameSet t.forwarded (t.bpkDict.map (·.1))
  && t.newSig.params.all (fun p => if p.name == "platform" || p.name == "host" then p.dflt == none else p.dflt == some none)
  && t.newSig.names.contains "platform" && t.newSig.names.contains "variant" && t.newSig.names.contains "host"
  && t.newSig.names.contains "transport"
  && t.filter == FilterKind.isNotNone
  && t.bpkReturn == ["_provided_args", "kwargs"]
  && t.finalMerge == ["additional_kwargs", "provided_kwargs"]

/-! ## dict lemmas -/

theorem get_append (a b : Kw) (k : String) :
    get (a ++ b) k = match get a k with | some v => some v | none => get b k := by
  induction a with
  | nil => rfl
  | cons e r ih =>
    simp only [List.cons_append, get]
    split <;> simp_all

theorem get_filter_key (d : Kw) (p : String → Bool) (k : String) :
    get (d.filter (fun e => p e.1)) k = if p k then get d k else none := by
  induction d with
  | nil => simp [get]
  | cons e r ih =>
    simp only [List.filter_cons]
    by_cases hp : p e.1 = true
    · simp only [hp, if_true, get, ih]
      by_cases hk : e.1 = k
      · subst hk; simp [hp]
      · simp [hk]
    · simp only [hp, Bool.false_eq_true, if_false, ih, get]
      by_cases hk : e.1 = k
      · subst hk; simp [hp]
      · simp [hk]

theorem get_map_fn (keys : List String) (g : String → PyVal) (k : String) :
    get (keys.map (fun x => (x, g x))) k = if k ∈ keys then some (g k) else none := by
  induction keys with
  | nil => simp [get]
  | cons x r ih =>
    simp only [List.map_cons, get, ih, List.mem_cons]
    by_cases hk : x = k
    · subst hk; simp
    · have : ¬ k = x := fun h => hk h.symm
      simp [hk, this]

theorem get_filter_fn (keys : List String) (g : String → PyVal) (q : PyVal → Bool) (k : String) :
    get ((keys.map (fun x => (x, g x))).filter (fun e => q e.2)) k
      = if k ∈ keys ∧ q (g k) = true then some (g k) else none := by
  induction keys with
  | nil => simp [get]
  | cons x r ih =>
    simp only [List.map_cons, List.filter_cons, List.mem_cons]
    by_cases hk : x = k
    · subst hk
      by_cases hq : q (g x) = true
      · simp [hq, get]
      · simp [hq, ih]
    · have : ¬ k = x := fun h => hk h.symm
      by_cases hq : q (g x) = true
      · simp [hq, get, hk, this, ih]
      · simp [hq, this, ih]

theorem allSome_map {α β : Type} (l : List α) (f : α → Option β) (g : α → β) (h : ∀ x ∈ l, f x = some (g x)) :
    allSome (l.map f) = some (l.map g) := by
  induction l with
  | nil => rfl
  | cons x r ih =>
    simp only [List.map_cons, h x (by simp), allSome, ih (fun y hy => h y (List.mem_cons_of_mem _ hy)), Option.map_some]

theorem sameSet_mem {a b : List String} (h : sameSet a b = true) (k : String) : k ∈ a ↔ k ∈ b := by
  simp only [sameSet, Bool.and_eq_true, List.all_eq_true, List.contains_iff_mem] at h
  exact ⟨h.1 k, h.2 k⟩

/-! ## binding -/

theorem bindCall_ok (sig : Sig) (call : Kw) (hv : sig.varKw = true)
    (hp : ∀ p ∈ sig.params, (get call p.name).isSome = true ∨ p.dflt = some none) :
    bindCall sig call = .ok (sig.params.map (fun p => (p.name, val call p.name)),
                             call.filter (fun e => !sig.names.contains e.1)) := by
  have h1 : allSome (sig.params.map (bindParam call)) = some (sig.params.map (fun p => (p.name, val call p.name))) := by
    apply allSome_map
    intro p hpm
    simp only [bindParam, val]
    cases hg : get call p.name with
    | some v => simp
    | none =>
      rcases hp p hpm with h | h
      · simp [hg] at h
      · simp [h]
  simp [bindCall, hv, h1]

theorem get_params (ps : List Param) (g : String → PyVal) (k : String) :
    get (ps.map (fun p => (p.name, g p.name))) k = if k ∈ ps.map (·.name) then some (g k) else none := by
  have := get_map_fn (ps.map (·.name)) g k
  simpa [List.map_map, Function.comp_def] using this

/-- the facts packed in `Tables.ok` -/
structure OK (t : Tables) : Prop where
  varKw : t.newSig.varKw = true
  fwd : t.fwd = true
  bvarKw : t.bpkSig.varKw = true
  callOwn : ∀ e ∈ t.call, e.1 = e.2
  dictOwn : ∀ e ∈ t.bpkDict, e.1 = e.2
  fNew : ∀ k, k ∈ t.forwarded ↔ (k ∈ t.newSig.names ∧ k ≠ "platform" ∧ k ≠ "variant")
  fBpk : ∀ k, k ∈ t.forwarded ↔ k ∈ t.bpkSig.names
  fDict : ∀ k, k ∈ t.forwarded ↔ k ∈ t.bpkDict.map (·.1)
  dflt : ∀ p ∈ t.newSig.params, (p.name = "platform" ∨ p.name = "host") ∨ p.dflt = some none
  hasP : "platform" ∈ t.newSig.names
  hasV : "variant" ∈ t.newSig.names
  hasH : "host" ∈ t.newSig.names
  hasT : "transport" ∈ t.newSig.names
  filter : t.filter = FilterKind.isNotNone
  ret : t.bpkReturn = ["_provided_args", "kwargs"]
  fin : t.finalMerge = ["additional_kwargs", "provided_kwargs"]

theorem ok_OK {t : Tables} (h : t.ok = true) : OK t := by
  simp only [Tables.ok, Bool.and_eq_true, and_assoc] at h
  obtain ⟨h1, h2, h3, h4, h5, h6, h7, h8, h9, h10, h11, h12, h13, h14, h15, h16⟩ := h
  refine ⟨h1, h2, h3, ?_, ?_, ?_, sameSet_mem h7, sameSet_mem h8, ?_,
    List.contains_iff_mem.mp h10, List.contains_iff_mem.mp h11, List.contains_iff_mem.mp h12,
    List.contains_iff_mem.mp h13, ?_, ?_, ?_⟩
  · intro e he; simpa using (List.all_eq_true.mp h4) e he
  · intro e he; simpa using (List.all_eq_true.mp h5) e he
  · intro k
    rw [sameSet_mem h6 k, List.mem_filter]
    simp
  · intro p hp
    have := (List.all_eq_true.mp h9) p hp
    by_cases hn : p.name = "platform" ∨ p.name = "host"
    · exact Or.inl hn
    · right
      have hb : (p.name == "platform" || p.name == "host") = false := by
        simp only [not_or] at hn; simp [hn.1, hn.2]
      simpa [hb] using this
  · simpa using h14
  · simpa using h15
  · simpa using h16

/-! ## the chain `__new__` → call site → `_build_provided_kwargs_dict` -/

/-- locals of `__new__` and its `**kwargs` -/
def newLocals (t : Tables) (call : Kw) : Kw := t.newSig.params.map (fun p => (p.name, val call p.name))
def newKwargs (t : Tables) (call : Kw) : Kw := call.filter (fun e => !t.newSig.names.contains e.1)
/-- the keyword set `_build_provided_kwargs_dict` is called with -/
def bpkArgs (t : Tables) (call : Kw) : Kw := t.forwarded.map (fun x => (x, val call x)) ++ newKwargs t call

theorem new_bind {t : Tables} (o : OK t) (call : Kw) (hp : (get call "platform").isSome = true)
    (hh : (get call "host").isSome = true) :
    bindCall t.newSig call = .ok (newLocals t call, newKwargs t call) := by
  apply bindCall_ok _ _ o.varKw
  intro p hpm
  rcases o.dflt p hpm with (h | h) | h
  · left; rw [h]; exact hp
  · left; rw [h]; exact hh
  · right; exact h

theorem get_newLocals (t : Tables) (call : Kw) (k : String) :
    get (newLocals t call) k = if k ∈ t.newSig.names then some (val call k) else none :=
  get_params _ _ _

theorem val_newLocals (t : Tables) (call : Kw) (k : String) (hk : k ∈ t.newSig.names) :
    val (newLocals t call) k = val call k := by
  simp only [val, get_newLocals, hk, if_true, Option.getD_some]

theorem get_newKwargs (t : Tables) (call : Kw) (k : String) :
    get (newKwargs t call) k = if k ∈ t.newSig.names then none else get call k := by
  have := get_filter_key call (fun x => !t.newSig.names.contains x) k
  simp only [newKwargs, this]
  by_cases h : k ∈ t.newSig.names <;> simp [h]

theorem callSite_ok {t : Tables} (o : OK t) (call : Kw) :
    callSite t.call t.fwd (newLocals t call) (newKwargs t call) = .ok (bpkArgs t call) := by
  have h1 : allSome (t.call.map (fun e => (get (newLocals t call) e.2).map (fun v => (e.1, v))))
      = some (t.call.map (fun e => (e.1, val call e.1))) := by
    apply allSome_map
    intro e he
    have hown := o.callOwn e he
    have hin : e.1 ∈ t.forwarded := List.mem_map.mpr ⟨e, he, rfl⟩
    rw [← hown, get_newLocals]
    simp [((o.fNew e.1).mp hin).1]
  have h2 : (newKwargs t call).any (fun e => t.call.any (fun x => x.1 == e.1)) = false := by
    rw [Bool.eq_false_iff]
    intro h
    obtain ⟨e, he, hx⟩ := List.any_eq_true.mp h
    obtain ⟨x, hx1, hx2⟩ := List.any_eq_true.mp hx
    have hxe : x.1 = e.1 := by simpa using hx2
    have hin : e.1 ∈ t.forwarded := List.mem_map.mpr ⟨x, hx1, hxe⟩
    have hn := ((o.fNew e.1).mp hin).1
    have := (List.mem_filter.mp he).2
    simp [hn] at this
  have h3 : t.call.map (fun e => (e.1, val call e.1)) = t.forwarded.map (fun x => (x, val call x)) := by
    simp [Tables.forwarded, List.map_map, Function.comp_def]
  simp only [callSite, h1, o.fwd, if_true, h2, Bool.false_eq_true, if_false, bpkArgs, h3]

theorem get_bpkArgs (t : Tables) (call : Kw) (k : String) :
    get (bpkArgs t call) k = if k ∈ t.forwarded then some (val call k) else get (newKwargs t call) k := by
  rw [bpkArgs, get_append, get_map_fn]
  by_cases h : k ∈ t.forwarded <;> simp [h]

/-- **`_build_provided_kwargs_dict` returns exactly what the user supplied** -/
theorem buildProvided_spec {t : Tables} (o : OK t) (call : Kw) :
    ∃ kw, buildProvided t (bpkArgs t call) = .ok kw ∧ ∀ k, get kw k = supplied t call k := by
  -- the inner binding
  have hb : bindCall t.bpkSig (bpkArgs t call)
      = .ok (t.bpkSig.params.map (fun p => (p.name, val (bpkArgs t call) p.name)),
             (bpkArgs t call).filter (fun e => !t.bpkSig.names.contains e.1)) := by
    apply bindCall_ok _ _ o.bvarKw
    intro p hpm
    left
    have hin : p.name ∈ t.forwarded := (o.fBpk _).mpr (List.mem_map.mpr ⟨p, hpm, rfl⟩)
    simp [get_bpkArgs, hin]
  have hl : allSome (t.bpkDict.map (fun e =>
        (get (t.bpkSig.params.map (fun p => (p.name, val (bpkArgs t call) p.name))) e.2).map (fun v => (e.1, v))))
      = some (t.bpkDict.map (fun e => (e.1, val (bpkArgs t call) e.1))) := by
    apply allSome_map
    intro e he
    have hown := o.dictOwn e he
    have hin : e.1 ∈ t.bpkSig.names := (o.fBpk _).mp ((o.fDict _).mpr (List.mem_map.mpr ⟨e, he, rfl⟩))
    rw [← hown, get_params]
    simp only [Sig.names] at hin
    simp only [hin, if_true, Option.map_some]
  have hd : t.bpkDict.map (fun e => (e.1, val (bpkArgs t call) e.1))
      = (t.bpkDict.map (·.1)).map (fun x => (x, val (bpkArgs t call) x)) := by
    simp [List.map_map, Function.comp_def]
  refine ⟨_, by simp only [buildProvided, hb, hl, o.ret, o.filter]; rfl, ?_⟩
  intro k
  simp only [starMerge, List.foldl_cons, List.foldl_nil, List.append_nil, if_true,
    show ("kwargs" = "_provided_args") = False by decide, if_false, hd]
  rw [get_append, get_filter_key _ (fun x => !t.bpkSig.names.contains x), get_filter_fn, get_bpkArgs, get_newKwargs]
  have hvalF : k ∈ t.forwarded → val (bpkArgs t call) k = val call k := by
    intro h; simp only [val, get_bpkArgs, h, if_true, Option.getD_some]
  by_cases hF : k ∈ t.forwarded
  · obtain ⟨hN, hp1, hp2⟩ := (o.fNew k).mp hF
    have hB : k ∈ t.bpkSig.names := (o.fBpk k).mp hF
    have hD : k ∈ t.bpkDict.map (·.1) := (o.fDict k).mp hF
    have hpv : ¬ (k = "platform" ∨ k = "variant") := fun h => h.elim hp1 hp2
    simp only [List.contains_iff_mem.mpr hB, Bool.not_true, Bool.false_eq_true, if_false, hvalF hF, hD, true_and,
      keep, supplied, hpv, List.contains_iff_mem.mpr hN, if_true]
    cases hg : get call k with
    | none => simp [val, hg]
    | some v => cases v <;> simp [val, hg]
  · have hB : ¬ k ∈ t.bpkSig.names := fun h => hF ((o.fBpk k).mpr h)
    have hD : ¬ k ∈ t.bpkDict.map (·.1) := fun h => hF ((o.fDict k).mpr h)
    have hBc : t.bpkSig.names.contains k = false := by
      rw [Bool.eq_false_iff]; exact fun h => hB (List.contains_iff_mem.mp h)
    simp only [hBc, Bool.not_false, if_true, hF, if_false, hD, false_and]
    by_cases hN : k ∈ t.newSig.names
    · have hpv : k = "platform" ∨ k = "variant" := by
        by_cases h1 : k = "platform"
        · exact Or.inl h1
        · by_cases h2 : k = "variant"
          · exact Or.inr h2
          · exact absurd ((o.fNew k).mpr ⟨hN, h1, h2⟩) hF
      simp [hN, supplied, hpv]
    · have hpv : ¬ (k = "platform" ∨ k = "variant") := by
        intro h
        rcases h with h | h
        · rw [h] at hN; exact hN o.hasP
        · rw [h] at hN; exact hN o.hasV
      have hNc : t.newSig.names.contains k = false := by
        rw [Bool.eq_false_iff]; exact fun h => hN (List.contains_iff_mem.mp h)
      simp only [hN, if_false, supplied, hpv, hNc, Bool.false_eq_true]
      cases hg : get call k with
      | none => rfl
      | some v => cases v <;> rfl


/-! ## `__new__` as a whole -/

/-- after the (always successful) binding and call-site steps, `__new__` is: transport check, platform
    type check, `_build_provided_kwargs_dict`, `_get_driver`, merge -/
theorem factoryNew_unfold {t : Tables} (o : OK t) (async : Bool) (env : Env) (call : Kw)
    (hp : (get call "platform").isSome = true) (hh : (get call "host").isSome = true) :
    factoryNew t async env call =
      if transportRejected t async (val call "transport") then .error .scrapliValueError
      else match val call "platform" with
        | some (.str platform) =>
          Except.andThen (buildProvided t (bpkArgs t call)) fun provided =>
          Except.andThen (getDriver t async env platform (val call "variant")) fun r =>
          .ok (r.1, if r.2.isEmpty then provided else provided ++ (r.2 ++ []))
        | _ => .error .scrapliTypeError := by
  simp only [factoryNew, new_bind o call hp hh, val_newLocals t call _ o.hasT, val_newLocals t call _ o.hasP,
    val_newLocals t call _ o.hasV, callSite_ok o call, Except.andThen, o.fin, starMerge, List.foldl_cons,
    List.foldl_nil, if_true, show ("provided_kwargs" = "additional_kwargs") = False by decide, if_false]
  rfl

theorem get_del (d : Kw) (x k : String) : get (del d x) k = if k = x then none else get d k := by
  have := get_filter_key d (fun y => !(y == x)) k
  simp only [del, this]
  by_cases h : k = x <;> simp [h]

theorem get_cons (n : String) (v : PyVal) (d : Kw) (k : String) :
    get ((n, v) :: d) k = if n = k then some v else get d k := rfl

/-- the four hook entries of a community platform -/
def hookKeys : List String := ["sync_on_open", "sync_on_close", "async_on_open", "async_on_close"]

theorem popDrop_ok {d : Kw} {k : String} {v : PyVal} (h : get d k = some v) : popDrop d k = .ok (del d k) := by
  simp [popDrop, h]

theorem popRename_ok {d : Kw} {o n : String} {v : PyVal} (h : get d o = some v) :
    popRename d o n = .ok ((n, v) :: del d o) := by
  simp [popRename, h]

theorem andThen_ok {α β : Type} (a : α) (f : α → Except Err β) : Except.andThen (.ok a) f = f a := rfl

/-- `_get_driver_kwargs`: the sync (async) hooks become `on_open` / `on_close`, the other two are
    dropped, everything else is `defaults ⊕ variant` -/
theorem driverKwargs_spec (p : Platform) (v : Option Variant) (async : Bool)
    (h1 : (get (platformKwargs p v) "sync_on_open").isSome = true)
    (h2 : (get (platformKwargs p v) "sync_on_close").isSome = true)
    (h3 : (get (platformKwargs p v) "async_on_open").isSome = true)
    (h4 : (get (platformKwargs p v) "async_on_close").isSome = true) :
    ∃ kw, driverKwargs p v async = .ok kw ∧ ∀ k, get kw k =
      if k = "on_open" then get (platformKwargs p v) (if async then "async_on_open" else "sync_on_open")
      else if k = "on_close" then get (platformKwargs p v) (if async then "async_on_close" else "sync_on_close")
      else if k ∈ hookKeys then none else get (platformKwargs p v) k := by
  simp only [driverKwargs]
  generalize platformKwargs p v = d at h1 h2 h3 h4 ⊢
  obtain ⟨a1, e1⟩ := Option.isSome_iff_exists.mp h1
  obtain ⟨a2, e2⟩ := Option.isSome_iff_exists.mp h2
  obtain ⟨a3, e3⟩ := Option.isSome_iff_exists.mp h3
  obtain ⟨a4, e4⟩ := Option.isSome_iff_exists.mp h4
  cases async with
  | false =>
    have s1 := popDrop_ok e3
    have g2 : get (del d "async_on_open") "async_on_close" = some a4 := by rw [get_del]; simp [e4]
    have s2 := popDrop_ok g2
    have g3 : get (del (del d "async_on_open") "async_on_close") "sync_on_open" = some a1 := by
      rw [get_del, get_del]; simp [e1]
    have s3 := popRename_ok (n := "on_open") g3
    have g4 : get (("on_open", a1) :: del (del (del d "async_on_open") "async_on_close") "sync_on_open") "sync_on_close"
        = some a2 := by
      rw [get_cons, get_del, get_del, get_del]; simp [e2]
    have s4 := popRename_ok (n := "on_close") g4
    refine ⟨_, by simp only [Bool.not_false, if_true, s1, andThen_ok, s2, s3, s4]; rfl, ?_⟩
    intro k
    simp only [get_cons, get_del, hookKeys, List.mem_cons, List.not_mem_nil, or_false, Bool.false_eq_true, if_false]
    by_cases k1 : k = "on_open"
    · subst k1; simp [e1]
    · by_cases k2 : k = "on_close"
      · subst k2; simp [e2]
      · by_cases k3 : k = "sync_on_open"
        · subst k3; simp
        · by_cases k4 : k = "sync_on_close"
          · subst k4; simp
          · by_cases k5 : k = "async_on_open"
            · subst k5; simp
            · by_cases k6 : k = "async_on_close"
              · subst k6; simp
              · simp [k1, k2, k3, k4, k5, k6, Ne.symm k1, Ne.symm k2]
  | true =>
    have s1 := popDrop_ok e1
    have g2 : get (del d "sync_on_open") "sync_on_close" = some a2 := by rw [get_del]; simp [e2]
    have s2 := popDrop_ok g2
    have g3 : get (del (del d "sync_on_open") "sync_on_close") "async_on_open" = some a3 := by
      rw [get_del, get_del]; simp [e3]
    have s3 := popRename_ok (n := "on_open") g3
    have g4 : get (("on_open", a3) :: del (del (del d "sync_on_open") "sync_on_close") "async_on_open") "async_on_close"
        = some a4 := by
      rw [get_cons, get_del, get_del, get_del]; simp [e4]
    have s4 := popRename_ok (n := "on_close") g4
    refine ⟨_, by simp only [Bool.not_true, Bool.false_eq_true, if_false, s1, andThen_ok, s2, s3, s4]; rfl, ?_⟩
    intro k
    simp only [get_cons, get_del, hookKeys, List.mem_cons, List.not_mem_nil, or_false, if_true]
    by_cases k1 : k = "on_open"
    · subst k1; simp [e3]
    · by_cases k2 : k = "on_close"
      · subst k2; simp [e4]
      · by_cases k3 : k = "sync_on_open"
        · subst k3; simp
        · by_cases k4 : k = "sync_on_close"
          · subst k4; simp
          · by_cases k5 : k = "async_on_open"
            · subst k5; simp
            · by_cases k6 : k = "async_on_close"
              · subst k6; simp
              · simp [k1, k2, k3, k4, k5, k6, Ne.symm k1, Ne.symm k2]

end Scrapli.Factory
