import ScrapliProps.C01Lemmas
import ScrapliProps.C01
/-
  C02 — results do not depend on how device output is chunked or decorated.
  Property theorems only.  Quantifiers: every two cut lists / piece lists of the same stream;
  CR inserted anywhere; well-formed ESC-introduced sequences (CSI incl. SGR, OSC-title,
  ESC 7/8/M/E) inserted between characters and not cut by a read boundary; rough matching with
  arbitrary extra bytes interleaved with the echo.
-/
namespace Scrapli.Chan
open Scrapli

/-- **chunking independence of sessions**: any two segmentations of the reads give the same
    processed results, the same bytes written, and both complete. -/
theorem chunking_independent {P : Bytes → Bool} {cfg : Cfg} {dv : LineDev} (hf : Fits P cfg dv)
    (stripPrompt : Bool) (inputs : List Bytes) (hg : ∀ i ∈ inputs, GoodCmd P dv i)
    (res : Bytes) (hres : ∀ x ∈ res, isHws x = true) (cuts1 cuts2 : List Nat) :
    ∃ rs1 w1 rs2 w2,
      runCmds cfg dv.onWrite stripPrompt inputs ({ avail := res, cuts := cuts1 }, []) = some (rs1, (w1, [])) ∧
      runCmds cfg dv.onWrite stripPrompt inputs ({ avail := res, cuts := cuts2 }, []) = some (rs2, (w2, [])) ∧
      rs1.map (·.2) = rs2.map (·.2) ∧ w1.writes = w2.writes := by
  obtain ⟨rs1, w1, h1, e1, wr1, _⟩ := session_in_step hf stripPrompt inputs hg { avail := res, cuts := cuts1 } hres
  obtain ⟨rs2, w2, h2, e2, wr2, _⟩ := session_in_step hf stripPrompt inputs hg { avail := res, cuts := cuts2 } hres
  exact ⟨rs1, w1, rs2, w2, h1, h2, by rw [e1, e2], by rw [wr1, wr2]⟩

/-- **chunking independence for sessions mixing get_prompt and commands**: any two segmentations
    give the same list of results (processed command results and prompts) and the same writes. -/
theorem mixed_chunking_independent {P : Bytes → Bool} {cfg : Cfg} {dv : LineDev} (hf : Fits P cfg dv)
    (hfirst : ∀ x L, (splitNL x).find? P = some L →
      ∃ m, cfg.prompt.first x = some m ∧ strip m = strip L)
    (hout : dv.out [] = []) (stripPrompt : Bool) (ops : List COp)
    (hg : ∀ i, COp.cmd i ∈ ops → GoodCmd P dv i)
    (res : Bytes) (hres : ∀ x ∈ res, isHws x = true) (cuts1 cuts2 : List Nat) :
    ∃ rs w1 w2,
      runOps cfg dv.onWrite stripPrompt ops ({ avail := res, cuts := cuts1 }, []) = some (rs, (w1, [])) ∧
      runOps cfg dv.onWrite stripPrompt ops ({ avail := res, cuts := cuts2 }, []) = some (rs, (w2, [])) ∧
      w1.writes = w2.writes := by
  obtain ⟨rs1, w1, h1, e1, wr1, _⟩ :=
    mixed_session_in_step hf hfirst hout stripPrompt ops hg { avail := res, cuts := cuts1 } hres
  obtain ⟨rs2, w2, h2, e2, wr2, _⟩ :=
    mixed_session_in_step hf hfirst hout stripPrompt ops hg { avail := res, cuts := cuts2 } hres
  subst e1 e2
  exact ⟨_, w1, w2, h1, h2, by rw [wr1, wr2]⟩

/-- **chunking independence of interactive sessions** (`send_inputs_interact`): any two
    segmentations of the reads give the same processed result, the same bytes written (so the same
    exchanges took place — in particular both stop at the same interaction-complete answer), and
    leave the device at the same point of its script. -/
theorem interact_chunking_independent {cfg : Cfg} {complete : List Bytes} (hstrict : cfg.rough = false)
    (hret : cfg.ret = [NL]) (ps : List (Ev × Step)) (extra : List Step)
    (hg : ∀ p ∈ ps, ∃ Pr Pc, GoodStep cfg complete Pr Pc p.1 p.2)
    (res : Bytes) (hres : ∀ x ∈ res, isHws x = true) (cuts1 cuts2 : List Nat) :
    ∃ raw1 raw2 r w1 w2 d,
      sendInputsInteract cfg scriptDev (ps.map (·.1)) complete
        ({ avail := res, cuts := cuts1 }, ps.map (·.2) ++ extra) = some ((raw1, r), (w1, d)) ∧
      sendInputsInteract cfg scriptDev (ps.map (·.1)) complete
        ({ avail := res, cuts := cuts2 }, ps.map (·.2) ++ extra) = some ((raw2, r), (w2, d)) ∧
      w1.writes = w2.writes := by
  obtain ⟨raw1, w1, h1, _, _, _, wr1⟩ :=
    interact_exact hstrict hret ps extra hg { avail := res, cuts := cuts1 } hres
  obtain ⟨raw2, w2, h2, _, _, _, wr2⟩ :=
    interact_exact hstrict hret ps extra hg { avail := res, cuts := cuts2 } hres
  obtain ⟨raw1', s1, n1⟩ :=
    interact_result_normalized hstrict hret ps extra hg { avail := res, cuts := cuts1 } hres
  obtain ⟨raw2', s2, n2⟩ :=
    interact_result_normalized hstrict hret ps extra hg { avail := res, cuts := cuts2 } hres
  rw [h1] at n1; rw [h2] at n2
  simp only [Option.some.injEq, Prod.mk.injEq] at n1 n2
  obtain ⟨⟨_, e1⟩, _⟩ := n1
  obtain ⟨⟨_, e2⟩, _⟩ := n2
  refine ⟨raw1, raw2, _, w1, w2, _, h1, ?_, by rw [wr1, wr2]⟩
  rw [h2, e1, e2]

/-! ### carriage returns -/

theorem stripCR_append (a b : Bytes) : stripCR (a ++ b) = stripCR a ++ stripCR b := by
  simp [stripCR]

/-- a carriage return inserted anywhere disappears -/
theorem cr_insertion_invisible (a b : Bytes) : stripCR (a ++ CR :: b) = stripCR (a ++ b) := by
  simp [stripCR]

theorem chanRead_noESC {c : Bytes} (h : ESC ∉ c) : chanRead c = stripCR c := by
  unfold chanRead
  have : (stripCR c).contains ESC = false := by
    rw [Bool.eq_false_iff]; intro hc
    have : ESC ∈ stripCR c := by simpa using hc
    exact h (List.mem_filter.mp this).1
  show (if (stripCR c).contains ESC = true then stripAnsi (stripCR c) else stripCR c) = stripCR c
  rw [this]; rfl

/-- what the channel's loops see — the concatenation of the cleaned reads — is the CR-stripped
    stream, for EVERY segmentation (ESC-free streams) -/
theorem cleaned_stream (rs : List Bytes) (h : ESC ∉ rs.flatten) :
    (rs.map chanRead).flatten = stripCR rs.flatten := by
  induction rs with
  | nil => rfl
  | cons c cs ih =>
    have hc : ESC ∉ c := fun x => h (by simp [x])
    have hcs : ESC ∉ cs.flatten := fun x => h (by simp [x])
    simp only [List.map_cons, List.flatten_cons, stripCR_append, chanRead_noESC hc, ih hcs]

/-- **prompt read under arbitrary chunking AND arbitrary CR decoration**: if the raw pieces,
    CRs removed, concatenate to `body ++ NL :: p ++ t`, the read stops at the prompt with the same
    buffer content as for the undecorated stream. -/
theorem readUntilPrompt_cr_chunk_indep {P : Bytes → Bool} (pat : Pat) (d : Nat) (body p t : Bytes)
    (hS : ∀ w, pat.search w = (splitNL w).any P)
    (hb : Quiet P body) (he : NoEarly P p) (hok : PromptOK P p t)
    (hnlp : NL ∉ p) (hnlt : NL ∉ t) (hp0 : p ≠ []) (hd : (p ++ t).length < d)
    (rs : List Bytes) (hesc : ESC ∉ rs.flatten) (hrs : stripCR rs.flatten = body ++ NL :: p ++ t) :
    ∃ k t', t' <+: t ∧
      readLoop (promptSeen pat d) [] (rs.map chanRead) = some (body ++ NL :: p ++ t', k) := by
  obtain ⟨k, t', ht', _, hrl, _⟩ :=
    readLoop_prompt pat d body p t hS hb he hok hnlp hnlt hp0 hd (rs.map chanRead) []
      (by rw [List.nil_append, cleaned_stream rs hesc, hrs]) (by simp; omega)
  exact ⟨k, t', ht', hrl⟩

/-! ### escape sequences -/

/-- the supported sequences, ESC-introduced, as the property lists them -/
inductive Seq where
  | cursor (c : UInt8) (h : isCursor c = true)                         -- ESC 7 / 8 / M / E
  | csi (params : Bytes) (fin : UInt8)                                  -- ESC [ params final   (SGR: final = m)
      (hp : ∀ x ∈ params, isFinal x = false ∧ x ≠ NL) (hf : isFinal fin = true)
  | osc (d : UInt8) (text : Bytes) (hd : isDigit d = true)             -- ESC ] digit text BEL
      (ht : ∀ x ∈ text, x ≠ 7 ∧ x ≠ NL)

def Seq.bytes : Seq → Bytes
  | .cursor c _ => [ESC, c]
  | .csi params fin _ _ => ESC :: 91 :: params ++ [fin]
  | .osc d text _ _ => ESC :: 93 :: d :: text ++ [7]

theorem lazyUntil_hit (p : UInt8 → Bool) : ∀ (pre : Bytes) (stop : UInt8) (rest : Bytes),
    (∀ x ∈ pre, p x = false ∧ x ≠ NL) → p stop = true →
    lazyUntil p (pre ++ stop :: rest) = some (pre.length + 1) := by
  intro pre
  induction pre with
  | nil => intro stop rest _ hs; simp [lazyUntil, hs]
  | cons c r ih =>
    intro stop rest h hs
    have hc := h c (by simp)
    have hne : (c == NL) = false := by simpa using hc.2
    simp only [List.cons_append, lazyUntil, hc.1, Bool.false_eq_true, ↓reduceIte, hne,
      ih stop rest (fun x hx => h x (by simp [hx])) hs, Option.map_some, List.length_cons]

/-- a complete sequence at the head of a chunk is removed, whatever follows -/
theorem stripAnsi_seq (s : Seq) (rest : Bytes) : stripAnsi (s.bytes ++ rest) = stripAnsi rest := by
  cases s with
  | cursor c h =>
    have hws : isWs c = false := by
      unfold isCursor at h; unfold isWs
      simp only [Bool.or_eq_true, beq_iff_eq] at h
      rcases h with ((e | e) | e) | e <;> subst e <;> decide
    simp only [Seq.bytes, List.cons_append, List.nil_append]
    rw [stripAnsi]
    simp [isAnsiStart, ESC, ansiAfterStart, hws, ansiBody, h]
  | csi params fin hp hf =>
    simp only [Seq.bytes, List.cons_append, List.append_assoc, List.singleton_append, List.nil_append]
    rw [stripAnsi]
    have h1 : lazyUntil isFinal (params ++ fin :: rest) = some (params.length + 1) :=
      lazyUntil_hit isFinal params fin rest hp hf
    have : ansiAfterStart (91 :: (params ++ fin :: rest)) = some (params.length + 2) := by
      simp [ansiAfterStart, isWs, ansiBody, isCursor, h1]
    simp only [isAnsiStart, ESC, beq_self_eq_true, Bool.true_or, ↓reduceIte]
    rw [this]
    simp only
    congr 1
    have : params.length + 2 = (91 :: params ++ [fin]).length := by simp
    rw [this]
    have e : (91 : UInt8) :: (params ++ fin :: rest) = (91 :: params ++ [fin]) ++ rest := by simp
    rw [e, List.drop_left]
  | osc d text hd ht =>
    simp only [Seq.bytes, List.cons_append, List.append_assoc, List.singleton_append, List.nil_append]
    rw [stripAnsi]
    have h1 : lazyUntil (· == 7) (text ++ 7 :: rest) = some (text.length + 1) :=
      lazyUntil_hit (· == 7) text 7 rest (fun x hx => ⟨by simpa using (ht x hx).1, (ht x hx).2⟩) (by simp)
    have : ansiAfterStart (93 :: d :: (text ++ 7 :: rest)) = some (text.length + 3) := by
      simp [ansiAfterStart, isWs, ansiBody, isCursor, hd, h1]
    simp only [isAnsiStart, ESC, beq_self_eq_true, Bool.true_or, ↓reduceIte]
    rw [this]
    simp only
    congr 1
    have : text.length + 3 = (93 :: d :: text ++ [7]).length := by simp
    rw [this]
    have e : (93 : UInt8) :: d :: (text ++ 7 :: rest) = (93 :: d :: text ++ [7]) ++ rest := by simp
    rw [e, List.drop_left]

/-- text without introducer bytes passes through unchanged up to the next sequence -/
theorem stripAnsi_text : ∀ (txt rest : Bytes), (∀ x ∈ txt, isAnsiStart x = false) →
    stripAnsi (txt ++ rest) = txt ++ stripAnsi rest := by
  intro txt
  induction txt with
  | nil => intro rest _; rfl
  | cons c r ih =>
    intro rest h
    have hc := h c (by simp)
    rw [List.cons_append, stripAnsi]
    simp [hc, ih rest (fun x hx => h x (by simp [hx]))]

/-- a chunk = text segments and whole sequences, in any order -/
inductive Seg where
  | text (b : Bytes) (h : ∀ x ∈ b, isAnsiStart x = false)
  | seq (s : Seq)

def Seg.bytes : Seg → Bytes
  | .text b _ => b
  | .seq s => s.bytes

def Seg.plain : Seg → Bytes
  | .text b _ => b
  | .seq _ => []

/-- **escape sequences are invisible** when none is cut by a read boundary: a chunk made of text
    and complete supported sequences, inserted at any character boundaries, strips to the text. -/
theorem ansi_whole_chunk (segs : List Seg) :
    stripAnsi (segs.map Seg.bytes).flatten = (segs.map Seg.plain).flatten := by
  induction segs with
  | nil => simp [stripAnsi]
  | cons s r ih =>
    cases s with
    | text b h =>
      simp only [List.map_cons, List.flatten_cons, Seg.bytes, Seg.plain]
      rw [stripAnsi_text b _ h, ih]
    | seq q =>
      simp only [List.map_cons, List.flatten_cons, Seg.bytes, Seg.plain, List.nil_append]
      rw [stripAnsi_seq, ih]

/-! ### rough echo matching -/

theorem roughIter_some {ch : UInt8} : ∀ {out rest : Bytes}, roughIter ch out = some rest →
    ∃ pre, out = pre ++ ch :: rest := by
  intro out
  induction out with
  | nil => intro rest h; simp [roughIter] at h
  | cons o r ih =>
    intro rest h
    unfold roughIter at h
    split at h
    · rename_i he
      have : ch = o := by simpa using he
      subst this
      exact ⟨[], by simpa using h⟩
    · obtain ⟨pre, hp⟩ := ih h
      exact ⟨o :: pre, by simp [hp]⟩

/-- the greedy scan of helper.py is exactly "the input is a subsequence of the output" -/
theorem roughAll_iff_sublist : ∀ (inp out : Bytes), roughAll inp out = true ↔ inp.Sublist out := by
  intro inp
  induction inp with
  | nil => intro out; simp [roughAll]
  | cons ch r ih =>
    intro out
    induction out with
    | nil => simp [roughAll, roughIter]
    | cons o t iht =>
      unfold roughAll roughIter
      by_cases he : ch = o
      · subst he
        simp only [beq_self_eq_true, ↓reduceIte, ih t]
        constructor
        · intro h; exact h.cons₂ ch
        · intro h
          rcases List.sublist_cons_iff.mp h with h' | ⟨r', hr', h'⟩
          · exact (List.sublist_cons_self ch r).trans h'
          · have : r = r' := by simpa using hr'
            subst this; exact h'
      · have hne : (ch == o) = false := by simpa using he
        simp only [hne, Bool.false_eq_true, ↓reduceIte]
        have iht' := iht
        unfold roughAll at iht'
        rw [iht']
        constructor
        · intro h; exact h.cons o
        · intro h
          rcases List.sublist_cons_iff.mp h with h' | ⟨r', hr', _⟩
          · exact h'
          · exact absurd (by simpa using hr' : ch = o ∧ r = r').1 he

/-- **rough matching stops as soon as, and only when, the whole input has been echoed in order**,
    whatever extra bytes are interleaved: the stop test is monotone in the buffer and equivalent to
    the subsequence relation (after the fix 6a45876 to the containment test). -/
theorem rough_stop_iff (inp out : Bytes) : roughlyContains inp out = true ↔ inp.Sublist out := by
  unfold roughlyContains
  split
  · rename_i h
    simp only [true_iff]
    exact ((isInfixB_iff _ _).mp h).sublist
  · split
    · rename_i _ hl
      simp only [Bool.false_eq_true, false_iff]
      intro hs
      have := hs.length_le
      omega
    · exact roughAll_iff_sublist inp out

theorem rough_monotone (inp a b : Bytes) (h : roughlyContains inp a = true) :
    roughlyContains inp (a ++ b) = true := by
  rw [rough_stop_iff] at *
  exact h.trans (List.sublist_append_left a b)

end Scrapli.Chan
