import ScrapliProps.C01Lemmas
import ScrapliProps.C01
import ScrapliProps.C02Timed
/-
  C02 — results do not depend on how device output is chunked or decorated.
  Property theorems only.  Quantifiers: every two cut lists / piece lists of the same stream;
  CR inserted anywhere; well-formed ESC-introduced sequences (CSI incl. SGR, OSC-title,
  ESC 7/8/M/E) inserted between characters and not cut by a read boundary; rough matching with
  arbitrary extra bytes interleaved with the echo.
-/
namespace Scrapli.Chan
open Scrapli

/-- **chunking independence of sessions**: any two segmentations of the reads give the same
    processed results, the same bytes written, and both complete. -/
theorem chunking_independent {P : Bytes → Bool} {cfg : Cfg} {dv : LineDev} (hf : Fits P cfg dv)
    (stripPrompt : Bool) (inputs : List Bytes) (hg : ∀ i ∈ inputs, GoodCmd P dv i)
    (res : Bytes) (hres : ∀ x ∈ res, isHws x = true) (cuts1 cuts2 : List Nat) :
    ∃ rs1 w1 rs2 w2,
      runCmds cfg dv.onWrite stripPrompt inputs ({ avail := res, cuts := cuts1 }, []) = some (rs1, (w1, [])) ∧
      runCmds cfg dv.onWrite stripPrompt inputs ({ avail := res, cuts := cuts2 }, []) = some (rs2, (w2, [])) ∧
      rs1.map (·.2) = rs2.map (·.2) ∧ w1.writes = w2.writes := by
  obtain ⟨rs1, w1, h1, e1, wr1, _, _⟩ := session_in_step hf stripPrompt inputs hg { avail := res, cuts := cuts1 } hres rfl
  obtain ⟨rs2, w2, h2, e2, wr2, _, _⟩ := session_in_step hf stripPrompt inputs hg { avail := res, cuts := cuts2 } hres rfl
  exact ⟨rs1, w1, rs2, w2, h1, h2, by rw [e1, e2], by rw [wr1, wr2]⟩

/-- **chunking independence for sessions mixing get_prompt and commands**: any two segmentations
    give the same list of results (processed command results and prompts) and the same writes. -/
theorem mixed_chunking_independent {P : Bytes → Bool} {cfg : Cfg} {dv : LineDev} (hf : Fits P cfg dv)
    (hfirst : ∀ x L, (splitNL x).find? P = some L →
      ∃ m, cfg.prompt.first x = some m ∧ strip m = strip L)
    (hout : dv.out [] = []) (stripPrompt : Bool) (ops : List COp)
    (hg : ∀ i, COp.cmd i ∈ ops → GoodCmd P dv i)
    (res : Bytes) (hres : ∀ x ∈ res, isHws x = true) (cuts1 cuts2 : List Nat) :
    ∃ rs w1 w2,
      runOps cfg dv.onWrite stripPrompt ops ({ avail := res, cuts := cuts1 }, []) = some (rs, (w1, [])) ∧
      runOps cfg dv.onWrite stripPrompt ops ({ avail := res, cuts := cuts2 }, []) = some (rs, (w2, [])) ∧
      w1.writes = w2.writes := by
  obtain ⟨rs1, w1, h1, e1, wr1, _, _⟩ :=
    mixed_session_in_step hf hfirst hout stripPrompt ops hg { avail := res, cuts := cuts1 } hres rfl
  obtain ⟨rs2, w2, h2, e2, wr2, _, _⟩ :=
    mixed_session_in_step hf hfirst hout stripPrompt ops hg { avail := res, cuts := cuts2 } hres rfl
  subst e1 e2
  exact ⟨_, w1, w2, h1, h2, by rw [wr1, wr2]⟩

/-- **chunking independence of interactive sessions** (`send_inputs_interact`): any two
    segmentations of the reads give the same processed result, the same bytes written (so the same
    exchanges took place — in particular both stop at the same interaction-complete answer), and
    leave the device at the same point of its script. -/
theorem interact_chunking_independent {cfg : Cfg} {complete : List Bytes} (hstrict : cfg.rough = false)
    (hret : IsRet cfg.ret) (ps : List (Ev × Step)) (extra : List Step)
    (hg : ∀ p ∈ ps, ∃ Pr Pc, GoodStep cfg complete Pr Pc p.1 p.2)
    (res : Bytes) (hres : ∀ x ∈ res, isHws x = true) (cuts1 cuts2 : List Nat) :
    ∃ raw1 raw2 r w1 w2 d,
      sendInputsInteract cfg scriptDev (ps.map (·.1)) complete
        ({ avail := res, cuts := cuts1 }, ps.map (·.2) ++ extra) = some ((raw1, r), (w1, d)) ∧
      sendInputsInteract cfg scriptDev (ps.map (·.1)) complete
        ({ avail := res, cuts := cuts2 }, ps.map (·.2) ++ extra) = some ((raw2, r), (w2, d)) ∧
      w1.writes = w2.writes := by
  obtain ⟨raw1, w1, h1, _, _, _, wr1, _⟩ :=
    interact_exact hstrict hret ps extra hg { avail := res, cuts := cuts1 } hres rfl
  obtain ⟨raw2, w2, h2, _, _, _, wr2, _⟩ :=
    interact_exact hstrict hret ps extra hg { avail := res, cuts := cuts2 } hres rfl
  obtain ⟨raw1', s1, n1⟩ :=
    interact_result_normalized hstrict hret ps extra hg { avail := res, cuts := cuts1 } hres rfl
  obtain ⟨raw2', s2, n2⟩ :=
    interact_result_normalized hstrict hret ps extra hg { avail := res, cuts := cuts2 } hres rfl
  rw [h1] at n1; rw [h2] at n2
  simp only [Option.some.injEq, Prod.mk.injEq] at n1 n2
  obtain ⟨⟨_, e1⟩, _⟩ := n1
  obtain ⟨⟨_, e2⟩, _⟩ := n2
  refine ⟨raw1, raw2, _, w1, w2, _, h1, ?_, by rw [wr1, wr2]⟩
  rw [h2, e1, e2]

/-! ### carriage returns -/

theorem stripCR_append (a b : Bytes) : stripCR (a ++ b) = stripCR a ++ stripCR b := by
  simp [stripCR]

/-- a carriage return inserted anywhere disappears -/
theorem cr_insertion_invisible (a b : Bytes) : stripCR (a ++ CR :: b) = stripCR (a ++ b) := by
  simp [stripCR]

theorem chanRead_noESC {c : Bytes} (h : ESC ∉ c) : chanRead c = stripCR c := by
  unfold chanRead
  have : (stripCR c).contains ESC = false := by
    rw [Bool.eq_false_iff]; intro hc
    have : ESC ∈ stripCR c := by simpa using hc
    exact h (List.mem_filter.mp this).1
  show (if (stripCR c).contains ESC = true then stripAnsi (stripCR c) else stripCR c) = stripCR c
  rw [this]; rfl

theorem chanReadH_noESC {c : Bytes} (h : ESC ∉ c) : chanReadH [] c = (stripCR c, []) := by
  unfold chanReadH cleanBuf
  have : (stripCR c).contains ESC = false := by
    rw [Bool.eq_false_iff]; intro hc
    have : ESC ∈ stripCR c := by simpa using hc
    exact h (List.mem_filter.mp this).1
  simp only [List.nil_append, this]
  rfl

theorem cleanPieces_noESC : ∀ (rs : List Bytes), ESC ∉ rs.flatten →
    cleanPieces [] rs = (rs.map stripCR, []) := by
  intro rs
  induction rs with
  | nil => intro _; rfl
  | cons c cs ih =>
    intro h
    have hc : ESC ∉ c := fun x => h (by simp [x])
    have hcs : ESC ∉ cs.flatten := fun x => h (by simp [x])
    unfold cleanPieces
    rw [chanReadH_noESC hc]
    simp only
    rw [ih hcs]
    rfl

/-- what the channel's loops see — the concatenation of the cleaned reads — is the CR-stripped
    stream, for EVERY segmentation (ESC-free streams), and nothing is held back -/
theorem cleaned_stream (rs : List Bytes) (h : ESC ∉ rs.flatten) :
    (cleanPieces [] rs).1.flatten = stripCR rs.flatten ∧ (cleanPieces [] rs).2 = [] := by
  rw [cleanPieces_noESC rs h]
  refine ⟨?_, rfl⟩
  simp only
  induction rs with
  | nil => rfl
  | cons c cs ih =>
    have hcs : ESC ∉ cs.flatten := fun x => h (by simp [x])
    simp only [List.map_cons, List.flatten_cons, stripCR_append, ih hcs]

/-- **prompt read under arbitrary chunking AND arbitrary CR decoration**: if the raw pieces,
    CRs removed, concatenate to `body ++ NL :: p ++ t`, the read stops at the prompt with the same
    buffer content as for the undecorated stream. -/
theorem readUntilPrompt_cr_chunk_indep {P : Bytes → Bool} (pat : Pat) (d : Nat) (body p t : Bytes)
    (hS : ∀ w, pat.search w = (splitNL w).any P)
    (hb : Quiet P body) (he : NoEarly P p) (hok : PromptOK P p t)
    (hnlp : NL ∉ p) (hnlt : NL ∉ t) (hp0 : p ≠ []) (hd : (p ++ t).length < d)
    (rs : List Bytes) (hesc : ESC ∉ rs.flatten) (hrs : stripCR rs.flatten = body ++ NL :: p ++ t) :
    ∃ k t', t' <+: t ∧
      readLoop (promptSeen pat d) [] (cleanPieces [] rs).1 = some (body ++ NL :: p ++ t', k) := by
  obtain ⟨k, t', ht', _, hrl, _⟩ :=
    readLoop_prompt pat d body p t hS hb he hok hnlp hnlt hp0 hd (cleanPieces [] rs).1 []
      (by rw [List.nil_append, (cleaned_stream rs hesc).1, hrs]) (by simp; omega)
  exact ⟨k, t', ht', hrl⟩

/-! ### escape sequences -/

/-- the supported sequences, ESC-introduced, as the property lists them -/
inductive Seq where
  | cursor (c : UInt8) (h : isCursor c = true)                         -- ESC 7 / 8 / M / E
  | csi (params : Bytes) (fin : UInt8)                                  -- ESC [ params final   (SGR: final = m)
      (hp : ∀ x ∈ params, isFinal x = false ∧ x ≠ NL) (hf : isFinal fin = true)
  | osc (d : UInt8) (text : Bytes) (hd : isDigit d = true)             -- ESC ] digit text BEL
      (ht : ∀ x ∈ text, x ≠ 7 ∧ x ≠ NL)

def Seq.bytes : Seq → Bytes
  | .cursor c _ => [ESC, c]
  | .csi params fin _ _ => ESC :: 91 :: params ++ [fin]
  | .osc d text _ _ => ESC :: 93 :: d :: text ++ [7]

theorem lazyUntil_hit (p : UInt8 → Bool) : ∀ (pre : Bytes) (stop : UInt8) (rest : Bytes),
    (∀ x ∈ pre, p x = false ∧ x ≠ NL) → p stop = true →
    lazyUntil p (pre ++ stop :: rest) = some (pre.length + 1) := by
  intro pre
  induction pre with
  | nil => intro stop rest _ hs; simp [lazyUntil, hs]
  | cons c r ih =>
    intro stop rest h hs
    have hc := h c (by simp)
    have hne : (c == NL) = false := by simpa using hc.2
    simp only [List.cons_append, lazyUntil, hc.1, Bool.false_eq_true, ↓reduceIte, hne,
      ih stop rest (fun x hx => h x (by simp [hx])) hs, Option.map_some, List.length_cons]

/-- a complete sequence at the head of a chunk is removed, whatever follows -/
theorem stripAnsi_seq (s : Seq) (rest : Bytes) : stripAnsi (s.bytes ++ rest) = stripAnsi rest := by
  cases s with
  | cursor c h =>
    have hws : isWs c = false := by
      unfold isCursor at h; unfold isWs
      simp only [Bool.or_eq_true, beq_iff_eq] at h
      rcases h with ((e | e) | e) | e <;> subst e <;> decide
    simp only [Seq.bytes, List.cons_append, List.nil_append]
    rw [stripAnsi]
    simp [isAnsiStart, ESC, ansiAfterStart, hws, ansiBody, h]
  | csi params fin hp hf =>
    simp only [Seq.bytes, List.cons_append, List.append_assoc, List.singleton_append, List.nil_append]
    rw [stripAnsi]
    have h1 : lazyUntil isFinal (params ++ fin :: rest) = some (params.length + 1) :=
      lazyUntil_hit isFinal params fin rest hp hf
    have : ansiAfterStart (91 :: (params ++ fin :: rest)) = some (params.length + 2) := by
      simp [ansiAfterStart, isWs, ansiBody, isCursor, h1]
    simp only [isAnsiStart, ESC, beq_self_eq_true, Bool.true_or, ↓reduceIte]
    rw [this]
    simp only
    congr 1
    have : params.length + 2 = (91 :: params ++ [fin]).length := by simp
    rw [this]
    have e : (91 : UInt8) :: (params ++ fin :: rest) = (91 :: params ++ [fin]) ++ rest := by simp
    rw [e, List.drop_left]
  | osc d text hd ht =>
    simp only [Seq.bytes, List.cons_append, List.append_assoc, List.singleton_append, List.nil_append]
    rw [stripAnsi]
    have h1 : lazyUntil (· == 7) (text ++ 7 :: rest) = some (text.length + 1) :=
      lazyUntil_hit (· == 7) text 7 rest (fun x hx => ⟨by simpa using (ht x hx).1, (ht x hx).2⟩) (by simp)
    have : ansiAfterStart (93 :: d :: (text ++ 7 :: rest)) = some (text.length + 3) := by
      simp [ansiAfterStart, isWs, ansiBody, isCursor, hd, h1]
    simp only [isAnsiStart, ESC, beq_self_eq_true, Bool.true_or, ↓reduceIte]
    rw [this]
    simp only
    congr 1
    have : text.length + 3 = (93 :: d :: text ++ [7]).length := by simp
    rw [this]
    have e : (93 : UInt8) :: d :: (text ++ 7 :: rest) = (93 :: d :: text ++ [7]) ++ rest := by simp
    rw [e, List.drop_left]

/-- text without introducer bytes passes through unchanged up to the next sequence -/
theorem stripAnsi_text : ∀ (txt rest : Bytes), (∀ x ∈ txt, isAnsiStart x = false) →
    stripAnsi (txt ++ rest) = txt ++ stripAnsi rest := by
  intro txt
  induction txt with
  | nil => intro rest _; rfl
  | cons c r ih =>
    intro rest h
    have hc := h c (by simp)
    rw [List.cons_append, stripAnsi]
    simp [hc, ih rest (fun x hx => h x (by simp [hx]))]

/-- a chunk = text segments and whole sequences, in any order -/
inductive Seg where
  | text (b : Bytes) (h : ∀ x ∈ b, isAnsiStart x = false)
  | seq (s : Seq)

def Seg.bytes : Seg → Bytes
  | .text b _ => b
  | .seq s => s.bytes

def Seg.plain : Seg → Bytes
  | .text b _ => b
  | .seq _ => []

/-- **escape sequences are invisible** when none is cut by a read boundary: a chunk made of text
    and complete supported sequences, inserted at any character boundaries, strips to the text. -/
theorem ansi_whole_chunk (segs : List Seg) :
    stripAnsi (segs.map Seg.bytes).flatten = (segs.map Seg.plain).flatten := by
  induction segs with
  | nil => simp [stripAnsi]
  | cons s r ih =>
    cases s with
    | text b h =>
      simp only [List.map_cons, List.flatten_cons, Seg.bytes, Seg.plain]
      rw [stripAnsi_text b _ h, ih]
    | seq q =>
      simp only [List.map_cons, List.flatten_cons, Seg.bytes, Seg.plain, List.nil_append]
      rw [stripAnsi_seq, ih]

/-! ### escape sequences cut by read boundaries (fix: `_strip_ansi_read`) -/

/-- the incomplete-sequence pattern and the hold-back bound in the source are the ones the model
    mirrors (regenerated each run) -/
theorem holdback_pinned : Scrapli.Gen.Chan.incompletePatternIsPinned = true ∧
    Scrapli.Gen.Chan.heldMaxSource = some heldMax := by decide

/-- **nothing of an earlier session is held back in a new one**: `open()` on the same channel object -- after `close()`, or after a
    timeout handler closed the transport only -- starts with an empty hold-back, whatever the old session left (the fact is measured
    on the live `Channel` / `AsyncChannel` each run) -/
theorem reopen_fresh (w : Wire) (avail : Bytes) (cuts : List Nat) : (w.reopen avail cuts).held = [] := by
  have h : Scrapli.Gen.Chan.openDropsHeld = some true := by decide
  simp [Wire.reopen, h]

/-- hence `get_prompt` in the re-opened session is exact for every segmentation, whatever state (`held`, unread bytes, cut list)
    the previous session was abandoned in -/
theorem getPrompt_after_reopen_exact {P : Bytes → Bool} {cfg : Cfg} {dv : LineDev} (hf : Fits P cfg dv)
    (hfirst : ∀ x L, (splitNL x).find? P = some L → ∃ m, cfg.prompt.first x = some m ∧ strip m = strip L)
    (hout : dv.out [] = [])
    (old : Wire) (avail : Bytes) (cuts : List Nat) (hres : ∀ x ∈ avail, isHws x = true) :
    ∃ w', getPrompt cfg dv.onWrite (old.reopen avail cuts, []) = some (strip dv.prompt, (w', [])) ∧
      w'.writes = [cfg.ret] ∧ w'.held = [] := by
  obtain ⟨w', h1, h2, _, h4⟩ := getPrompt_exact hf hfirst hout (old.reopen avail cuts) (by simpa [Wire.reopen] using hres)
    (reopen_fresh old avail cuts)
  exact ⟨w', h1, by simpa [Wire.reopen] using h2, h4⟩

/-- a sequence the hold-back can carry: no introducer byte after the first one, at most `heldMax` bytes -/
def Seq.Tame (s : Seq) : Prop :=
  (∀ x ∈ s.bytes.tail, isAnsiStart x = false) ∧ s.bytes.length ≤ heldMax

def Seg.Tame : Seg → Prop
  | .text _ _ => True
  | .seq s => s.Tame

def segBytes (segs : List Seg) : Bytes := (segs.map Seg.bytes).flatten
def segPlain (segs : List Seg) : Bytes := (segs.map Seg.plain).flatten

theorem Seq.bytes_head (s : Seq) : ∃ t, s.bytes = ESC :: t ∧ t ≠ [] := by
  cases s with
  | cursor c h => exact ⟨[c], rfl, by simp⟩
  | csi params fin hp hf => exact ⟨91 :: params ++ [fin], rfl, by simp⟩
  | osc d text hd ht => exact ⟨93 :: d :: text ++ [7], rfl, by simp⟩

theorem stripAnsi_plain (y : Bytes) (h : ∀ x ∈ y, isAnsiStart x = false) : stripAnsi y = y := by
  have := stripAnsi_text y [] h
  simpa [stripAnsi] using this

theorem splitHeld_plain : ∀ (y : Bytes), (∀ x ∈ y, isAnsiStart x = false) → splitHeld y = (y, []) := by
  intro y
  induction y with
  | nil => intro _; rfl
  | cons c t ih =>
    intro h
    have hc : (c == ESC) = false := by
      rw [Bool.eq_false_iff]; intro e
      have e' : c = ESC := by simpa using e
      have := h c (by simp)
      rw [e'] at this
      revert this; decide
    unfold splitHeld
    simp only [hc, Bool.false_and, Bool.false_eq_true, ↓reduceIte]
    rw [ih (fun x hx => h x (by simp [hx]))]

/-- text in front passes through the hold-back search -/
theorem splitHeld_text : ∀ (b y : Bytes), (∀ x ∈ b, isAnsiStart x = false) →
    splitHeld (b ++ y) = (b ++ (splitHeld y).1, (splitHeld y).2) := by
  intro b
  induction b with
  | nil => intro y _; simp
  | cons c t ih =>
    intro y h
    have hc : (c == ESC) = false := by
      rw [Bool.eq_false_iff]; intro e
      have e' : c = ESC := by simpa using e
      have := h c (by simp)
      rw [e'] at this
      revert this; decide
    rw [List.cons_append, splitHeld]
    simp only [hc, Bool.false_and, Bool.false_eq_true, ↓reduceIte]
    rw [ih y (fun x hx => h x (by simp [hx]))]
    rfl

theorem contains_ESC_text (b y : Bytes) (h : ∀ x ∈ b, isAnsiStart x = false) :
    (b ++ y).contains ESC = y.contains ESC := by
  have hnb : ESC ∉ b := by
    intro hm
    have := h ESC hm
    revert this; decide
  rw [Bool.eq_iff_iff]
  simp [hnb]

/-- text in front passes through one cleaning step -/
theorem cleanBuf_text (b y : Bytes) (h : ∀ x ∈ b, isAnsiStart x = false) :
    cleanBuf (b ++ y) = (b ++ (cleanBuf y).1, (cleanBuf y).2) := by
  unfold cleanBuf
  rw [contains_ESC_text b y h]
  split
  · rw [stripAnsi_text b y h, splitHeld_text b _ h]
  · rfl

theorem lazyUntil_none (p : UInt8 → Bool) : ∀ (xs : Bytes), (∀ x ∈ xs, p x = false) → lazyUntil p xs = none := by
  intro xs
  induction xs with
  | nil => intro _; rfl
  | cons c t ih =>
    intro h
    have hc := h c (by simp)
    unfold lazyUntil
    simp only [hc, Bool.false_eq_true, ↓reduceIte]
    split
    · rfl
    · rw [ih (fun x hx => h x (by simp [hx]))]; rfl

theorem noneStop_of (p : UInt8 → Bool) (xs : Bytes) (h : ∀ x ∈ xs, p x = false ∧ x ≠ NL) : noneStop p xs = true := by
  unfold noneStop
  rw [List.all_eq_true]
  intro x hx
  obtain ⟨h1, h2⟩ := h x hx
  simp [h1, h2]

/-- **the beginning of a sequence, alone at the end of a buffer**: nothing matches, the incomplete
    pattern does -/
theorem seq_prefix_incomplete (s : Seq) (q x : Bytes) (hq : ESC :: q ++ x = s.bytes) (hx : x ≠ []) :
    ansiAfterStart q = none ∧ incompleteAfter q = true := by
  cases s with
  | cursor c h =>
    simp only [Seq.bytes, List.cons_append, List.cons.injEq, true_and] at hq
    have : q = [] := by
      cases q with
      | nil => rfl
      | cons a r =>
        exfalso
        simp only [List.cons_append, List.cons.injEq] at hq
        have := hq.2
        simp at this
        exact hx this.2
    subst this
    exact ⟨rfl, rfl⟩
  | csi params fin hp hf =>
    simp only [Seq.bytes, List.cons_append, List.cons.injEq, true_and] at hq
    cases q with
    | nil => exact ⟨rfl, rfl⟩
    | cons a r =>
      simp only [List.cons_append, List.cons.injEq] at hq
      obtain ⟨ha, hr⟩ := hq
      subst ha
      -- r ++ x = params ++ [fin], x ≠ [] ⇒ r is a prefix of params
      have hrp : ∀ y ∈ r, isFinal y = false ∧ y ≠ NL := by
        intro y hy
        rcases List.append_eq_append_iff.mp hr with ⟨a', h1, _⟩ | ⟨c', h1, h2⟩
        · exact hp y (by rw [h1]; exact List.mem_append_left _ hy)
        · -- r = params ++ c', [fin] = c' ++ x with x ≠ [] ⇒ c' = []
          have : c' = [] := by
            cases c' with
            | nil => rfl
            | cons c0 cr =>
              exfalso
              simp only [List.cons_append, List.cons.injEq] at h2
              have := h2.2
              have : cr ++ x = [] := this.symm
              exact hx (List.append_eq_nil_iff.mp this).2
          subst this
          simp only [List.append_nil] at h1
          subst h1
          exact hp y hy
      constructor
      · have : lazyUntil isFinal r = none := lazyUntil_none isFinal r (fun y hy => (hrp y hy).1)
        simp [ansiAfterStart, isWs, ansiBody, isCursor, this]
      · have := noneStop_of isFinal r hrp
        simp [incompleteAfter, isWs, incompleteBody, this]
  | osc d text hd ht =>
    simp only [Seq.bytes, List.cons_append, List.cons.injEq, true_and] at hq
    cases q with
    | nil => exact ⟨rfl, rfl⟩
    | cons a r =>
      simp only [List.cons_append, List.cons.injEq] at hq
      obtain ⟨ha, hr⟩ := hq
      subst ha
      cases r with
      | nil => exact ⟨by simp [ansiAfterStart, isWs, ansiBody, isCursor], by simp [incompleteAfter, isWs, incompleteBody]⟩
      | cons a2 r2 =>
        simp only [List.cons_append, List.cons.injEq] at hr
        obtain ⟨ha2, hr2⟩ := hr
        subst ha2
        have hrp : ∀ y ∈ r2, (y == 7) = false ∧ y ≠ NL := by
          intro y hy
          rcases List.append_eq_append_iff.mp hr2 with ⟨a', h1, _⟩ | ⟨c', h1, h2⟩
          · have := ht y (by rw [h1]; exact List.mem_append_left _ hy)
            exact ⟨by simpa using this.1, this.2⟩
          · have : c' = [] := by
              cases c' with
              | nil => rfl
              | cons c0 cr =>
                exfalso
                simp only [List.cons_append, List.cons.injEq] at h2
                have := h2.2
                have : cr ++ x = [] := this.symm
                exact hx (List.append_eq_nil_iff.mp this).2
            subst this
            simp only [List.append_nil] at h1
            subst h1
            have := ht y hy
            exact ⟨by simpa using this.1, this.2⟩
        constructor
        · have : lazyUntil (· == 7) r2 = none := lazyUntil_none _ r2 (fun y hy => (hrp y hy).1)
          simp [ansiAfterStart, isWs, ansiBody, isCursor, hd, this]
        · have := noneStop_of (· == 7) r2 hrp
          simp [incompleteAfter, isWs, incompleteBody, hd, this]

/-- one cleaning step on a buffer that is the proper beginning of a tame sequence: nothing is
    returned, all of it is held back -/
theorem cleanBuf_seq_prefix (s : Seq) (hs : s.Tame) (p x : Bytes) (hp : p ++ x = s.bytes) (hp0 : p ≠ [])
    (hx : x ≠ []) : cleanBuf p = ([], p) := by
  obtain ⟨t, ht, _⟩ := s.bytes_head
  cases p with
  | nil => exact absurd rfl hp0
  | cons c q =>
    have hc : c = ESC := by rw [ht] at hp; simpa using (List.cons.inj hp).1
    subst hc
    have hq : ESC :: q ++ x = s.bytes := by simpa using hp
    obtain ⟨hnone, hinc⟩ := seq_prefix_incomplete s q x hq hx
    have hqplain : ∀ y ∈ q, isAnsiStart y = false := by
      intro y hy
      apply hs.1 y
      rw [← hq]
      simp [hy]
    have hlen : q.length + 1 ≤ heldMax := by
      have := hs.2
      rw [← hq] at this
      simp only [List.cons_append, List.length_cons, List.length_append] at this
      omega
    unfold cleanBuf
    have : (ESC :: q).contains ESC = true := by simp
    simp only [this, ↓reduceIte]
    rw [stripAnsi]
    simp only [isAnsiStart, ESC, beq_self_eq_true, Bool.true_or, ↓reduceIte]
    have hnone' : ansiAfterStart q = none := hnone
    rw [hnone']
    simp only
    rw [stripAnsi_plain q hqplain, splitHeld]
    have : ((27 : UInt8) == ESC && incompleteAfter q) = true := by simp [ESC, hinc]
    simp only [this, ↓reduceIte, hlen]

/-- what may be held back in front of a stream of segments: nothing, or the proper beginning of its
    first sequence -/
def HeldShape (h : Bytes) (segs : List Seg) : Prop :=
  h = [] ∨ ∃ s tl x, segs = Seg.seq s :: tl ∧ h ++ x = s.bytes ∧ x ≠ [] ∧ h ≠ []

theorem tame_introducers_are_ESC : ∀ (segs : List Seg), (∀ g ∈ segs, g.Tame) →
    ∀ x ∈ segBytes segs, isAnsiStart x = true → x = ESC := by
  intro segs
  induction segs with
  | nil => intro _ x hx; simp [segBytes] at hx
  | cons g tl ih =>
    intro ht x hx hi
    simp only [segBytes, List.map_cons, List.flatten_cons, List.mem_append] at hx
    rcases hx with h1 | h1
    · cases g with
      | text b hb => exact absurd hi (by simp [hb x h1])
      | seq s =>
        obtain ⟨t, hst, _⟩ := s.bytes_head
        have hs : s.Tame := ht (Seg.seq s) List.mem_cons_self
        simp only [Seg.bytes] at h1
        rw [hst] at h1
        rcases List.mem_cons.mp h1 with e | e
        · exact e
        · have := hs.1 x (by rw [hst]; simpa using e)
          exact absurd hi (by simp [this])
    · exact ih (fun g hg => ht g (by simp [hg])) x h1 hi

/-- **one read over a stream of text and tame sequences, cut ANYWHERE**: what is returned is the
    text of the segments that are complete in the buffer; what is held back is the beginning of the
    sequence the buffer ends in (if any); together with the rest of the stream it is again a stream
    of text and tame sequences. -/
theorem cleanBuf_segs : ∀ (segs : List Seg), (∀ g ∈ segs, g.Tame) → ∀ (buf rest : Bytes),
    buf ++ rest = segBytes segs →
    ∃ segs', (∀ g ∈ segs', g.Tame) ∧ (cleanBuf buf).2 ++ rest = segBytes segs' ∧
      (cleanBuf buf).1 ++ segPlain segs' = segPlain segs ∧ HeldShape (cleanBuf buf).2 segs' := by
  intro segs
  induction segs with
  | nil =>
    intro _ buf rest h
    have : buf = [] ∧ rest = [] := by simpa [segBytes] using h
    obtain ⟨rfl, rfl⟩ := this
    exact ⟨[], by simp, by simp [cleanBuf, segBytes], by simp [cleanBuf, segPlain], Or.inl (by simp [cleanBuf])⟩
  | cons g tl ih =>
    intro ht buf rest h
    have httl : ∀ g ∈ tl, g.Tame := fun g hg => ht g (by simp [hg])
    have hsb : segBytes (g :: tl) = g.bytes ++ segBytes tl := by simp [segBytes]
    rw [hsb] at h
    cases g with
    | text b hb =>
      simp only [Seg.bytes] at h
      rcases List.append_eq_append_iff.mp h with ⟨a', h1, h2⟩ | ⟨c', h1, h2⟩
      · -- the buffer ends inside the text: b = buf ++ a'
        have hbuf : ∀ x ∈ buf, isAnsiStart x = false := fun x hx => hb x (by rw [h1]; exact List.mem_append_left _ hx)
        have ha' : ∀ x ∈ a', isAnsiStart x = false := fun x hx => hb x (by rw [h1]; exact List.mem_append_right _ hx)
        have hcb : cleanBuf buf = (buf, []) := by
          have := cleanBuf_text buf [] hbuf
          simpa [cleanBuf] using this
        refine ⟨Seg.text a' ha' :: tl, ?_, ?_, ?_, Or.inl (by rw [hcb])⟩
        · intro g hg
          rcases List.mem_cons.mp hg with e | e
          · subst e; trivial
          · exact httl g e
        · rw [hcb]; simp [segBytes, Seg.bytes, h2]
        · rw [hcb]; simp [segPlain, Seg.plain, h1]
      · -- the whole text is in the buffer: buf = b ++ c'
        obtain ⟨segs', h1', h2', h3', h4'⟩ := ih httl c' rest h2.symm
        rw [h1, cleanBuf_text b c' hb]
        refine ⟨segs', h1', h2', ?_, h4'⟩
        simp only [segPlain, List.map_cons, List.flatten_cons, Seg.plain, List.append_assoc] at h3' ⊢
        rw [h3']
    | seq s =>
      have hs : s.Tame := ht (Seg.seq s) List.mem_cons_self
      simp only [Seg.bytes] at h
      rcases List.append_eq_append_iff.mp h with ⟨a', h1, h2⟩ | ⟨c', h1, h2⟩
      · -- the buffer ends inside the sequence (or exactly at its end)
        cases a' with
        | nil =>
          -- buf = s.bytes: the sequence is complete
          simp only [List.append_nil] at h1
          obtain ⟨segs', h1', h2', h3', h4'⟩ := ih httl [] rest (by simp [h2])
          have hcb : cleanBuf buf = ([], []) := by
            rw [← h1]
            unfold cleanBuf
            obtain ⟨t, hst, _⟩ := s.bytes_head
            have : s.bytes.contains ESC = true := by rw [hst]; simp
            simp only [this, ↓reduceIte]
            have := stripAnsi_seq s []
            simp only [List.append_nil] at this
            rw [this]
            simp [stripAnsi, splitHeld]
          have hc0 : cleanBuf ([] : Bytes) = ([], []) := by simp [cleanBuf]
          rw [hc0] at h2' h3' h4'
          refine ⟨segs', h1', by rw [hcb]; exact h2', ?_, by rw [hcb]; exact h4'⟩
          rw [hcb]
          simp only [segPlain, List.map_cons, List.flatten_cons, Seg.plain, List.nil_append] at h3' ⊢
          exact h3'
        | cons a0 ar =>
          by_cases hb0 : buf = []
          · subst hb0
            refine ⟨Seg.seq s :: tl, ht, ?_, ?_, Or.inl (by simp [cleanBuf])⟩
            · simp only [cleanBuf, List.contains_nil, Bool.false_eq_true, ↓reduceIte, List.nil_append] at h ⊢
              rw [hsb]; exact h
            · simp [cleanBuf]
          · have hcb := cleanBuf_seq_prefix s hs buf (a0 :: ar) h1.symm hb0 (by simp)
            refine ⟨Seg.seq s :: tl, ht, ?_, ?_, ?_⟩
            · rw [hcb, hsb]; exact h
            · rw [hcb]; simp
            · rw [hcb]
              exact Or.inr ⟨s, tl, a0 :: ar, rfl, h1.symm, by simp, hb0⟩
      · -- the whole sequence is in the buffer: buf = s.bytes ++ c'
        obtain ⟨segs', h1', h2', h3', h4'⟩ := ih httl c' rest h2.symm
        have hcb : cleanBuf buf = cleanBuf c' := by
          rw [h1]
          unfold cleanBuf
          obtain ⟨t, hst, _⟩ := s.bytes_head
          have hc1 : (s.bytes ++ c').contains ESC = true := by rw [hst]; simp
          simp only [hc1, ↓reduceIte, stripAnsi_seq]
          split
          · rfl
          · -- c' has no ESC: it is text only (introducers of a tame stream are ESCs)
            rename_i hne
            have hc'plain : ∀ x ∈ c', isAnsiStart x = false := by
              intro x hx
              cases hi : isAnsiStart x with
              | false => rfl
              | true =>
                exfalso
                have hmem : x ∈ segBytes tl := by rw [h2]; exact List.mem_append_left _ hx
                have := tame_introducers_are_ESC tl httl x hmem hi
                subst this
                exact hne (by simpa using hx)
            rw [stripAnsi_plain c' hc'plain, splitHeld_plain c' hc'plain]
        rw [hcb]
        refine ⟨segs', h1', h2', ?_, h4'⟩
        simp only [segPlain, List.map_cons, List.flatten_cons, Seg.plain, List.nil_append] at h3' ⊢
        exact h3'

theorem segPlain_of_bytes_nil : ∀ (segs : List Seg), segBytes segs = [] → segPlain segs = [] := by
  intro segs
  induction segs with
  | nil => intro _; rfl
  | cons g tl ih =>
    intro h
    simp only [segBytes, List.map_cons, List.flatten_cons, List.append_eq_nil_iff] at h
    cases g with
    | text b hb =>
      simp only [Seg.bytes] at h
      have h2 := ih (by simpa [segBytes] using h.2)
      simp only [segPlain] at h2
      simp only [segPlain, List.map_cons, List.flatten_cons, Seg.plain, h.1, h2, List.append_nil]
    | seq s =>
      obtain ⟨t, hst, _⟩ := s.bytes_head
      simp only [Seg.bytes, hst] at h
      exact absurd h.1 (by simp)

/-- the reads of a whole stream, the stream starting with what is held back -/
theorem cleanPieces_segs : ∀ (rs : List Bytes) (h : Bytes) (segs : List Seg), (∀ g ∈ segs, g.Tame) →
    CR ∉ rs.flatten → h ++ rs.flatten = segBytes segs → HeldShape h segs →
    (cleanPieces h rs).1.flatten = segPlain segs ∧ (cleanPieces h rs).2 = [] := by
  intro rs
  induction rs with
  | nil =>
    intro h segs _ _ hb hshape
    simp only [List.flatten_nil, List.append_nil] at hb
    rcases hshape with e | ⟨s, tl, x, hsegs, hhx, hx, _⟩
    · subst e
      exact ⟨by simp [cleanPieces, segPlain_of_bytes_nil segs hb.symm], rfl⟩
    · exfalso
      rw [hsegs] at hb
      have : h.length = (s.bytes ++ segBytes tl).length := by
        rw [hb]; simp [segBytes, Seg.bytes]
      have h2 : s.bytes.length = h.length + x.length := by rw [← hhx]; simp
      have h3 : 0 < x.length := List.length_pos_iff.mpr hx
      simp only [List.length_append] at this
      omega
  | cons c cs ih =>
    intro h segs ht hcr hb _
    have hc : CR ∉ c := fun x => hcr (by simp [x])
    have hcs : CR ∉ cs.flatten := fun x => hcr (by simp [x])
    have hsc : stripCR c = c := by
      unfold stripCR
      rw [List.filter_eq_self]
      intro a ha
      have : a ≠ CR := fun e => hc (e ▸ ha)
      simpa using this
    obtain ⟨segs', h1, h2, h3, h4⟩ := cleanBuf_segs segs ht (h ++ c) cs.flatten (by simpa using hb)
    obtain ⟨ih1, ih2⟩ := ih (cleanBuf (h ++ c)).2 segs' h1 hcs h2 h4
    unfold cleanPieces
    simp only [chanReadH, hsc, List.flatten_cons]
    exact ⟨by rw [ih1, h3], ih2⟩

/-- **escape sequences are invisible under EVERY segmentation** (since fix `_strip_ansi_read`): over
    ANY list of reads whose concatenation is a stream of text and complete supported sequences
    (ESC-introduced, no introducer byte inside, at most 256 bytes each) — cuts inside sequences
    included — the concatenation of what the reads return is exactly the text, and nothing is held
    back at the end. -/
theorem ansi_any_chunk (segs : List Seg) (ht : ∀ g ∈ segs, g.Tame) (rs : List Bytes)
    (hcr : CR ∉ rs.flatten) (hrs : rs.flatten = segBytes segs) :
    (cleanPieces [] rs).1.flatten = segPlain segs ∧ (cleanPieces [] rs).2 = [] :=
  cleanPieces_segs rs [] segs ht hcr (by simpa using hrs) (Or.inl rfl)

/-- non-vacuity: "ab ESC[31m c ESC]0;t BEL d" -/
def exSegs : List Seg :=
  [.text [97, 98] (by decide), .seq (.csi [51, 49] 109 (by decide) (by decide)), .text [99] (by decide),
   .seq (.osc 48 [59, 116] (by decide) (by decide)), .text [100] (by decide)]

theorem exSegs_tame : ∀ g ∈ exSegs, g.Tame := by
  intro g hg
  simp only [exSegs, List.mem_cons, List.not_mem_nil, or_false] at hg
  rcases hg with e | e | e | e | e <;> subst e
  · trivial
  · exact ⟨by decide, by decide⟩
  · trivial
  · exact ⟨by decide, by decide⟩
  · trivial

/-- … read as  "ab ESC[3" · "1mc ESC" · "]0;t" · "BEL d": every read ends inside a sequence, the
    reads together return "abcd" -/
example : (cleanPieces [] [[97, 98, 27, 91, 51], [49, 109, 99, 27], [93, 48, 59, 116], [7, 100]]).1.flatten
    = [97, 98, 99, 100] ∧
    (cleanPieces [] [[97, 98, 27, 91, 51], [49, 109, 99, 27], [93, 48, 59, 116], [7, 100]]).2 = [] :=
  ansi_any_chunk exSegs exSegs_tame _ (by decide) (by decide)

/-! ### CR and escape sequences together; the prompt read over a decorated stream -/

theorem stripCR_idem (b : Bytes) : stripCR (stripCR b) = stripCR b := by
  simp [stripCR, List.filter_filter]

theorem map_stripCR_flatten (rs : List Bytes) : (rs.map stripCR).flatten = stripCR rs.flatten := by
  induction rs with
  | nil => rfl
  | cons c cs ih => simp only [List.map_cons, List.flatten_cons, stripCR_append, ih]

theorem not_mem_stripCR (b : Bytes) : CR ∉ stripCR b := by
  intro h
  have := (List.mem_filter.mp h).2
  simp at this

/-- carriage returns are removed before anything else: the reads of a stream and of the same stream
    without its CRs return the same -/
theorem cleanPieces_stripCR : ∀ (rs : List Bytes) (h : Bytes),
    cleanPieces h rs = cleanPieces h (rs.map stripCR) := by
  intro rs
  induction rs with
  | nil => intro h; rfl
  | cons c cs ih =>
    intro h
    simp only [List.map_cons, cleanPieces, chanReadH, stripCR_idem]
    rw [ih]

/-- **CRs and escape sequences inserted anywhere, every segmentation**: if the stream, CRs removed,
    is text and complete tame sequences (a CR may sit inside a sequence, a read may end inside a
    sequence), the reads together return exactly the text. -/
theorem ansi_cr_any_chunk (segs : List Seg) (ht : ∀ g ∈ segs, g.Tame) (rs : List Bytes)
    (hrs : stripCR rs.flatten = segBytes segs) :
    (cleanPieces [] rs).1.flatten = segPlain segs ∧ (cleanPieces [] rs).2 = [] := by
  rw [cleanPieces_stripCR]
  refine ansi_any_chunk segs ht (rs.map stripCR) ?_ ?_
  · rw [map_stripCR_flatten]; exact not_mem_stripCR _
  · rw [map_stripCR_flatten]; exact hrs

/-- **prompt read under arbitrary chunking AND arbitrary CR / escape-sequence decoration**: if the
    raw stream, CRs removed, is a stream of text and tame sequences whose text is
    `body ++ NL :: p ++ t`, the read stops at the prompt with the same buffer content as for the
    undecorated stream — wherever the read boundaries fall. -/
theorem readUntilPrompt_ansi_chunk_indep {P : Bytes → Bool} (pat : Pat) (d : Nat) (body p t : Bytes)
    (hS : ∀ w, pat.search w = (splitNL w).any P)
    (hb : Quiet P body) (he : NoEarly P p) (hok : PromptOK P p t)
    (hnlp : NL ∉ p) (hnlt : NL ∉ t) (hp0 : p ≠ []) (hd : (p ++ t).length < d)
    (segs : List Seg) (ht : ∀ g ∈ segs, g.Tame) (hplain : segPlain segs = body ++ NL :: p ++ t)
    (rs : List Bytes) (hrs : stripCR rs.flatten = segBytes segs) :
    ∃ k t', t' <+: t ∧
      readLoop (promptSeen pat d) [] (cleanPieces [] rs).1 = some (body ++ NL :: p ++ t', k) := by
  obtain ⟨k, t', ht', _, hrl, _⟩ :=
    readLoop_prompt pat d body p t hS hb he hok hnlp hnlt hp0 hd (cleanPieces [] rs).1 []
      (by rw [List.nil_append, (ansi_cr_any_chunk segs ht rs hrs).1, hplain]) (by simp; omega)
  exact ⟨k, t', ht', hrl⟩

/-! ### why `NoEarly` is a hypothesis: a prompt pattern that accepts a proper prefix of the prompt
    (known finding F10: the GenericDriver default pattern and `user@host:~>`) -/

/-- a generic-like line predicate: no blank, ends in `@` or `>` -/
def toyP (s : Bytes) : Bool :=
  match s.getLast? with
  | some c => (c == 64 || c == 62) && !s.contains 32
  | none => false
def toyPat : Pat :=
  { search := fun x => (splitNL x).any toyP, first := fun x => (splitNL x).find? toyP, sub := id }
def toyCfg : Cfg := { prompt := toyPat, compile := fun _ => toyPat, depth := 100, ret := [NL], rough := false }
/-- prompt "a@b>" -/
def toyDev : LineDev := { out := fun _ => [], prompt := [97, 64, 98, 62], trail := [] }

/-- **F10 in the model (refutation of chunking independence without `NoEarly`)**: the same device,
    the same bytes; read whole, `get_prompt` returns "a@b>", read 3 bytes first it returns "a@". -/
theorem getPrompt_prefix_prompt_refuted :
    (getPrompt toyCfg toyDev.onWrite ({ cuts := [] }, [])).map (·.1) = some [97, 64, 98, 62] ∧
    (getPrompt toyCfg toyDev.onWrite ({ cuts := [3] }, [])).map (·.1) = some [97, 64] := by decide

/-! ### rough echo matching -/

theorem roughIter_some {ch : UInt8} : ∀ {out rest : Bytes}, roughIter ch out = some rest →
    ∃ pre, out = pre ++ ch :: rest := by
  intro out
  induction out with
  | nil => intro rest h; simp [roughIter] at h
  | cons o r ih =>
    intro rest h
    unfold roughIter at h
    split at h
    · rename_i he
      have : ch = o := by simpa using he
      subst this
      exact ⟨[], by simpa using h⟩
    · obtain ⟨pre, hp⟩ := ih h
      exact ⟨o :: pre, by simp [hp]⟩

/-- the greedy scan of helper.py is exactly "the input is a subsequence of the output" -/
theorem roughAll_iff_sublist : ∀ (inp out : Bytes), roughAll inp out = true ↔ inp.Sublist out := by
  intro inp
  induction inp with
  | nil => intro out; simp [roughAll]
  | cons ch r ih =>
    intro out
    induction out with
    | nil => simp [roughAll, roughIter]
    | cons o t iht =>
      unfold roughAll roughIter
      by_cases he : ch = o
      · subst he
        simp only [beq_self_eq_true, ↓reduceIte, ih t]
        constructor
        · intro h; exact h.cons₂ ch
        · intro h
          rcases List.sublist_cons_iff.mp h with h' | ⟨r', hr', h'⟩
          · exact (List.sublist_cons_self ch r).trans h'
          · have : r = r' := by simpa using hr'
            subst this; exact h'
      · have hne : (ch == o) = false := by simpa using he
        simp only [hne, Bool.false_eq_true, ↓reduceIte]
        have iht' := iht
        unfold roughAll at iht'
        rw [iht']
        constructor
        · intro h; exact h.cons o
        · intro h
          rcases List.sublist_cons_iff.mp h with h' | ⟨r', hr', _⟩
          · exact h'
          · exact absurd (by simpa using hr' : ch = o ∧ r = r').1 he

/-- **rough matching stops as soon as, and only when, the whole input has been echoed in order**,
    whatever extra bytes are interleaved: the stop test is monotone in the buffer and equivalent to
    the subsequence relation (after the fix 6a45876 to the containment test). -/
theorem rough_stop_iff (inp out : Bytes) : roughlyContains inp out = true ↔ inp.Sublist out := by
  unfold roughlyContains
  split
  · rename_i h
    simp only [true_iff]
    exact ((isInfixB_iff _ _).mp h).sublist
  · split
    · rename_i _ hl
      simp only [Bool.false_eq_true, false_iff]
      intro hs
      have := hs.length_le
      omega
    · exact roughAll_iff_sublist inp out

theorem rough_monotone (inp a b : Bytes) (h : roughlyContains inp a = true) :
    roughlyContains inp (a ++ b) = true := by
  rw [rough_stop_iff] at *
  exact h.trans (List.sublist_append_left a b)

/-! ### the rough echo read, exact for every segmentation -/

/-- the generic read loop stops at the FIRST piece boundary where its stop test holds -/
theorem readLoop_min (stop : Bytes → Bool) : ∀ (cs : List Bytes) (acc : Bytes),
    (∃ j, 1 ≤ j ∧ j ≤ cs.length ∧ stop (acc ++ (cs.take j).flatten) = true) →
    ∃ k, 1 ≤ k ∧ k ≤ cs.length ∧ readLoop stop acc cs = some (acc ++ (cs.take k).flatten, k) ∧
      stop (acc ++ (cs.take k).flatten) = true ∧
      ∀ j, 1 ≤ j → j < k → stop (acc ++ (cs.take j).flatten) = false := by
  intro cs
  induction cs with
  | nil => intro acc ⟨j, h1, h2, _⟩; simp at h2; omega
  | cons c cs ih =>
    intro acc ⟨j, h1, h2, h3⟩
    by_cases hs : stop (acc ++ c) = true
    · refine ⟨1, Nat.le_refl 1, by simp, ?_, by simpa using hs, fun j hj1 hj2 => by omega⟩
      unfold readLoop; simp [hs]
    · have hs' : stop (acc ++ c) = false := by simpa using hs
      have hj : 2 ≤ j := by
        rcases Nat.lt_or_ge j 2 with h | h
        · have : j = 1 := by omega
          subst this
          simp at h3
          rw [h3] at hs'; exact absurd hs' (by simp)
        · exact h
      obtain ⟨k, hk1, hk2, hk3, hk4, hk5⟩ := ih (acc ++ c) ⟨j - 1, by omega, by simp at h2; omega, by
        have : (c :: cs).take j = c :: cs.take (j - 1) := by
          cases j with
          | zero => omega
          | succ n => simp
        rw [this] at h3
        simpa [List.append_assoc] using h3⟩
      refine ⟨k + 1, by omega, by simp; omega, ?_, by simpa [List.append_assoc] using hk4, ?_⟩
      · unfold readLoop
        simp only [hs', Bool.false_eq_true, ↓reduceIte]
        rw [hk3]
        simp [List.append_assoc]
      · intro i hi1 hi2
        rcases Nat.lt_or_ge i 2 with h | h
        · have : i = 1 := by omega
          subst this
          simpa using hs'
        · have := hk5 (i - 1) (by omega) (by omega)
          have e : (c :: cs).take i = c :: cs.take (i - 1) := by
            cases i with
            | zero => omega
            | succ n => simp
          rw [e]
          simpa [List.append_assoc] using this

/-- the visible echo contained in a buffer: its lower-cased bytes that occur in the (squished) input -/
def echoPart (vis buf : Bytes) : Bytes := (buf.map lowerByte).filter (fun c => vis.contains c)

theorem echoPart_append (vis a b : Bytes) : echoPart vis (a ++ b) = echoPart vis a ++ echoPart vis b := by
  simp [echoPart]

theorem filter_self_contains (vis : Bytes) : vis.filter (fun c => vis.contains c) = vis := by
  rw [List.filter_eq_self]; intro a ha; simpa using ha

/-- **rough matching, the stop test made exact**: if every byte the device interleaves with the echo
    (junk, blanks, re-drawn characters) is a byte that does not occur in the squished input, then on
    every prefix `y` of the echo stream the rough test holds iff the whole visible echo has arrived -/
theorem rough_seen_iff (input s y : Bytes) (hs : echoPart (squish input) s = squish input) (hy : y <+: s) :
    inputSeen true input y = true ↔ echoPart (squish input) y = squish input := by
  unfold inputSeen
  simp only [Bool.not_true, Bool.false_eq_true, ↓reduceIte]
  rw [rough_stop_iff]
  have hpre : echoPart (squish input) y <+: squish input := by
    obtain ⟨z, rfl⟩ := hy
    rw [echoPart_append] at hs
    exact ⟨_, hs⟩
  constructor
  · intro h
    have h1 : (squish input).Sublist (echoPart (squish input) y) := by
      have := h.filter (fun c => (squish input).contains c)
      rwa [filter_self_contains] at this
    exact hpre.eq_of_length (Nat.le_antisymm hpre.length_le h1.length_le)
  · intro h
    rw [← h]
    exact List.filter_sublist

/-- **rough echo read, exact for every segmentation** (since fix f3f6abb also for inputs with upper-case
    letters): over any list of reads of an echo stream in which everything that is not the echo itself
    consists of bytes foreign to the input, `_read_until_input` in rough mode returns at the FIRST read
    boundary at which the whole visible echo has arrived — never earlier, never later. -/
theorem readUntilInput_rough_exact (input s : Bytes)
    (hs : echoPart (squish input) s = squish input) (cs : List Bytes) (hcs : cs.flatten = s) (hne : cs ≠ []) :
    ∃ k, 1 ≤ k ∧ readLoop (inputSeen true input) [] cs = some ((cs.take k).flatten, k) ∧
      echoPart (squish input) (cs.take k).flatten = squish input ∧
      ∀ j, 1 ≤ j → j < k → echoPart (squish input) (cs.take j).flatten ≠ squish input := by
  have hpre : ∀ j, (cs.take j).flatten <+: s := by
    intro j
    rw [← hcs]
    conv => rhs; rw [← List.take_append_drop j cs]
    rw [List.flatten_append]
    exact List.prefix_append _ _
  have hlen : 1 ≤ cs.length := by
    cases cs with
    | nil => exact absurd rfl hne
    | cons _ _ => simp
  obtain ⟨k, hk1, _, hk3, hk4, hk5⟩ := readLoop_min (inputSeen true input) cs []
    ⟨cs.length, hlen, Nat.le_refl _, by
      simp only [List.nil_append, List.take_length]
      rw [rough_seen_iff input s cs.flatten hs (by rw [hcs]; exact List.prefix_refl _), hcs]
      exact hs⟩
  simp only [List.nil_append] at hk3 hk4 hk5
  refine ⟨k, hk1, hk3, (rough_seen_iff input s _ hs (hpre k)).mp hk4, ?_⟩
  intro j hj1 hj2 h
  have := hk5 j hj1 hj2
  rw [(rough_seen_iff input s _ hs (hpre j)).mpr h] at this
  exact absurd this (by simp)

/-- non-vacuity: input "Sh x" (squished "shx"), echo stream "~S\x08 H^ ~ X" read as "~S\x08" · " H^ ~" · " X" -/
example : echoPart (squish [83, 104, 32, 120]) [126, 83, 8, 32, 72, 94, 32, 126, 32, 88] = squish [83, 104, 32, 120] := by
  decide

/-! ### the timed read loop (`send_input_and_read` → `_read_until_prompt_or_time`)

  A transport read that times out inside this loop is swallowed (`with suppress(ScrapliTimeout)`): the line
  going quiet for a whole transport timeout, at any point of the response, is one more way in which the same
  device byte stream can reach the channel differently.  `pauses` ranges over every pattern of such quiet
  intervals, `cuts` over every segmentation. -/

/-- **quiet intervals are invisible**: with a clock that does not run out, the timed read returns the buffer
    of the plain read over the same bytes, leaves the same bytes unread and the same bytes held back — for
    every pause pattern, every segmentation and every stop test that is not already true of the empty buffer -/
theorem timed_pauses_invisible (stop : Bytes → Bool) (h0 : stop [] = false) (pauses : List Bool) (w : Wire) :
    Wire.readUntilTimed stop pauses none w = Wire.readUntil stop w :=
  readUntilTimed_eq stop h0 pauses w

/-- **whatever ends the timed loop** — an expected output, the prompt, or the clock — what it returns is
    exactly the pieces it consumed, in order (with `raw` returned and the rest unread nothing of the device's
    stream is lost or duplicated when the duration runs out mid-response) -/
theorem timed_returns_what_it_read (stop : Bytes → Bool) (es : List (Option Bytes)) (clock : Option Nat)
    (buf : Bytes) (k : Nat) (h : timedLoop stop [] es clock = some (buf, k)) :
    buf = ((es.filterMap id).take k).flatten := by
  simpa using timedLoop_result_eq stop es [] buf clock k h

/-- **`send_input_and_read` = `send_input`** whenever the expected outputs do not show up in the response
    and the duration does not run out: same raw and processed result, same writes, same wire afterwards,
    for every pause pattern (any device, any pattern: no hypothesis on either) -/
theorem send_and_read_eq_send_input {σ : Type} (cfg : Cfg) (dev : σ → Bytes → σ × Bytes) (input : Bytes)
    (stripPrompt : Bool) (outs : List Bytes) (outPat : Pat) (pauses : List Bool) (s : Wire × σ)
    (raw proc : Bytes) (st : Wire × σ)
    (h : sendInput cfg dev input stripPrompt false false s = some ((raw, proc), st))
    (hb0 : promptSeen cfg.prompt cfg.depth [] = false)
    (hq : ∀ b, b <+: raw → outsSeen cfg outs outPat b = false) :
    sendInputAndRead cfg dev input stripPrompt outs outPat pauses none s = some ((raw, proc), st) := by
  have hrw : sendInput cfg dev input stripPrompt false false s =
      (match (if input.isEmpty then some (Wire.write dev s input).1
              else (Wire.readUntil (inputSeen cfg.rough input) (Wire.write dev s input).1).map (·.2)) with
       | none => none
       | some w1 =>
         match Wire.readUntil (promptSeen cfg.prompt cfg.depth) (Wire.write dev (w1, (Wire.write dev s input).2) cfg.ret).1 with
         | none => none
         | some (buf, w2) => some ((buf, processOutput cfg buf stripPrompt), (w2, (Wire.write dev (w1, (Wire.write dev s input).2) cfg.ret).2))) := rfl
  rw [hrw] at h
  unfold sendInputAndRead
  simp only
  generalize (if input.isEmpty then some (Wire.write dev s input).1
      else (Wire.readUntil (inputSeen cfg.rough input) (Wire.write dev s input).1).map (·.2)) = o at h ⊢
  cases o with
  | none => simp at h
  | some w1 =>
    simp only at h ⊢
    cases hr : Wire.readUntil (promptSeen cfg.prompt cfg.depth) (Wire.write dev (w1, (Wire.write dev s input).2) cfg.ret).1 with
    | none => simp [hr] at h
    | some r =>
      simp only [hr, Option.some.injEq, Prod.mk.injEq] at h
      obtain ⟨⟨h1, h2⟩, h3⟩ := h
      have h0 : timedStop cfg outs outPat [] = false := by
        unfold timedStop
        rw [hq [] List.nil_prefix, hb0]; rfl
      rw [readUntilTimed_eq _ h0]
      have := readUntil_congr (timedStop cfg outs outPat) (promptSeen cfg.prompt cfg.depth) _ r.2 r.1
        (by rw [hr]) (by
          intro b hb
          unfold timedStop
          rw [hq b (by rw [← h1]; exact hb)]; rfl)
      rw [this]
      simp only
      rw [← h1, ← h2, ← h3]

/-- **C02 for `send_input_and_read` against the causal line device**: for EVERY segmentation of the reads
    (`w.cuts`) and EVERY pattern of quiet intervals (`pauses`), a command inside the quantifier whose expected
    outputs are foreign to its response returns exactly `expected` — a function of the command alone —,
    writes the input and one return, and leaves only trailing blanks unread -/
theorem send_and_read_exact {P : Bytes → Bool} {cfg : Cfg} {dv : LineDev} (hf : Fits P cfg dv)
    (input : Bytes) (hg : GoodCmd P dv input) (stripPrompt : Bool) (outs : List Bytes) (outPat : Pat)
    (hquiet : ∀ (L t' b : Bytes), (∀ x ∈ L, isWs x = true) → t' <+: dv.trail →
      b <+: L ++ dv.rbody input ++ NL :: dv.prompt ++ t' → outsSeen cfg outs outPat b = false)
    (pauses : List Bool) (w : Wire) (hres : ∀ x ∈ w.avail, isHws x = true) (hheld : w.held = []) :
    ∃ raw w', sendInputAndRead cfg dv.onWrite input stripPrompt outs outPat pauses none (w, []) =
        some ((raw, expected cfg dv stripPrompt input), (w', [])) ∧
      w'.writes = w.writes ++ [input, cfg.ret] ∧ (∀ x ∈ w'.avail, isHws x = true) ∧ w'.held = [] := by
  obtain ⟨raw, w', hs, ⟨L, t', hL, ht, hraw⟩, hw, ha, hh⟩ := send_input_exact hf input hg stripPrompt w hres hheld
  refine ⟨raw, w', ?_, hw, ha, hh⟩
  apply send_and_read_eq_send_input cfg dv.onWrite input stripPrompt outs outPat pauses (w, []) raw _ _ hs
  · unfold promptSeen
    have : processReadBuf cfg.depth [] = [] := by
      obtain ⟨a, c, h⟩ := processReadBuf_infix cfg.depth []
      have h' : a = [] ∧ processReadBuf cfg.depth [] = [] ∧ c = [] := by simpa using h
      exact h'.2.1
    rw [this, hf.search_lines]
    have hb := hf.blank [] rfl
    simp [splitNL, hb]
  · intro b hb
    exact hquiet L t' b hL ht (by rw [← hraw]; exact hb)

/-- hence: two runs of the same command that differ in segmentation AND in where the line went quiet
    return the same processed result and write the same bytes -/
theorem send_and_read_chunk_pause_indep {P : Bytes → Bool} {cfg : Cfg} {dv : LineDev} (hf : Fits P cfg dv)
    (input : Bytes) (hg : GoodCmd P dv input) (stripPrompt : Bool) (outs : List Bytes) (outPat : Pat)
    (hquiet : ∀ (L t' b : Bytes), (∀ x ∈ L, isWs x = true) → t' <+: dv.trail →
      b <+: L ++ dv.rbody input ++ NL :: dv.prompt ++ t' → outsSeen cfg outs outPat b = false)
    (pauses₁ pauses₂ : List Bool) (w₁ w₂ : Wire) (hw : w₁.writes = w₂.writes)
    (h₁ : ∀ x ∈ w₁.avail, isHws x = true) (h₂ : ∀ x ∈ w₂.avail, isHws x = true)
    (hh₁ : w₁.held = []) (hh₂ : w₂.held = []) :
    ∃ (raw₁ raw₂ proc₁ proc₂ : Bytes) (v₁ v₂ : Wire),
      sendInputAndRead cfg dv.onWrite input stripPrompt outs outPat pauses₁ none (w₁, []) = some ((raw₁, proc₁), (v₁, [])) ∧
      sendInputAndRead cfg dv.onWrite input stripPrompt outs outPat pauses₂ none (w₂, []) = some ((raw₂, proc₂), (v₂, [])) ∧
      proc₁ = proc₂ ∧ v₁.writes = v₂.writes := by
  obtain ⟨raw₁, v₁, e₁, hw₁, _, _⟩ := send_and_read_exact hf input hg stripPrompt outs outPat hquiet pauses₁ w₁ h₁ hh₁
  obtain ⟨raw₂, v₂, e₂, hw₂, _, _⟩ := send_and_read_exact hf input hg stripPrompt outs outPat hquiet pauses₂ w₂ h₂ hh₂
  exact ⟨raw₁, raw₂, _, _, v₁, v₂, e₁, e₂, rfl, by rw [hw₁, hw₂, hw]⟩

/-- **without expected outputs the timed loop ends with its first iteration**: `_join_and_compile([])` is the
    empty pattern, which is found in every buffer — so `send_input_and_read(cmd)` with no `expected_outputs`
    returns whatever the first read delivered, and its result DOES depend on the segmentation (advisory:
    `send_input_and_read` is not among the operations C02 lists; stated here so that the model says it) -/
theorem timed_no_outputs_first_read (cfg : Cfg) (outPat : Pat) (hall : ∀ b, outPat.search b = true)
    (acc c : Bytes) (es : List (Option Bytes)) (clock : Option Nat) :
    timedLoop (timedStop cfg [] outPat) acc (some c :: es) clock = some (acc ++ c, 1) := by
  unfold timedLoop
  have : timedStop cfg [] outPat (acc ++ c) = true := by
    unfold timedStop outsSeen; simp [hall]
  simp only [this, if_true]
  split <;> rfl

/-! non-vacuity: the example device / pattern / command of C01.lean, expected output "ZZ" (compiled with re.I),
    arbitrary cuts and arbitrary quiet intervals -/

def tmOuts : List Bytes := [[90, 90]]
def tmPat : Pat :=                       -- `(ZZ)` compiled with re.I, as a search
  { search := fun w => isInfixB [90, 90] w || isInfixB [122, 122] w || isInfixB [90, 122] w || isInfixB [122, 90] w,
    first := fun _ => none, sub := id }

theorem no_infix_of_not_mem {a b : UInt8} {sb : Bytes} (h : a ∉ sb) : isInfixB [a, b] sb = false := by
  cases hh : isInfixB [a, b] sb with
  | false => rfl
  | true => exact absurd (((isInfixB_iff _ _).1 hh).subset (by simp)) h

theorem tm_quiet : ∀ (L t' b : Bytes), (∀ x ∈ L, isWs x = true) → t' <+: exDev.trail →
    b <+: L ++ exDev.rbody exCmd ++ NL :: exDev.prompt ++ t' → outsSeen exCfg tmOuts tmPat b = false := by
  intro L t' b hL ht hb
  -- neither 'Z' nor 'z' occurs in the stream
  have hstream : ∀ y, y ∈ L ++ exDev.rbody exCmd ++ NL :: exDev.prompt ++ t' → y ≠ 90 ∧ y ≠ 122 := by
    intro y hy
    simp only [List.mem_append, List.mem_cons] at hy
    have hmid : ∀ y, y ∈ exDev.rbody exCmd ++ NL :: exDev.prompt → y ≠ 90 ∧ y ≠ 122 := by decide
    rcases hy with ((hy | hy) | hy | hy) | hy
    · have := hL y hy
      constructor <;> (intro e; subst e; revert this; decide)
    · exact hmid y (by simp [hy])
    · exact hmid y (by simp [hy])
    · exact hmid y (by simp [hy])
    · have : y ∈ exDev.trail := ht.subset hy
      have h32 : y = 32 := by simpa [exDev] using this
      subst h32; decide
  have h90 : (90 : UInt8) ∉ processReadBuf exCfg.depth b := fun hy =>
    (hstream 90 (hb.subset ((processReadBuf_infix exCfg.depth b).subset hy))).1 rfl
  have h122 : (122 : UInt8) ∉ processReadBuf exCfg.depth b := fun hy =>
    (hstream 122 (hb.subset ((processReadBuf_infix exCfg.depth b).subset hy))).2 rfl
  unfold outsSeen
  simp only [tmOuts, tmPat, List.any_cons, List.any_nil, Bool.or_false,
    no_infix_of_not_mem h90, no_infix_of_not_mem h122, Bool.or_self]

/-- the timed-read theorem applies to a concrete non-trivial instance (output longer than the window, one blank
    of residue), for arbitrary cuts AND arbitrary quiet intervals -/
example (cuts : List Nat) (pauses : List Bool) :
    ∃ raw w', sendInputAndRead exCfg exDev.onWrite exCmd true tmOuts tmPat pauses none ({ avail := [32], cuts := cuts }, []) =
      some ((raw, expected exCfg exDev true exCmd), (w', [])) ∧ w'.writes = [exCmd, [NL]] :=
  let ⟨raw, w', h1, h2, _, _⟩ := send_and_read_exact exFits exCmd exGood true tmOuts tmPat tm_quiet pauses
    { avail := [32], cuts := cuts } (by intro x hx; simp at hx; subst hx; decide) rfl
  ⟨raw, w', h1, by simpa [exCfg] using h2⟩

/-- and the first-read quirk on concrete bytes: no expected outputs, the response arrives in two reads, the call
    returns the first one only -/
example : timedLoop (timedStop exCfg [] { search := fun _ => true, first := fun _ => none, sub := id }) []
    [some [10, 108, 105], some [110, 101, 10, 114, 49, 35]] none = some ([10, 108, 105], 1) := by decide

end Scrapli.Chan
