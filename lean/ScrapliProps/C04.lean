import ScrapliProps.C04Reach
import ScrapliModel.Gen.PrivTables
import ScrapliModel.Priv.Cache
/-
  C04 — acquire_priv reaches the target level or fails in bounded steps.
  Property theorems only (helper lemmas: C04Lemmas.lean — trees and the path search,
  C04Loop.lean — frame lemmas and the loop bound, C04Reach.lean — navigation against the cooperative
  device).  Quantifiers: EVERY well-formed table (any tree shape, any size, with or without registered
  sessions), EVERY iteration order of the graph's neighbour sets, every ordered pair of levels;
  for the bound: EVERY device (any state space, any reaction).
-/
namespace Scrapli.Priv
open Scrapli.Gen.Priv

/-! ### well-formedness is decidable on concrete tables and preserved by registering a session -/

/-- the decidable form of `WF` used for concrete tables: the rank is the position in the table -/
def WFdec (t : Table) : Prop :=
  (names t).Nodup ∧ "" ∉ names t ∧ DUMMY ∉ names t ∧ (∀ l ∈ t, l.prev ≠ "" → l.prev ∈ names t) ∧
  (∀ l ∈ t, l.prev ≠ "" → (names t).idxOf l.prev < (names t).idxOf l.name) ∧
  (∀ l ∈ t, ∀ l' ∈ t, l.prev = "" → l'.prev = "" → l = l')

instance (t : Table) : Decidable (WFdec t) := by unfold WFdec; infer_instance

theorem WF_of_dec {t : Table} (h : WFdec t) : WF t :=
  ⟨h.1, h.2.1, h.2.2.1, h.2.2.2.1, ⟨fun n => (names t).idxOf n, h.2.2.2.2.1⟩, h.2.2.2.2.2⟩

/-- generated obligation: each of the five platform tables (regenerated from the live PRIVS) is a tree
    with unambiguous commands -/
theorem platform_tables_WF : WF iosxe ∧ WF iosxr ∧ WF nxos ∧ WF eos ∧ WF junos :=
  ⟨WF_of_dec (by decide), WF_of_dec (by decide), WF_of_dec (by decide), WF_of_dec (by decide), WF_of_dec (by decide)⟩

theorem platform_tables_CmdsOK : CmdsOK iosxe ∧ CmdsOK iosxr ∧ CmdsOK nxos ∧ CmdsOK eos ∧ CmdsOK junos := by
  refine ⟨?_, ?_, ?_, ?_, ?_⟩ <;> decide

/-- the loop factor regenerated from `acquire_priv` leaves room for every path -/
theorem loopFactor_pos : 1 ≤ loopFactor := by decide

/-- `register_configuration_session` keeps the table well-formed: the new level hangs below an
    existing level under a fresh, non-empty, non-DUMMY name (the freshness is what
    `_create_configuration_session` checks and refuses otherwise) -/
theorem register_preserves_WF {t : Table} (hw : WF t) (tpl : SessTemplate) (name : Name)
    (hp : tpl.prev ∈ names t) (hfresh : name ∉ names t) (hne : name ≠ "") (hnd : name ≠ DUMMY) :
    WF (t ++ [tpl.mk' name]) := by
  have hpe : tpl.prev ≠ "" := fun e => hw.noEmpty (e ▸ hp)
  have hpn : tpl.prev ≠ name := fun e => hfresh (e ▸ hp)
  have hnames : names (t ++ [tpl.mk' name]) = names t ++ [name] := by simp [names, SessTemplate.mk']
  obtain ⟨rk, hrk⟩ := hw.rank
  refine ⟨?_, ?_, ?_, ?_, ⟨fun n => if n = name then rk tpl.prev + 1 else rk n, ?_⟩, ?_⟩
  · rw [hnames]
    exact List.nodup_append.mpr ⟨hw.nodup, by simp, by
      intro a ha b hb; simp at hb; subst hb; exact fun e => hfresh (e ▸ ha)⟩
  · rw [hnames]; simp [hw.noEmpty, Ne.symm hne]
  · rw [hnames]; simp [hw.noDummy, Ne.symm hnd]
  · intro l hl hlp
    rw [hnames]
    rcases List.mem_append.mp hl with h | h
    · exact List.mem_append_left _ (hw.prevIn l h hlp)
    · simp at h; subst h; exact List.mem_append_left _ hp
  · intro l hl hlp
    rcases List.mem_append.mp hl with h | h
    · have h1 : l.prev ≠ name := fun e => hfresh (e ▸ hw.prevIn l h hlp)
      have h2 : l.name ≠ name := fun e => hfresh (e ▸ List.mem_map_of_mem (f := (·.name)) h)
      simp only [h1, h2, if_false]
      exact hrk l h hlp
    · simp at h; subst h
      simp [SessTemplate.mk', hpn]
  · intro l hl l' hl' h1 h2
    have e : ∀ m ∈ t ++ [tpl.mk' name], m.prev = "" → m ∈ t := by
      intro m hm hmp
      rcases List.mem_append.mp hm with h | h
      · exact h
      · simp at h; subst h; exact absurd hmp hpe
    exact hw.oneRoot l (e l hl h1) l' (e l' hl' h2) h1 h2

/-- the table after `registerSession` succeeded is the old one plus one level; so by the previous
    theorem WF is an invariant of every history of registrations -/
theorem registerSession_tbl {σ : Type} (c : Cfg) (w : W σ) (name : Name) (tpl : SessTemplate) (hs : c.sess = some tpl) :
    ((registerSession c w name).2 = .ok ∧ (registerSession c w name).1.tbl = w.tbl ++ [tpl.mk' name] ∧ name ∉ names w.tbl) ∨
    ((registerSession c w name).2 = .valueErr ∧ (registerSession c w name).1 = w) := by
  unfold registerSession
  rw [hs]
  by_cases h : (lookup w.tbl name).isSome
  · right; simp [h]
  · left
    have : name ∉ names w.tbl := fun hn => h (lookup_isSome_iff.mpr hn)
    simp [h, this]

/-! ### the path search -/

/-- **buildMap_is_path**: for a well-formed table and EVERY neighbour order, the change map from `a`
    to `b` is a simple path `a … b` whose consecutive elements are adjacent in the tree, and it is
    THE unique such path (the one through the lowest common ancestor) -/
theorem buildMap_is_path {t : Table} (hw : WF t) (nb : Name → List Name) (hnb : NbOK t nb) {a b : Name}
    (ha : a ∈ names t) (hb : b ∈ names t) :
    Path t a b (changeMap t nb a b) ∧ (changeMap t nb a b).Nodup ∧
    (changeMap t nb a b).length ≤ t.length ∧
    ∀ q, Path t a b q → q.Nodup → q = changeMap t nb a b := by
  obtain ⟨p, hp, hn⟩ := simple_path_exists hw ha hb
  have e := changeMap_eq hw hnb hp hn
  rw [e]
  exact ⟨hp, hn, hp.length_le hw hn, fun q hq hqn => simple_path_unique hw hq hqn hp hn⟩

/-- the result does not depend on the iteration order of Python's sets (PYTHONHASHSEED) -/
theorem buildMap_order_independent {t : Table} (hw : WF t) (nb nb' : Name → List Name) (h : NbOK t nb) (h' : NbOK t nb')
    {a b : Name} (ha : a ∈ names t) (hb : b ∈ names t) : changeMap t nb a b = changeMap t nb' a b := by
  obtain ⟨h1, h2, _, _⟩ := buildMap_is_path hw nb h ha hb
  exact ((buildMap_is_path hw nb' h' ha hb).2.2.2 _ h1 h2)

/-- the tail of the path is the path from the next level: each hop gets one edge closer -/
theorem buildMap_tail {t : Table} (hw : WF t) (nb : Name → List Name) (hnb : NbOK t nb) {a x b : Name} {rest : List Name}
    (ha : a ∈ names t) (hb : b ∈ names t) (h : changeMap t nb a b = a :: x :: rest) :
    changeMap t nb x b = x :: rest := by
  obtain ⟨h1, h2, _, _⟩ := buildMap_is_path hw nb hnb ha hb
  rw [h] at h1 h2
  cases h1 with
  | cons hadj hp' =>
    obtain ⟨r, e⟩ := hp'.head
    cases e
    exact changeMap_eq hw hnb hp' (List.nodup_cons.mp h2).2

/-- **next_hop_action**: from the current level `a ≠ b` the escalate / de-escalate decision of
    `_process_acquire_priv` picks the single table command that moves the (table-obeying) device one
    edge along the path: either "escalate to the next level" when the next level's previous level is
    `a`, or "de-escalate from `a`" when the next level is `a`'s previous level -/
theorem next_hop_action {t : Table} (hw : WF t) (hc : CmdsOK t) (nb : Name → List Name) (hnb : NbOK t nb)
    {a b : Name} (ha : a ∈ names t) (hb : b ∈ names t) (hab : a ≠ b) {la : Level} (hla : lookup t a = some la)
    (ex : List (Name × Line × Name)) :
    ∃ x rest lx, changeMap t nb a b = a :: x :: rest ∧ lookup t x = some lx ∧
      ((nextAction t nb la b = .ok (.escalate lx) ∧ tableMove t ex a lx.esc = some (x, lx.auth)) ∨
       (nextAction t nb la b = .ok (.deescalate la) ∧ tableMove t ex a la.desc = some (x, false))) := by
  obtain ⟨h1, h2, _, _⟩ := buildMap_is_path hw nb hnb ha hb
  cases hcm : changeMap t nb a b with
  | nil => rw [hcm] at h1; exact absurd rfl h1.ne_nil
  | cons a' r1 =>
    rw [hcm] at h1 h2
    obtain ⟨r, e⟩ := h1.head
    cases e
    cases r1 with
    | nil =>
      cases h1 with
      | single => exact absurd rfl hab
      | cons _ hp' => exact absurd rfl hp'.ne_nil
    | cons x rest =>
      obtain ⟨lx, hlx, hcase⟩ := nextAction_hop hw hc hnb h1 h2 hla ex
      refine ⟨x, rest, lx, rfl, hlx, ?_⟩
      rcases hcase with ⟨_, h3, h4⟩ | ⟨_, h3, h4⟩
      · exact Or.inl ⟨h3, h4⟩
      · exact Or.inr ⟨h3, h4⟩

/-! ### reaching the target -/

/-- **acquire_reaches**: well-formed table inside the domain of the device assumption (`SessPrefixFree`: not used by
    the proof — it delimits where the model's "prompt ↔ share group" assumption, and with it `Unamb`, describes the
    real patterns; EOS sessions `abc` / `abcd` are outside, finding F24b), any neighbour order, cooperative device in level `a`
    with a sound belief (`a` itself, or unknown while `a`'s prompt is unambiguous or `a` is the
    target) and unambiguous prompts at the inner levels of the path: `acquire_priv(dest)` returns
    normally, the device is in exactly `dest`, belief = `dest`, the device log grew by exactly the
    navigation log of the path (one bare return per level visited, one table command per edge), after
    `length path ≤ n` get_prompt rounds; nothing else changes. -/
theorem acquire_reaches {t : Table} (hw : WF t) (_hdom : SessPrefixFree t) (hc : CmdsOK t) (c : Cfg) (hnb : NbOK t (c.ord t))
    (cfg : MCfg) (hco : Coop t c cfg) {a dest : Name} (ha : a ∈ names t) (hd : dest ∈ names t)
    (w : W MDev) (hwt : w.tbl = t) (hopen : w.ch.closed = false) (hmode : w.ch.dev.mode = a)
    (hidle : w.ch.dev.pending = none)
    (hb : w.belief = a ∨ (w.belief = DUMMY ∧ (a = dest ∨ Unamb t a)))
    (hin : ∀ v ∈ changeMap t (c.ord t) a dest, v ≠ a → v ≠ dest → Unamb t v) :
    ∃ w', acquirePriv c (modeDev cfg) w dest = (w', .ok) ∧
      w'.ch.dev.mode = dest ∧ w'.belief = dest ∧ w'.ch.closed = false ∧ w'.ch.dev.pending = none ∧
      w'.ch.dev.log = w.ch.dev.log ++ navLog t c.secondary cfg.password (changeMap t (c.ord t) a dest) ∧
      w'.ch.rounds = w.ch.rounds + (changeMap t (c.ord t) a dest).length ∧
      (changeMap t (c.ord t) a dest).length ≤ t.length ∧
      w'.tbl = t ∧ w'.generic = w.generic ∧ w'.ulog = w.ulog ∧ w'.hazard = w.hazard := by
  obtain ⟨hp, hn, hlen, _⟩ := buildMap_is_path hw (c.ord t) hnb ha hd
  have hat : At w.ch a w.ch.dev.log w.ch.rounds := ⟨hopen, hmode, hidle, rfl, rfl⟩
  have hb' : w.belief = a ∨ w.belief = DUMMY := by rcases hb with h | h; exact Or.inl h; exact Or.inr h.1
  have hamb : ∀ v ∈ changeMap t (c.ord t) a dest, v ≠ dest → (v = a ∧ w.belief = a) ∨ Unamb t v := by
    intro v hv hvd
    by_cases hva : v = a
    · rcases hb with h | ⟨_, h | h⟩
      · exact Or.inl ⟨hva, h⟩
      · exact absurd (hva.trans h) hvd
      · exact Or.inr (hva ▸ h)
    · exact Or.inr (hin v hv hva hvd)
  have hk := loopFactor_pos
  have hmul : t.length ≤ t.length * loopFactor := Nat.le_mul_of_pos_right _ hk
  obtain ⟨w', e, h1, h2, h3, h4, h5, h6⟩ :=
    acquireLoop_reaches hw hc hnb hco hp hn w (loopFactor * t.length + 2) 0 _ _ hwt hat hb' hamb
      (by rw [Nat.mul_comm]; omega) (by omega)
  refine ⟨w', ?_, h6.mode, h2, h6.isOpen, h6.idle, h6.log, h6.rounds, hlen, h1, h3, h4, h5⟩
  unfold acquirePriv
  have : (lookup w.tbl dest).isNone = false := by
    rw [hwt]; have := lookup_isSome_iff.mpr hd; cases hl : lookup t dest <;> simp_all
  rw [hwt] at this ⊢
  rw [this]
  simpa using e

/-! ### all ordered pairs of the five platform tables (static instance of `acquire_reaches`' side conditions) -/

/-- generated obligation: on each platform table, for EVERY ordered pair of levels, the levels strictly inside the
    path have unambiguous prompts (the levels that share a prompt — IOS-XR / Junos configuration modes — are leaves),
    and the table lies in the domain of the device assumption -/
theorem platform_inner_unamb :
    ∀ t ∈ [iosxe, iosxr, nxos, eos, junos], SessPrefixFree t ∧ ∀ a ∈ names t, ∀ b ∈ names t,
      ∀ v ∈ changeMap t (neighbours t) a b, v ≠ a → v ≠ b → Unamb t v := by
  decide +kernel

theorem platform_WF {t : Table} (ht : t ∈ [iosxe, iosxr, nxos, eos, junos]) : WF t ∧ CmdsOK t := by
  simp only [List.mem_cons, List.not_mem_nil, or_false] at ht
  rcases ht with rfl | rfl | rfl | rfl | rfl
  · exact ⟨platform_tables_WF.1, platform_tables_CmdsOK.1⟩
  · exact ⟨platform_tables_WF.2.1, platform_tables_CmdsOK.2.1⟩
  · exact ⟨platform_tables_WF.2.2.1, platform_tables_CmdsOK.2.2.1⟩
  · exact ⟨platform_tables_WF.2.2.2.1, platform_tables_CmdsOK.2.2.2.1⟩
  · exact ⟨platform_tables_WF.2.2.2.2, platform_tables_CmdsOK.2.2.2.2⟩

/-- **acquire_reaches for every ordered pair of levels of every platform table** (without registered sessions), any
    neighbour order: cooperative device in level `a`, belief `a` — or unknown while `a`'s prompt is unambiguous or
    `a` is the target — ⇒ `acquire_priv(dest)` ends exactly in `dest` with exactly the path's navigation log.
    All side conditions of `acquire_reaches` (WF, CmdsOK, domain, inner levels unambiguous) are discharged statically. -/
theorem acquire_reaches_platform {t : Table} (ht : t ∈ [iosxe, iosxr, nxos, eos, junos]) (c : Cfg) (hnb : NbOK t (c.ord t))
    (cfg : MCfg) (hco : Coop t c cfg) {a dest : Name} (ha : a ∈ names t) (hd : dest ∈ names t)
    (w : W MDev) (hwt : w.tbl = t) (hopen : w.ch.closed = false) (hmode : w.ch.dev.mode = a)
    (hidle : w.ch.dev.pending = none)
    (hb : w.belief = a ∨ (w.belief = DUMMY ∧ (a = dest ∨ Unamb t a))) :
    ∃ w', acquirePriv c (modeDev cfg) w dest = (w', .ok) ∧ w'.ch.dev.mode = dest ∧ w'.belief = dest ∧
      w'.ch.dev.log = w.ch.dev.log ++ navLog t c.secondary cfg.password (changeMap t (c.ord t) a dest) ∧
      w'.hazard = w.hazard := by
  obtain ⟨hw, hc⟩ := platform_WF ht
  obtain ⟨hdom, hall⟩ := platform_inner_unamb t ht
  have hin : ∀ v ∈ changeMap t (c.ord t) a dest, v ≠ a → v ≠ dest → Unamb t v := by
    rw [buildMap_order_independent hw (c.ord t) (neighbours t) hnb (fun _ _ => Iff.rfl) ha hd]
    exact hall a ha dest hd
  obtain ⟨w', h1, h2, h3, _, _, h6, _, _, _, _, _, h12⟩ :=
    acquire_reaches hw hdom hc c hnb cfg hco ha hd w hwt hopen hmode hidle hb hin
  exact ⟨w', h1, h2, h3, h6, h12⟩

/-! ### the bound, for every device -/

/-- **acquire_bounded**: for an ARBITRARY device (any state space, any reaction to any line: any
    subset of transitions refused or ignored, any prompts, silence), any table, any neighbour order,
    any driver state: `acquire_priv` makes at most `len(levels) * loopFactor + 1` (= 2n+1) passes —
    the model's fuel is never exhausted — and as many get_prompt rounds; it leaves the table, the
    generic-mode flag and the user-line log alone. -/
theorem acquire_bounded {σ : Type} (c : Cfg) (d : Dev σ) (w : W σ) (dest : Name) :
    (acquirePriv c d w dest).2 ≠ .outOfFuel ∧
    (acquirePriv c d w dest).1.ch.rounds ≤ w.ch.rounds + (w.tbl.length * loopFactor + 1) ∧
    (acquirePriv c d w dest).1.tbl = w.tbl ∧ (acquirePriv c d w dest).1.ulog = w.ulog ∧
    (acquirePriv c d w dest).1.generic = w.generic := by
  unfold acquirePriv
  split
  · exact ⟨by simp, by simp, rfl, rfl, rfl⟩
  · obtain ⟨h1, h2, h3, h4, h5⟩ := acquireLoop_bounded c d dest (loopFactor * w.tbl.length + 2) 0 w
      (by unfold maxIter; omega) (by unfold maxIter; rw [Nat.mul_comm]; omega)
    exact ⟨h1, by unfold maxIter at h5; omega, h2, h3, h4⟩

/-! ### the exception class, for every device -/

/-- the outcomes the property allows: return, ScrapliPrivilegeError, ScrapliAuthenticationFailed, ScrapliTimeout —
    and ScrapliConnectionNotOpened when an earlier timeout already closed the transport -/
def OutOK (o : Outcome) : Prop := o = .ok ∨ o = .privErr ∨ o = .authFail ∨ o = .timeout ∨ o = .connErr

theorem getPrompt_err {σ : Type} (d : Dev σ) (t : Table) (ch : Chan σ) {e : Outcome} (h : (getPrompt d t ch).2 = .error e) :
    e = .connErr ∨ e = .timeout := by
  unfold getPrompt at h
  split at h <;> simp at h <;> simp [← h]

theorem getPrompt_cls {σ : Type} (d : Dev σ) (t : Table) (ch : Chan σ) {ch' : Chan σ} {cls : List Name}
    (h : getPrompt d t ch = (ch', .ok cls)) : ∀ v ∈ cls, v ∈ names t := by
  unfold getPrompt at h
  split at h
  · cases h
  · simp only [Prod.mk.injEq, Except.ok.injEq] at h
    obtain ⟨_, rfl⟩ := h
    exact fun v hv => classify_sub hv
  · cases h

theorem sendInput_err {σ : Type} (d : Dev σ) (t : Table) (ch : Chan σ) (line : Line) {e : Outcome}
    (h : (sendInput d t ch line).2 = .error e) : e = .connErr ∨ e = .timeout := by
  unfold sendInput at h
  split at h <;> simp at h <;> simp [← h]

theorem escalateAuth_class {σ : Type} (c : Cfg) (d : Dev σ) (t : Table) (ch : Chan σ) (l p : Level) :
    OutOK (escalateAuth c d t ch l p).2 := by
  unfold escalateAuth escalateSecond OutOK
  repeat' split
  all_goals simp

theorem escalate_class {σ : Type} (c : Cfg) (d : Dev σ) (t : Table) (ch : Chan σ) (l : Level)
    (hp : l.auth = true → (lookup t l.prev).isSome) : OutOK (escalate c d t ch l).2 := by
  unfold escalate
  split
  · split
    · simp [OutOK]
    · rename_i e heq
      have := sendInput_err d t ch l.esc (e := e) (by rw [heq])
      rcases this with h | h <;> simp [OutOK, h]
  · rename_i ha
    have ha' : l.auth = true := by simpa using ha
    split
    · rename_i hn; have := hp ha'; rw [hn] at this; cases this
    · exact escalateAuth_class c d t ch l _

/-- on a well-formed table the next action is always defined (no IndexError on `map[1]`, no KeyError), and an
    escalation goes to a level whose previous level is the current one -/
theorem nextAction_defined {t : Table} (hw : WF t) {nb : Name → List Name} (hnb : NbOK t nb) {la : Level} {a dest : Name}
    (hla : lookup t a = some la) (hd : dest ∈ names t) (hne : la.name ≠ dest) :
    ∃ act, nextAction t nb la dest = .ok act ∧ act ≠ .noAction ∧ ∀ l, act = .escalate l → l.prev = la.name := by
  have hname : la.name = a := (lookup_some hla).2
  have ha : a ∈ names t := lookup_isSome_iff.mp (by rw [hla]; rfl)
  obtain ⟨h1, h2, _, _⟩ := buildMap_is_path hw nb hnb ha hd
  rw [← hname] at h1 h2
  cases hcm : changeMap t nb la.name dest with
  | nil => rw [hcm] at h1; exact absurd rfl h1.ne_nil
  | cons a' r1 =>
    rw [hcm] at h1 h2
    obtain ⟨r, e⟩ := h1.head
    cases e
    cases r1 with
    | nil =>
      cases h1 with
      | single => exact absurd rfl hne
      | cons _ hp' => exact absurd rfl hp'.ne_nil
    | cons x rest =>
      have hx : x ∈ names t := h1.mem_names hw x (by simp)
      obtain ⟨lx, hlx⟩ := Option.isSome_iff_exists.mp (lookup_isSome_iff.mpr hx)
      unfold nextAction
      rw [hcm]
      simp only [hlx]
      by_cases hp : lx.prev ≠ la.name
      · exact ⟨.deescalate la, by simp [hp], by simp, by intro l h; cases h⟩
      · refine ⟨.escalate lx, by simp [hp], by simp, ?_⟩
        intro l h; cases h; simpa using hp

/-- `_process_acquire_priv` on a classification that consists of table levels -/
theorem processAcquire_class {t : Table} (hw : WF t) {nb : Name → List Name} (hnb : NbOK t nb) (belief : Name) {dest : Name}
    (hd : dest ∈ names t) {cls : List Name} (hcls : ∀ v ∈ cls, v ∈ names t) :
    (processAcquire t nb belief dest cls).2 = .error .privErr ∨
    ∃ act, (processAcquire t nb belief dest cls).2 = .ok act ∧ ∀ l, act = .escalate l → (lookup t l.prev).isSome := by
  unfold processAcquire
  cases cls with
  | nil => exact Or.inl rfl
  | cons c0 rest =>
    right
    simp only
    have hpick : pickCurrent belief dest (c0 :: rest) c0 ∈ names t := by
      unfold pickCurrent
      split
      · rename_i h; exact hcls _ h
      · split
        · exact hd
        · exact hcls c0 (by simp)
    obtain ⟨cur, hcur⟩ := Option.isSome_iff_exists.mp (lookup_isSome_iff.mpr hpick)
    simp only [hcur]
    by_cases hdd : cur.name = dest
    · simp only [hdd, if_true]; exact ⟨.noAction, rfl, by intro l h; cases h⟩
    · simp only [hdd, if_false]
      obtain ⟨act, h1, _, h3⟩ := nextAction_defined hw hnb hcur hd hdd
      refine ⟨act, h1, ?_⟩
      intro l hl
      rw [h3 l hl, (lookup_some hcur).2, hcur]; rfl

theorem acquireIter_class {σ : Type} (c : Cfg) (d : Dev σ) {dest : Name} {w : W σ} (hw : WF w.tbl)
    (hnb : NbOK w.tbl (c.ord w.tbl)) (hd : dest ∈ names w.tbl) :
    ∀ o, (acquireIter c d dest w).2 = some o → OutOK o := by
  intro o ho
  unfold acquireIter at ho
  split at ho
  · rename_i ch e heq
    simp only [Option.some.injEq] at ho; subst ho
    rcases getPrompt_err d w.tbl w.ch (e := e) (by rw [heq]) with h | h <;> simp [OutOK, h]
  · rename_i ch cls heq
    have hcls : ∀ v ∈ cls, v ∈ names w.tbl := getPrompt_cls d w.tbl w.ch heq
    have hp := processAcquire_class hw hnb w.belief hd hcls
    simp only at ho
    split at ho
    · rename_i b e heq2
      simp only [Option.some.injEq] at ho; subst ho
      rcases hp with h | ⟨act, h, _⟩
      · rw [heq2] at h; simp at h; simp [OutOK, h]
      · rw [heq2] at h; cases h
    · simp only [Option.some.injEq] at ho; subst ho; simp [OutOK]
    · rename_i b l heq2
      split at ho
      · rename_i ch2 e heq3
        simp only [Option.some.injEq] at ho; subst ho
        rcases sendInput_err d w.tbl ch l.desc (e := e) (by rw [heq3]) with h | h <;> simp [OutOK, h]
      · cases ho
    · rename_i b l heq2
      have hprev : l.auth = true → (lookup w.tbl l.prev).isSome := by
        intro _
        rcases hp with h | ⟨act, h, h2⟩
        · rw [heq2] at h; cases h
        · rw [heq2] at h; simp only [Except.ok.injEq] at h; exact h2 l h.symm
      have hc := escalate_class c d w.tbl ch l hprev
      split at ho
      · cases ho
      · rename_i ch2 e _ heq3
        simp only [Option.some.injEq] at ho; subst ho
        rw [heq3] at hc; exact hc

theorem acquireLoop_class {σ : Type} (c : Cfg) (d : Dev σ) {dest : Name} :
    ∀ (fuel count : Nat) {w : W σ}, WF w.tbl → NbOK w.tbl (c.ord w.tbl) → dest ∈ names w.tbl →
      (acquireLoop c d dest fuel count w).2 = .outOfFuel ∨ OutOK (acquireLoop c d dest fuel count w).2 := by
  intro fuel
  induction fuel with
  | zero => intro _ _ _ _ _; exact Or.inl rfl
  | succ fuel ih =>
    intro count w hw hnb hd
    have hcl := acquireIter_class c d hw hnb hd
    obtain ⟨f1, _, _, _⟩ := acquireIter_frame c d dest w
    unfold acquireLoop
    split <;> rename_i heq <;> rw [heq] at hcl f1
    · exact Or.inr (hcl _ rfl)
    · split
      · exact Or.inr (by simp [OutOK])
      · simp only at f1
        exact ih _ (f1 ▸ hw) (f1 ▸ hnb) (f1 ▸ hd)

/-- **acquire_outcome_class**: on every well-formed table, for EVERY device (any refusals, any prompts, silence), any
    neighbour order and any driver state, `acquire_priv` returns or ends with a scrapli privilege / authentication /
    timeout error (or ConnectionNotOpened once a timeout closed the transport) — never IndexError (`map[1]`), KeyError
    (`privilege_levels[…]`) or anything else, after at most 2n+1 passes (`acquire_bounded`). -/
theorem acquire_outcome_class {σ : Type} (c : Cfg) (d : Dev σ) (w : W σ) (dest : Name) (hw : WF w.tbl)
    (hnb : NbOK w.tbl (c.ord w.tbl)) : OutOK (acquirePriv c d w dest).2 := by
  have hb := (acquire_bounded c d w dest).1
  unfold acquirePriv at hb ⊢
  split
  · simp [OutOK]
  · rename_i hn
    have hd : dest ∈ names w.tbl := by
      apply lookup_isSome_iff.mp
      cases hl : lookup w.tbl dest <;> simp_all
    simp only [hn, if_false] at hb
    rcases acquireLoop_class c d _ 0 hw hnb hd with h | h
    · exact absurd h hb
    · exact h

/-- the generated loop factor is the one the property speaks about (`> 2 * len`) -/
theorem loopFactor_is_two : loopFactor = 2 := by decide

/-! ### the classification memo is coherent (why the driver model may classify without a memo) -/

/-- every memo entry is what classification on the CURRENT table gives -/
def Coherent (s : CState) : Prop := ∀ e ∈ s.memo, e.2 = classify s.tbl e.1

theorem classifyMemo_coherent (memoised : Bool) {s : CState} (h : Coherent s) (keys : List String) :
    (classifyMemo memoised s keys).1 = classify s.tbl keys ∧ Coherent (classifyMemo memoised s keys).2 ∧
    (classifyMemo memoised s keys).2.tbl = s.tbl := by
  unfold classifyMemo
  cases memoised with
  | false => exact ⟨rfl, h, rfl⟩
  | true =>
    simp only [if_true]
    cases hf : s.memo.find? (fun e => e.1 == keys) with
    | some e =>
      have hk : e.1 = keys := by simpa using List.find?_some hf
      exact ⟨by show e.2 = _; rw [h e (List.mem_of_find?_eq_some hf), hk], h, rfl⟩
    | none =>
      refine ⟨rfl, ?_, rfl⟩
      intro e he
      rcases List.mem_cons.mp he with rfl | he
      · rfl
      · exact h e he

/-- **cache coherence**: if every registration clears the memo, then after ANY history of
    classifications and registrations every classification equals the memo-free classification on
    the table as it then is -/
theorem memo_run_eq (memoised : Bool) : ∀ (ops : List COp) (s s' : CState), Coherent s → s'.tbl = s.tbl →
    runMemo memoised true s ops = runMemo false true s' ops := by
  intro ops
  induction ops with
  | nil => intro _ _ _ _; rfl
  | cons op ops ih =>
    intro s s' h ht
    cases op with
    | classify keys =>
      obtain ⟨h1, h2, h3⟩ := classifyMemo_coherent memoised h keys
      simp only [runMemo]
      have e2 : (classifyMemo false s' keys).2 = s' := by simp [classifyMemo]
      have e1 : (classifyMemo false s' keys).1 = classify s.tbl keys := by simp [classifyMemo, ht]
      rw [h1, e1, e2, ih _ s' h2 (by rw [h3, ht])]
    | register l =>
      simp only [runMemo]
      exact ih _ _ (by intro e he; simp [registerMemo] at he) (by simp [registerMemo, ht])

/-- generated obligation: the flags `_determine_current_priv` (and every helper it calls) searches privilege
    patterns with are exactly re.M | re.I — the assumption under which the model's device shows, in every
    level, a prompt classified as that level's share group -/
theorem classification_flags : classifyFlags = ["I", "M"] ∧ classifiesPrompts = true := by decide

/-- generated obligation: every platform's on_open and on_close hook (sync and asyncio) FIRST acquires the
    default desired level — by reading the prompt, not by trusting `_current_priv_level`, which survives
    close() / a timeout on the connection object.  (Re-opened connections are covered by correspondence and
    oracle in tools/props/c03.py and c04.py; the history theorems above speak about one session.) -/
theorem hooks_acquire_first :
    (∀ h ∈ onOpenHooks, h.head? = some .acquireDefault) ∧ (∀ h ∈ onCloseHooks, h.head? = some .acquireDefault) := by
  decide


/-- generated obligation (since /repo c887324): `send_inputs_interact` stops at `interaction_complete_patterns` -/
theorem interact_breaks : interactBreaksOnComplete = true := by decide

/-- hence an authenticated escalation on a device that asks for no password leaves exactly the escalate
    command in the device's log: the secondary password is NOT typed as a command (finding F23, fixed) -/
theorem escalation_types_no_password (sec : Line) (pw : Option Line) (a x : Name) (esc : Line) :
    authLog sec pw a x esc = [(a, esc)] := by
  cases pw <;> simp [authLog, interact_breaks]

/-- generated obligation: `update_privilege_levels` reaches `cache_clear()` on every path -/
theorem update_clears_cache : updateClearsCache = true := by decide

/-- **classification_cache_coherent**, with the facts read off the live source: classification through
    the lru_cache after any history of registrations = classification on the fresh (current) table -/
theorem classification_cache_coherent (t : Table) (ops : List COp) :
    runMemo classifyMemoised updateClearsCache { tbl := t } ops = runMemo false true { tbl := t } ops := by
  rw [update_clears_cache]
  exact memo_run_eq _ ops _ _ (by intro e he; cases he) rfl

/-- the level a platform registers for a session name -/
def sessLevel (o : Option SessTemplate) (n : Name) : Level :=
  match o with
  | some t => t.mk' n
  | none => { name := n, prev := "", esc := "", desc := "", auth := false, pat := "" }

/-- and it is the clearing that matters: without it, NX-OS with two sessions (one prompt pattern for all
    sessions) classifies the session prompt as the first session only, after the second was registered -/
theorem stale_memo_without_clear :
    runMemo true false { tbl := nxos }
      [.register (sessLevel nxosSess "a"), .classify ["s:"], .register (sessLevel nxosSess "b"), .classify ["s:"]]
      = [["a"], ["a"]] ∧
    runMemo true true { tbl := nxos }
      [.register (sessLevel nxosSess "a"), .classify ["s:"], .register (sessLevel nxosSess "b"), .classify ["s:"]]
      = [["a"], ["a", "b"]] := by
  decide +kernel

/-! ### non-vacuity: the hypotheses of `acquire_reaches` are met on Junos, root_shell → configuration_private
    (de-escalate `exit`, escalate `configure private`), and on the password-protected way back -/

def exCfg : Cfg := { ord := fun t a => (neighbours t a).reverse, default := junosDefault, secondary := "pw" }
def exDev : MCfg := { password := some "pw" }
def exInit : W MDev := { tbl := junos, belief := "root_shell", ch := { dev := { mode := "root_shell" } } }

example : NbOK junos (exCfg.ord junos) := by intro a x; simp [exCfg]

example : Coop junos exCfg exDev :=
  ⟨rfl, Or.inr rfl, tableMove_none (by decide) (by decide), fun h => by cases h⟩

example : ∀ v ∈ changeMap junos (exCfg.ord junos) "root_shell" "configuration_private",
    v ≠ "root_shell" → v ≠ "configuration_private" → Unamb junos v := by decide

example : (acquirePriv exCfg (modeDev exDev) exInit "configuration_private").2 = .ok ∧
    (acquirePriv exCfg (modeDev exDev) exInit "configuration_private").1.ch.dev.log =
      [("root_shell", ""), ("root_shell", "exit"), ("exec", ""), ("exec", "configure private"), ("configuration_private", "")] ∧
    (acquirePriv exCfg (modeDev exDev) (acquirePriv exCfg (modeDev exDev) exInit "configuration_private").1 "root_shell").1.ch.dev.mode
      = "root_shell" := by
  decide +kernel

end Scrapli.Priv
