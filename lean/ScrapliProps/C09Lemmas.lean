import ScrapliModel.Auth
/- Helper lemmas and specification-side definitions for C09 (in-channel login).
   Property theorems are in C09.lean. -/
namespace Scrapli.Auth
open Scrapli

/-- ASCII text as bytes (reduces in the kernel, unlike `String.toUTF8`) -/
def asc (s : String) : Bytes := s.toList.map fun ch => UInt8.ofNat ch.toNat

/-! ### observables of a log -/

/-- number of times credential `k` was written -/
def writesOf (k : Kind) (log : List Entry) : Nat := (log.filter fun e => e.kind == k && e.ok).length

/-- number of times credential `k`'s prompt was sighted (answered or refused) -/
def sightings (k : Kind) (log : List Entry) : Nat := (log.filter fun e => e.kind == k).length

/-- raw bytes delivered by a tape -/
def streamOf : List Read → Bytes
  | [] => []
  | .chunk raw _ :: r => raw ++ streamOf r
  | .connErr :: r => streamOf r

/-- what the loop appends to its buffer for raw bytes: `Channel.read` then `.lower()` -/
def lc (b : Bytes) : Bytes := lower (chanRead b)

theorem lc_append (a b : Bytes) : lc (a ++ b) = lc a ++ lc b := by
  simp [lc, chanRead, lower, List.filter_append]

@[simp] theorem lc_nil : lc [] = [] := rfl

theorem streamOf_append (a b : List Read) : streamOf (a ++ b) = streamOf a ++ streamOf b := by
  induction a with
  | nil => rfl
  | cons r a ih => cases r <;> simp [streamOf, ih]

@[simp] theorem writesOf_nil (k) : writesOf k [] = 0 := rfl
@[simp] theorem sightings_nil (k) : sightings k [] = 0 := rfl

theorem writesOf_snoc (k : Kind) (log : List Entry) (e : Entry) :
    writesOf k (log ++ [e]) = writesOf k log + (if e.kind == k && e.ok then 1 else 0) := by
  simp only [writesOf, List.filter_append, List.length_append]
  by_cases h : (e.kind == k && e.ok) = true <;> simp [List.filter, h]

theorem sightings_snoc (k : Kind) (log : List Entry) (e : Entry) :
    sightings k (log ++ [e]) = sightings k log + (if e.kind == k then 1 else 0) := by
  simp only [sightings, List.filter_append, List.length_append]
  by_cases h : (e.kind == k) = true <;> simp [List.filter, h]

/-! ### the loop stops for good -/

theorem step_stopped (c : Cfg) (s : St) (r : Read) (h : s.status ≠ .running) : step c s r = s := by
  unfold step; simp [h]

theorem foldl_stopped (c : Cfg) (tape : List Read) : ∀ s : St, s.status ≠ .running →
    tape.foldl (step c) s = s := by
  induction tape with
  | nil => intro s _; rfl
  | cons r t ih => intro s h; simp only [List.foldl_cons, step_stopped c s r h]; exact ih s h

theorem run_append (c : Cfg) (a b : List Read) : run c (a ++ b) = b.foldl (step c) (run c a) := by
  simp [run, List.foldl_append]

/-! ### `answer`, case by case -/

@[simp] theorem bumpf_self (cnt : Kind → Nat) (k : Kind) : bumpf cnt k k = cnt k + 1 := by simp [bumpf]
theorem bumpf_other (cnt : Kind → Nat) (k j : Kind) (h : j ≠ k) : bumpf cnt k j = cnt j := by simp [bumpf, h]

/-- the three possible effects of one credential block -/
inductive AnswerCase (c : Cfg) (k : Kind) (s s' : St) : Prop where
  /-- an earlier statement raised, or the pattern does not match: nothing happens -/
  | skip (h : s' = s) (hn : s.status ≠ .running ∨ c.P k s.buf = false)
  /-- match below the threshold: buffer cleared, counter bumped, credential written -/
  | wrote (hr : s.status = .running) (hp : c.P k s.buf = true) (hc : s.cnt k + 1 ≤ c.limit k)
      (h : s' = { s with cnt := bumpf s.cnt k, buf := [], log := s.log ++ [⟨k, s.buf, true, s.nread⟩] })
  /-- match above the threshold: buffer cleared, counter bumped, ScrapliAuthenticationFailed -/
  | refused (hr : s.status = .running) (hp : c.P k s.buf = true) (hc : c.limit k < s.cnt k + 1)
      (h : s' = { s with cnt := bumpf s.cnt k, buf := [], log := s.log ++ [⟨k, s.buf, false, s.nread⟩],
                         status := .authFailed k })

theorem answer_cases (c : Cfg) (k : Kind) (s : St) : AnswerCase c k s (answer c k s) := by
  unfold answer
  by_cases hr : s.status = .running
  · by_cases hp : c.P k s.buf = true
    · by_cases hc : c.limit k < s.cnt k + 1
      · exact .refused hr hp hc (by simp [hr, hp, hc])
      · exact .wrote hr hp (by omega) (by simp [hr, hp, hc])
    · exact .skip (by simp [hr, hp]) (Or.inr (by simpa using hp))
  · exact .skip (by simp [hr]) (Or.inl hr)

/-! ### the invariant behind "at most twice" and "the third sighting fails" -/

structure Inv (c : Cfg) (s : St) : Prop where
  sight : ∀ k, k ≠ .ret → sightings k s.log = s.cnt k
  wr : ∀ k, k ≠ .ret → writesOf k s.log = min (s.cnt k) (c.limit k)
  over : ∀ k, k ≠ .ret → c.limit k < s.cnt k → s.status = .authFailed k
  failed : ∀ k, s.status = .authFailed k →
    k ≠ .ret ∧ s.cnt k = c.limit k + 1 ∧ ∃ pre b n, s.log = pre ++ [⟨k, b, false, n⟩]
  seenP : ∀ e ∈ s.log, if e.kind = .ret then e.seen = [] ∧ e.ok = true else c.P e.kind e.seen = true
  refused : ∀ e ∈ s.log, e.ok = false → s.status = .authFailed e.kind

theorem inv_init (c : Cfg) : Inv c init := by
  refine ⟨?_, ?_, ?_, ?_, ?_, ?_⟩ <;> intros <;> simp_all [init]

/-- changes that touch neither counters, log nor status keep the invariant -/
theorem inv_congr (c : Cfg) (s s' : St) (h : Inv c s) (hl : s'.log = s.log) (hs : s'.status = s.status)
    (hc : s'.cnt = s.cnt) : Inv c s' := by
  refine ⟨?_, ?_, ?_, ?_, ?_, ?_⟩
  · intro k hk; rw [hl, hc]; exact h.sight k hk
  · intro k hk; rw [hl, hc]; exact h.wr k hk
  · intro k hk; rw [hc, hs]; exact h.over k hk
  · intro k; rw [hs, hc, hl]; exact h.failed k
  · rw [hl]; exact h.seenP
  · rw [hl, hs]; exact h.refused

theorem inv_kick (c : Cfg) (s : St) (h : Inv c s) (hr : s.status = .running) : Inv c (kick s) := by
  have hne : ∀ k : Kind, k ≠ .ret → ((Kind.ret == k) = false) := by intro k hk; cases k <;> simp_all
  refine ⟨?_, ?_, ?_, ?_, ?_, ?_⟩
  · intro k hk
    simp only [kick, sightings_snoc, hne k hk]
    simpa using h.sight k hk
  · intro k hk
    simp only [kick, writesOf_snoc, hne k hk]
    simpa [kick] using h.wr k hk
  · intro k hk hlt
    have := h.over k hk (by simpa [kick] using hlt)
    simp [hr] at this
  · intro k hf
    simp [kick, hr] at hf
  · intro e he
    simp only [kick, List.mem_append, List.mem_singleton] at he
    rcases he with he | rfl
    · exact h.seenP e he
    · simp
  · intro e he hok
    simp only [kick, List.mem_append, List.mem_singleton] at he
    rcases he with he | rfl
    · have := h.refused e he hok
      simp [hr] at this
    · simp at hok

theorem inv_answer (c : Cfg) (k : Kind) (hk : k ≠ .ret) (s : St) (h : Inv c s) : Inv c (answer c k s) := by
  have hbeq : ∀ j : Kind, j ≠ k → ((k == j) = false) := by
    intro j hj; simpa using fun h' => hj h'.symm
  rcases answer_cases c k s with ⟨he, _⟩ | ⟨hr, hp, hc, he⟩ | ⟨hr, hp, hc, he⟩
  · rw [he]; exact h
  · -- wrote
    rw [he]
    refine ⟨?_, ?_, ?_, ?_, ?_, ?_⟩
    · intro j hj
      simp only [sightings_snoc]
      by_cases hjk : j = k
      · subst hjk; simp [h.sight j hj]
      · simp [hbeq j hjk, bumpf_other _ _ _ hjk, h.sight j hj]
    · intro j hj
      simp only [writesOf_snoc]
      by_cases hjk : j = k
      · subst hjk
        simp only [beq_self_eq_true, Bool.and_self, if_true, h.wr j hj, bumpf_self]
        omega
      · simp [hbeq j hjk, bumpf_other _ _ _ hjk, h.wr j hj]
    · intro j hj hlt
      by_cases hjk : j = k
      · subst hjk; simp at hlt; omega
      · simp only [bumpf_other _ _ _ hjk] at hlt
        have := h.over j hj hlt
        simp [hr] at this
    · intro j hf
      simp [hr] at hf
    · intro e he
      simp only [List.mem_append, List.mem_singleton] at he
      rcases he with he | rfl
      · exact h.seenP e he
      · simp [hk, hp]
    · intro e he hok
      simp only [List.mem_append, List.mem_singleton] at he
      rcases he with he | rfl
      · have := h.refused e he hok
        simp [hr] at this
      · simp at hok
  · -- refused
    rw [he]
    have hle : s.cnt k ≤ c.limit k := by
      by_cases hgt : c.limit k < s.cnt k
      · have := h.over k hk hgt; simp [hr] at this
      · omega
    refine ⟨?_, ?_, ?_, ?_, ?_, ?_⟩
    · intro j hj
      simp only [sightings_snoc]
      by_cases hjk : j = k
      · subst hjk; simp [h.sight j hj]
      · simp [hbeq j hjk, bumpf_other _ _ _ hjk, h.sight j hj]
    · intro j hj
      simp only [writesOf_snoc]
      by_cases hjk : j = k
      · subst hjk
        simp only [Bool.and_false, if_false, h.wr j hj, Bool.false_eq_true, bumpf_self]
        omega
      · simp [bumpf_other _ _ _ hjk, h.wr j hj]
    · intro j hj hlt
      by_cases hjk : j = k
      · subst hjk; rfl
      · simp only [bumpf_other _ _ _ hjk] at hlt
        have := h.over j hj hlt
        simp [hr] at this
    · intro j hf
      have hjk : j = k := by simpa using hf.symm
      subst hjk
      refine ⟨hk, ?_, s.log, s.buf, s.nread, rfl⟩
      simp; omega
    · intro e he
      simp only [List.mem_append, List.mem_singleton] at he
      rcases he with he | rfl
      · exact h.seenP e he
      · simp [hk, hp]
    · intro e he hok
      simp only [List.mem_append, List.mem_singleton] at he
      rcases he with he | rfl
      · have := h.refused e he hok
        simp [hr] at this
      · rfl

theorem inv_finish (c : Cfg) (s : St) (h : Inv c s) : Inv c (finish c s) := by
  unfold finish
  split
  · rename_i hc
    have hr : s.status = .running := by
      have := (Bool.and_eq_true _ _).mp hc
      simpa using this.1
    refine ⟨h.sight, h.wr, ?_, ?_, h.seenP, ?_⟩
    · intro k hk hlt; have := h.over k hk hlt; simp [hr] at this
    · intro k hf; simp at hf
    · intro e he hok; have := h.refused e he hok; simp [hr] at this
  · exact h

/-- the state after the optional kick and the buffer extension of a `.chunk` read -/
def afterRead (c : Cfg) (s : St) (raw : Bytes) (t : Nat) : St :=
  let b := (c.clean s.held raw).1
  let s0 : St := { s with nread := s.nread + 1, held := (c.clean s.held raw).2 }
  let s1 := if c.kicks && b.isEmpty && decide (t > c.ivl * s0.attempts) then kick s0 else s0
  { s1 with buf := s1.buf ++ lower b }

theorem step_chunk (c : Cfg) (s : St) (raw : Bytes) (t : Nat) (hr : s.status = .running) :
    step c s (.chunk raw t) =
      if c.handler && c.fatal (afterRead c s raw t).buf then { afterRead c s raw t with status := .fatal }
      else finish c (answer c c.k2 (answer c c.k1 (afterRead c s raw t))) := by
  simp [step, hr, afterRead]

/-- the connection-error branch does what the theorems assume: a return, one more attempt, back to
    the top — counters and buffer untouched.  (For the generated loops this is `conn_err_branch_untouched`
    in C09.lean.) -/
def ErrOK (c : Cfg) : Prop := c.catchErr = true → c.errBranch = [.sendReturn, .bumpAttempts, .cont]

theorem execErr_std (s : St) : execErr [.sendReturn, .bumpAttempts, .cont] s = kick s := rfl

theorem step_connErr (c : Cfg) (he : ErrOK c) (s : St) (hr : s.status = .running) :
    step c s .connErr =
      if c.catchErr then kick { s with nread := s.nread + 1 }
      else { s with nread := s.nread + 1, status := .connError } := by
  unfold step
  rw [if_neg (by simp [hr])]
  by_cases hc : c.catchErr = true
  · simp only [hc, if_true]; rw [he hc, execErr_std]
  · simp [hc]

theorem afterRead_status (c : Cfg) (s : St) (raw : Bytes) (t : Nat) :
    (afterRead c s raw t).status = s.status := by
  unfold afterRead; simp only; split <;> simp [kick]

theorem afterRead_cnt (c : Cfg) (s : St) (raw : Bytes) (t : Nat) :
    (afterRead c s raw t).cnt = s.cnt := by
  unfold afterRead; simp only; split <;> simp [kick]

theorem inv_afterRead (c : Cfg) (s : St) (raw : Bytes) (t : Nat) (h : Inv c s) (hr : s.status = .running) :
    Inv c (afterRead c s raw t) := by
  have h0 : Inv c { s with nread := s.nread + 1 } := inv_congr c s _ h rfl rfl rfl
  unfold afterRead
  simp only
  split
  · exact inv_congr c _ _ (inv_kick c _ h0 hr) rfl rfl rfl
  · exact inv_congr c _ _ h0 rfl rfl rfl

theorem inv_step (c : Cfg) (he : ErrOK c) (hk1 : c.k1 ≠ .ret) (hk2 : c.k2 ≠ .ret) (s : St) (r : Read) (h : Inv c s) :
    Inv c (step c s r) := by
  by_cases hr : s.status = .running
  · cases r with
    | connErr =>
      have h0 : Inv c { s with nread := s.nread + 1 } := inv_congr c s _ h rfl rfl rfl
      rw [step_connErr c he s hr]
      split
      · exact inv_kick c _ h0 hr
      · refine ⟨h.sight, h.wr, ?_, ?_, h.seenP, ?_⟩
        · intro k hk hlt; have := h.over k hk (by simpa using hlt); simp [hr] at this
        · intro k hf; simp at hf
        · intro e he hok; have := h.refused e he hok; simp [hr] at this
    | chunk raw t =>
      rw [step_chunk c s raw t hr]
      have h2 := inv_afterRead c s raw t h hr
      have hr2 : (afterRead c s raw t).status = .running := by rw [afterRead_status, hr]
      split
      · refine ⟨h2.sight, h2.wr, ?_, ?_, h2.seenP, ?_⟩
        · intro k hk hlt; have := h2.over k hk (by simpa using hlt); simp [hr2] at this
        · intro k hf; simp at hf
        · intro e he hok; have := h2.refused e he hok; simp [hr2] at this
      · exact inv_finish c _ (inv_answer c c.k2 hk2 _ (inv_answer c c.k1 hk1 _ h2))
  · rw [step_stopped c s r hr]; exact h

theorem inv_run (c : Cfg) (he : ErrOK c) (hk1 : c.k1 ≠ .ret) (hk2 : c.k2 ≠ .ret) (tape : List Read) : Inv c (run c tape) := by
  unfold run
  suffices ∀ s, Inv c s → Inv c (tape.foldl (step c) s) from this init (inv_init c)
  induction tape with
  | nil => intro s h; exact h
  | cons r t ih => intro s h; exact ih _ (inv_step c he hk1 hk2 s r h)

/-! ### the sighting buffers partition the input stream -/

/-- the `seen` buffers of the log, then the current buffer -/
def consumed (s : St) : Bytes := (s.log.map (·.seen)).flatten ++ s.buf

def rawOf : Read → Bytes
  | .chunk raw _ => raw
  | .connErr => []

theorem consumed_answer (c : Cfg) (k : Kind) (s : St) : consumed (answer c k s) = consumed s := by
  rcases answer_cases c k s with ⟨he, _⟩ | ⟨_, _, _, he⟩ | ⟨_, _, _, he⟩ <;> rw [he] <;> simp [consumed]

theorem consumed_finish (c : Cfg) (s : St) : consumed (finish c s) = consumed s := by
  unfold finish; split <;> rfl

theorem consumed_kick (s : St) : consumed (kick s) = consumed s := by simp [consumed, kick]

/-- what `Channel.read()` hands to the loop for this read, given what it held back before -/
def cleanedOf (c : Cfg) (held : Bytes) : Read → Bytes
  | .chunk raw _ => (c.clean held raw).1
  | .connErr => []

def heldAfter (c : Cfg) (held : Bytes) : Read → Bytes
  | .chunk raw _ => (c.clean held raw).2
  | .connErr => held

/-- the cleaned input of a tape (the cleaner's held-back state threaded through) -/
def cleanedStream (c : Cfg) : Bytes → List Read → Bytes
  | _, [] => []
  | h, r :: rs => cleanedOf c h r ++ cleanedStream c (heldAfter c h r) rs

theorem lower_append' (a b : Bytes) : lower (a ++ b) = lower a ++ lower b := by simp [lower]

theorem cleanedStream_append (c : Cfg) (a b : List Read) : ∀ h,
    ∃ h', cleanedStream c h (a ++ b) = cleanedStream c h a ++ cleanedStream c h' b := by
  induction a with
  | nil => intro h; exact ⟨h, by simp [cleanedStream]⟩
  | cons r a ih =>
    intro h
    obtain ⟨h', e⟩ := ih (heldAfter c h r)
    exact ⟨h', by simp [cleanedStream, e]⟩

theorem afterRead_held (c : Cfg) (s : St) (raw : Bytes) (t : Nat) :
    (afterRead c s raw t).held = (c.clean s.held raw).2 := by
  unfold afterRead; simp only; split <;> simp [kick]

theorem answer_held (c : Cfg) (k : Kind) (s : St) : (answer c k s).held = s.held := by
  rcases answer_cases c k s with ⟨he, _⟩ | ⟨_, _, _, he⟩ | ⟨_, _, _, he⟩ <;> rw [he]

theorem finish_held (c : Cfg) (s : St) : (finish c s).held = s.held := by
  unfold finish; split <;> rfl

theorem step_held (c : Cfg) (he : ErrOK c) (s : St) (r : Read) (hr : s.status = .running) :
    (step c s r).held = heldAfter c s.held r := by
  cases r with
  | connErr =>
    rw [step_connErr c he s hr]
    split <;> simp [kick, heldAfter]
  | chunk raw t =>
    rw [step_chunk c s raw t hr]
    split
    · simp [afterRead_held, heldAfter]
    · rw [finish_held, answer_held, answer_held, afterRead_held]; rfl

theorem consumed_step (c : Cfg) (he : ErrOK c) (s : St) (r : Read) (hr : s.status = .running) :
    consumed (step c s r) = consumed s ++ lower (cleanedOf c s.held r) := by
  cases r with
  | connErr =>
    rw [step_connErr c he s hr]
    split
    · rw [consumed_kick]; simp [consumed, cleanedOf, lower]
    · simp [consumed, cleanedOf, lower]
  | chunk raw t =>
    rw [step_chunk c s raw t hr]
    have h1 : consumed (afterRead c s raw t) = consumed s ++ lower (c.clean s.held raw).1 := by
      unfold afterRead; simp only
      split
      · simp [consumed, kick]
      · simp [consumed]
    split
    · simpa [consumed, cleanedOf] using h1
    · rw [consumed_finish, consumed_answer, consumed_answer, h1]; rfl

/-- the matched buffers and the current buffer are the lower-cased CLEANED input of a prefix of the tape -/
theorem consumed_fold (c : Cfg) (he : ErrOK c) (tape : List Read) : ∀ (s : St) (acc : Bytes),
    consumed s = lower acc →
    ∃ pre post, tape = pre ++ post ∧
      consumed (tape.foldl (step c) s) = lower (acc ++ cleanedStream c s.held pre) := by
  induction tape with
  | nil => intro s acc h; exact ⟨[], [], rfl, by simpa [cleanedStream] using h⟩
  | cons r t ih =>
    intro s acc h
    by_cases hr : s.status = .running
    · have h' : consumed (step c s r) = lower (acc ++ cleanedOf c s.held r) := by
        rw [consumed_step c he s r hr, h, lower_append']
      obtain ⟨pre, post, ht, hc⟩ := ih (step c s r) (acc ++ cleanedOf c s.held r) h'
      refine ⟨r :: pre, post, by simp [ht], ?_⟩
      rw [List.foldl_cons, hc, step_held c he s r hr]
      simp [cleanedStream, List.append_assoc]
    · refine ⟨[], r :: t, rfl, ?_⟩
      rw [foldl_stopped c (r :: t) s hr]
      simpa [cleanedStream] using h

/-! ### closed system: the loop against a causal device -/

/-- a causal login device: one segment of output is released per credential line it receives
    (`segs`, in order); a bare return releases `onRet` (a console re-prompting on an empty line);
    a refused sighting writes nothing -/
structure Dev where
  segs : List Bytes
  onRet : Bytes

def feedDev : Dev → List Entry → Bytes × Dev
  | d, [] => ([], d)
  | d, e :: es =>
    if e.kind == .ret then let r := feedDev d es; (d.onRet ++ r.1, r.2)
    else if e.ok then let r := feedDev { d with segs := d.segs.tail } es; (d.segs.headD [] ++ r.1, r.2)
    else feedDev d es

structure Sys where
  s : St          -- the login loop
  avail : Bytes   -- printed by the device, not yet read
  d : Dev

/-- one `read()`: it returns between 1 and all of the available bytes (`n` = how many the
    schedule asks for) at elapsed time `t`; what the loop writes reaches the device at once.
    With nothing available the read blocks: the state does not change any more (a stall). -/
def sysStep (c : Cfg) (y : Sys) (nt : Nat × Nat) : Sys :=
  if y.s.status != .running || y.avail.isEmpty then y else
  let m := max 1 nt.1
  let s' := step c y.s (.chunk (y.avail.take m) nt.2)
  let r := feedDev y.d (s'.log.drop y.s.log.length)
  ⟨s', y.avail.drop m ++ r.1, r.2⟩

/-- the whole session: `g0` is printed on connect -/
def sysRun (c : Cfg) (g0 : Bytes) (d : Dev) (sched : List (Nat × Nat)) : Sys :=
  sched.foldl (sysStep c) ⟨init, g0, d⟩

def otherKind (c : Cfg) (k : Kind) : Kind := if k = c.k1 then c.k2 else c.k1

/-- the outcome a dialogue that prompts for `exp` (in this order) must have -/
def outcome (c : Cfg) : (Kind → Nat) → List Kind → Status
  | _, [] => .done
  | cnt, k :: exp => if c.limit k < cnt k + 1 then .authFailed k else outcome c (bumpf cnt k) exp

/-- and the (kind, written?) log it must produce -/
def expLog (c : Cfg) : (Kind → Nat) → List Kind → List (Kind × Bool)
  | _, [] => []
  | cnt, k :: exp => if c.limit k < cnt k + 1 then [(k, false)] else (k, true) :: expLog c (bumpf cnt k) exp

def view (s : St) : List (Kind × Bool) := s.log.map fun e => (e.kind, e.ok)

/-- **The static condition on the dialogue text.**  `p` is the (cleaned, lower-cased) text the device
    prints in the current phase, `rest` the segments released by the following credential lines,
    `exp` the credentials the device is going to ask for.  For every admissible split `p = x ++ y`
    (`x` = what the loop may have in its buffer after some read): no foreign credential pattern and no
    fatal message is seen in `x`, no shell prompt either unless the expected pattern matches on `x`
    (then the buffer is cleared before the prompt test, so a prompt pattern such as GenericDriver's, for
    which `username:` is itself a prompt line, is fine); and where the expected pattern matches, the rest
    `y` followed by the next segment is again safe.  When everything has arrived the expected pattern
    (in the last phase: the shell prompt) does match.  With `adm = fun _ _ => true` this speaks about
    every PREFIX of the text; with `adm = wholeLines` only about prefixes that end at a line end. -/
def Safe (c : Cfg) (adm : Bytes → Bytes → Bool) : (Kind → Nat) → List Kind → Bytes → List Bytes → Prop
  | _, [], p, _ =>
      c.prompt p = true ∧
      ∀ x y, p = x ++ y → adm x y = true →
        c.P c.k1 x = false ∧ c.P c.k2 x = false ∧ (c.handler && c.fatal x) = false
  | cnt, k :: exp, p, rest =>
      (k = c.k1 ∨ k = c.k2) ∧ c.P k p = true ∧
      ∀ x y, p = x ++ y → adm x y = true →
        (c.P k x = false → c.prompt x = false) ∧ c.P (otherKind c k) x = false ∧
        (c.handler && c.fatal x) = false ∧
        (c.P k x = true → c.limit k < cnt k + 1 ∨
          match rest with
          | [] => False
          | g :: rest' => Safe c adm (bumpf cnt k) exp (y ++ lc g) rest')

def allSplits : Bytes → Bytes → Bool := fun _ _ => true

/-- the split leaves whole lines in the buffer: nothing follows, or a newline follows -/
def wholeLines : Bytes → Bytes → Bool := fun _ y => atEOL y

/-- the pattern expected next has been tested on the current buffer and did not match -/
def tested (c : Cfg) (exp : List Kind) (buf : Bytes) : Prop :=
  match exp with
  | [] => c.prompt buf = false
  | k :: _ => c.P k buf = false

/-- the invariant of the closed system; `L`, `O` = expected log and outcome of the whole dialogue -/
inductive Phase (c : Cfg) (L : List (Kind × Bool)) (O : Status) (y : Sys) : Prop where
  | live (exp : List Kind) (hr : y.s.status = .running)
      (hs : Safe c allSplits y.s.cnt exp (y.s.buf ++ lc y.avail) y.d.segs)
      (ht : tested c exp y.s.buf)
      (hl : view y.s ++ expLog c y.s.cnt exp = L) (ho : outcome c y.s.cnt exp = O)
  | over (hst : y.s.status = O) (hl : view y.s = L) (hO : O ≠ .running)

theorem outcome_ne_running (c : Cfg) (exp : List Kind) : ∀ cnt, outcome c cnt exp ≠ .running := by
  induction exp with
  | nil => intro cnt; simp [outcome]
  | cons k e ih => intro cnt; unfold outcome; split <;> simp [ih]

/-- no carriage return in the text -/
def NoCR (b : Bytes) : Prop := ∀ x ∈ b, x ≠ 13

theorem chanRead_nocr (b : Bytes) (h : NoCR b) : chanRead b = b := by
  unfold chanRead
  rw [List.filter_eq_self]
  intro x hx
  simpa using h x hx

/-- the kick cannot fire during this read: the loop does not kick at all (ssh), or no time has passed,
    or the read returns at least one byte and none of them is a carriage return (so it does not clean
    to nothing) -/
def NoKick (c : Cfg) (raw : Bytes) (t : Nat) : Prop := c.kicks = false ∨ t = 0 ∨ (raw ≠ [] ∧ NoCR raw)

theorem afterRead_nokick (c : Cfg) (hcl : c.clean = crClean) (s : St) (raw : Bytes) (t : Nat)
    (h : NoKick c raw t) :
    afterRead c s raw t = { s with nread := s.nread + 1, held := [], buf := s.buf ++ lc raw } := by
  rcases h with h | h | ⟨h1, h2⟩
  · simp [afterRead, lc, hcl, crClean, h]
  · simp [afterRead, lc, hcl, crClean, h]
  · have : (chanRead raw).isEmpty = false := by
      rw [chanRead_nocr raw h2]; cases raw <;> simp_all
    simp [afterRead, lc, hcl, crClean, this]

/-- hypotheses on the configuration shared by the closed-system theorems -/
structure CfgOK (c : Cfg) : Prop where
  k12 : c.k1 ≠ c.k2
  k1r : c.k1 ≠ .ret
  k2r : c.k2 ≠ .ret
  P0 : ∀ k, c.P k [] = false          -- no credential pattern matches the empty buffer
  pr0 : c.prompt [] = false           -- nor does the prompt pattern
  cl : c.clean = crClean              -- the dialogue has no escape sequences: Channel.read only drops CR

/-- neither credential matches: the iteration only tests the prompt -/
theorem answers_skip (c : Cfg) (s : St) (h1 : c.P c.k1 s.buf = false) (h2 : c.P c.k2 s.buf = false) :
    answer c c.k2 (answer c c.k1 s) = s := by
  have e1 : answer c c.k1 s = s := by unfold answer; simp [h1]
  rw [e1]; unfold answer; simp [h2]

/-- exactly the expected credential `k` matches: the iteration is that one block; the tests that
    follow it run on the cleared buffer (or are skipped after a raise) -/
theorem answers_one (c : Cfg) (ok : CfgOK c) (k : Kind) (hk : k = c.k1 ∨ k = c.k2) (s : St)
    (hr : s.status = .running) (hp : c.P k s.buf = true) (ho : c.P (otherKind c k) s.buf = false) :
    finish c (answer c c.k2 (answer c c.k1 s)) = answer c k s := by
  have hfin : ∀ s' : St, AnswerCase c k s s' → s'.status = .running → finish c s' = s' ∧ s'.buf = [] := by
    intro s' hc hr'
    rcases hc with ⟨_, hn⟩ | ⟨_, _, _, he⟩ | ⟨_, _, _, he⟩
    · rcases hn with hn | hn
      · exact absurd hr hn
      · rw [hp] at hn; cases hn
    · subst he; exact ⟨by simp [finish, ok.pr0], rfl⟩
    · subst he; simp at hr'
  have hfin' : ∀ s' : St, s'.status ≠ .running → finish c s' = s' := by
    intro s' h; unfold finish; simp [h]
  rcases hk with rfl | rfl
  · -- k = k1: k2 is tested on the cleared buffer
    have hc := answer_cases c c.k1 s
    by_cases hr' : (answer c c.k1 s).status = .running
    · obtain ⟨hf, hb⟩ := hfin _ hc hr'
      have e2 : answer c c.k2 (answer c c.k1 s) = answer c c.k1 s := by
        generalize answer c c.k1 s = s' at *
        unfold answer; simp [hb, ok.P0]
      rw [e2, hf]
    · have e2 : answer c c.k2 (answer c c.k1 s) = answer c c.k1 s := by
        generalize answer c c.k1 s = s' at *
        unfold answer; simp [hr']
      rw [e2, hfin' _ hr']
  · -- k = k2: k1 does not match
    have hoth : otherKind c c.k2 = c.k1 := by simp [otherKind, Ne.symm ok.k12]
    rw [hoth] at ho
    have e1 : answer c c.k1 s = s := by unfold answer; simp [ho]
    rw [e1]
    have hc := answer_cases c c.k2 s
    by_cases hr' : (answer c c.k2 s).status = .running
    · exact (hfin _ hc hr').1
    · exact hfin' _ hr'

theorem feedDev_nil (d : Dev) : feedDev d [] = ([], d) := rfl

/-- a read at time 0 on which no credential pattern matches -/
theorem step_quiet (c : Cfg) (hcl : c.clean = crClean) (t : Nat) (s : St) (chunk : Bytes) (htk : NoKick c chunk t) (hr : s.status = .running)
    (hf : (c.handler && c.fatal (s.buf ++ lc chunk)) = false)
    (h1 : c.P c.k1 (s.buf ++ lc chunk) = false) (h2 : c.P c.k2 (s.buf ++ lc chunk) = false) :
    step c s (.chunk chunk t) = finish c { s with nread := s.nread + 1, held := [], buf := s.buf ++ lc chunk } := by
  rw [step_chunk c s chunk t hr, afterRead_nokick c hcl s chunk t htk]
  simp only [hf, Bool.false_eq_true, if_false]
  rw [answers_skip c _ h1 h2]

/-- a read at time 0 on which exactly the expected credential pattern matches -/
theorem step_one (c : Cfg) (ok : CfgOK c) (t : Nat) (k : Kind) (hk : k = c.k1 ∨ k = c.k2) (s : St) (chunk : Bytes) (htk : NoKick c chunk t)
    (hr : s.status = .running) (hf : (c.handler && c.fatal (s.buf ++ lc chunk)) = false)
    (hp : c.P k (s.buf ++ lc chunk) = true) (ho : c.P (otherKind c k) (s.buf ++ lc chunk) = false) :
    step c s (.chunk chunk t) = answer c k { s with nread := s.nread + 1, held := [], buf := s.buf ++ lc chunk } := by
  rw [step_chunk c s chunk t hr, afterRead_nokick c ok.cl s chunk t htk]
  simp only [hf, Bool.false_eq_true, if_false]
  exact answers_one c ok k hk _ hr hp ho

theorem kind_ne_ret (c : Cfg) (ok : CfgOK c) (k : Kind) (hk : k = c.k1 ∨ k = c.k2) : (k == Kind.ret) = false := by
  rcases hk with rfl | rfl
  · simpa using ok.k1r
  · simpa using ok.k2r

theorem phase_step (c : Cfg) (ok : CfgOK c) (L : List (Kind × Bool)) (O : Status) (y : Sys) (n t : Nat)
    (htk0 : c.kicks = false ∨ t = 0 ∨ NoCR y.avail) (h : Phase c L O y) : Phase c L O (sysStep c y (n, t)) := by
  unfold sysStep
  rcases h with ⟨exp, hr, hs, ht, hl, ho⟩ | ⟨hst, hl, hO⟩
  · by_cases hav : y.avail.isEmpty = true
    · simp [hav]; exact .live exp hr hs ht hl ho
    · simp only [hr, bne_self_eq_false, hav, Bool.or_self, Bool.false_eq_true, if_false]
      -- the chunk and what stays behind
      have htk : NoKick c (y.avail.take (max 1 n)) t := by
        rcases htk0 with h | h | h
        · exact Or.inl h
        · exact Or.inr (Or.inl h)
        · refine Or.inr (Or.inr ⟨?_, fun x hx => h x (List.mem_of_mem_take hx)⟩)
          intro hnil
          rcases List.take_eq_nil_iff.mp hnil with h0 | h0
          · omega
          · simp [h0] at hav
      generalize max 1 n = m at htk
      have hsplit : y.avail = y.avail.take m ++ y.avail.drop m := (List.take_append_drop m y.avail).symm
      generalize y.avail.take m = chunk at *
      generalize y.avail.drop m = remain at *
      have hp : y.s.buf ++ lc y.avail = (y.s.buf ++ lc chunk) ++ lc remain := by
        rw [hsplit, lc_append, List.append_assoc]
      cases exp with
      | nil =>
        obtain ⟨hprompt, hq⟩ := hs
        obtain ⟨q1, q2, q3⟩ := hq _ _ hp rfl
        rw [step_quiet c ok.cl t y.s chunk htk hr q3 q1 q2]
        by_cases hpx : c.prompt (y.s.buf ++ lc chunk) = true
        · have hfin : finish c { y.s with nread := y.s.nread + 1, held := [], buf := y.s.buf ++ lc chunk }
              = { y.s with nread := y.s.nread + 1, held := [], buf := y.s.buf ++ lc chunk, status := .done } := by
            simp [finish, hr, hpx]
          rw [hfin]
          simp only [List.drop_length, feedDev_nil, List.append_nil]
          refine .over ?_ ?_ (by rw [← ho]; simp [outcome])
          · rw [← ho]; rfl
          · simpa [view, expLog] using hl
        · have hfin : finish c { y.s with nread := y.s.nread + 1, held := [], buf := y.s.buf ++ lc chunk }
              = { y.s with nread := y.s.nread + 1, held := [], buf := y.s.buf ++ lc chunk } := by
            simp [finish, hpx]
          rw [hfin]
          simp only [List.drop_length, feedDev_nil, List.append_nil]
          refine .live [] hr ?_ ?_ hl ho
          · show Safe c allSplits y.s.cnt [] ((y.s.buf ++ lc chunk) ++ lc remain) y.d.segs
            rw [← hp]; exact ⟨hprompt, hq⟩
          · simpa [tested] using hpx
      | cons k exp' =>
        obtain ⟨hk, hpk, hq⟩ := hs
        obtain ⟨q1, q2, q3, q4⟩ := hq _ _ hp rfl
        have hkr := kind_ne_ret c ok k hk
        by_cases hpx : c.P k (y.s.buf ++ lc chunk) = true
        · rw [step_one c ok t k hk y.s chunk htk hr q3 hpx q2]
          rcases answer_cases c k { y.s with nread := y.s.nread + 1, held := [], buf := y.s.buf ++ lc chunk }
            with ⟨_, hn⟩ | ⟨_, _, hc, he⟩ | ⟨_, _, hc, he⟩
          · rcases hn with hn | hn
            · exact absurd hr hn
            · rw [hpx] at hn; cases hn
          · -- written: the device releases the next segment
            rw [he]
            have hnr : ¬ c.limit k < y.s.cnt k + 1 := by
              have : y.s.cnt k + 1 ≤ c.limit k := hc
              omega
            rcases q4 hpx with hlt | hnext
            · exact absurd hlt hnr
            · cases hsegs : y.d.segs with
              | nil => rw [hsegs] at hnext; exact hnext.elim
              | cons g rest' =>
                rw [hsegs] at hnext
                have hdrop : (y.s.log ++ [(⟨k, y.s.buf ++ lc chunk, true, y.s.nread + 1⟩ : Entry)]).drop y.s.log.length
                    = [⟨k, y.s.buf ++ lc chunk, true, y.s.nread + 1⟩] := by simp
                simp only [hdrop, feedDev, hkr, Bool.false_eq_true, if_false, if_true, hsegs, List.headD_cons,
                  List.tail_cons, List.append_nil]
                refine .live exp' hr ?_ ?_ ?_ ?_
                · show Safe c allSplits (bumpf y.s.cnt k) exp' ([] ++ lc (remain ++ g)) rest'
                  simpa [lc_append] using hnext
                · cases exp' with
                  | nil => simpa [tested] using ok.pr0
                  | cons k' _ => simpa [tested] using ok.P0 k'
                · rw [← hl]; simp [view, expLog, hnr]
                · rw [← ho]; simp [outcome, hnr]
          · -- refused: ScrapliAuthenticationFailed
            rw [he]
            have hdrop : (y.s.log ++ [(⟨k, y.s.buf ++ lc chunk, false, y.s.nread + 1⟩ : Entry)]).drop y.s.log.length
                = [⟨k, y.s.buf ++ lc chunk, false, y.s.nread + 1⟩] := by simp
            simp only [hdrop, feedDev, hkr, Bool.false_eq_true, if_false, List.append_nil]
            have hlt : c.limit k < y.s.cnt k + 1 := hc
            refine .over ?_ ?_ (by rw [← ho]; simp [outcome, hlt])
            · rw [← ho]; simp [outcome, hlt]
            · rw [← hl]; simp [view, expLog, hlt]
        · -- the expected pattern does not match yet
          have hpf : c.P k (y.s.buf ++ lc chunk) = false := by simpa using hpx
          have h12 : c.P c.k1 (y.s.buf ++ lc chunk) = false ∧ c.P c.k2 (y.s.buf ++ lc chunk) = false := by
            rcases hk with rfl | rfl
            · refine ⟨hpf, ?_⟩
              have : otherKind c c.k1 = c.k2 := by simp [otherKind]
              rw [this] at q2; exact q2
            · refine ⟨?_, hpf⟩
              have : otherKind c c.k2 = c.k1 := by simp [otherKind, Ne.symm ok.k12]
              rw [this] at q2; exact q2
          rw [step_quiet c ok.cl t y.s chunk htk hr q3 h12.1 h12.2]
          have hfin : finish c { y.s with nread := y.s.nread + 1, held := [], buf := y.s.buf ++ lc chunk }
              = { y.s with nread := y.s.nread + 1, held := [], buf := y.s.buf ++ lc chunk } := by
            simp [finish, q1 hpf]
          rw [hfin]
          simp only [List.drop_length, feedDev_nil, List.append_nil]
          refine .live (k :: exp') hr ?_ ?_ hl ho
          · show Safe c allSplits y.s.cnt (k :: exp') ((y.s.buf ++ lc chunk) ++ lc remain) y.d.segs
            rw [← hp]; exact ⟨hk, hpk, hq⟩
          · simpa [tested] using hpf
  · have : y.s.status ≠ .running := by rw [hst]; exact hO
    simp [this]
    exact .over hst hl hO

def NoCRDev (d : Dev) : Prop := NoCR d.onRet ∧ ∀ g ∈ d.segs, NoCR g
def NoCRSys (y : Sys) : Prop := NoCR y.avail ∧ NoCRDev y.d

theorem nocr_append (a b : Bytes) (ha : NoCR a) (hb : NoCR b) : NoCR (a ++ b) := by
  intro x hx
  rcases List.mem_append.mp hx with h | h
  · exact ha x h
  · exact hb x h

theorem feedDev_nocr (es : List Entry) : ∀ d, NoCRDev d → NoCR (feedDev d es).1 ∧ NoCRDev (feedDev d es).2 := by
  induction es with
  | nil => intro d h; exact ⟨by intro x hx; simp [feedDev] at hx, h⟩
  | cons e es ih =>
    intro d h
    unfold feedDev
    split
    · obtain ⟨h1, h2⟩ := ih d h
      exact ⟨nocr_append _ _ h.1 h1, h2⟩
    · split
      · have hd : NoCRDev { d with segs := d.segs.tail } :=
          ⟨h.1, fun g hg => h.2 g (List.mem_of_mem_tail hg)⟩
        obtain ⟨h1, h2⟩ := ih _ hd
        refine ⟨nocr_append _ _ ?_ h1, h2⟩
        cases hs : d.segs with
        | nil => intro x hx; simp at hx
        | cons g r => simpa using h.2 g (by simp [hs])
      · exact ih d h

theorem sysStep_nocr (c : Cfg) (y : Sys) (nt : Nat × Nat) (h : NoCRSys y) : NoCRSys (sysStep c y nt) := by
  unfold sysStep
  split
  · exact h
  · obtain ⟨h1, h2⟩ := feedDev_nocr ((step c y.s (.chunk (y.avail.take (max 1 nt.1)) nt.2)).log.drop y.s.log.length) y.d h.2
    exact ⟨nocr_append _ _ (fun x hx => h.1 x (List.mem_of_mem_drop hx)) h1, h2⟩

/-- the kick cannot fire during this schedule: the loop has no kick (ssh), or no time passes, or the
    device never prints a carriage return (then no read cleans to nothing — ANY times) -/
def TimeOK (c : Cfg) (g0 : Bytes) (d : Dev) (sched : List (Nat × Nat)) : Prop :=
  c.kicks = false ∨ (∀ p ∈ sched, p.2 = 0) ∨ (NoCR g0 ∧ NoCRDev d)

theorem phase_run (c : Cfg) (ok : CfgOK c) (L : List (Kind × Bool)) (O : Status) (sched : List (Nat × Nat)) :
    ∀ y, (c.kicks = false ∨ (∀ p ∈ sched, p.2 = 0) ∨ NoCRSys y) → Phase c L O y →
      Phase c L O (sched.foldl (sysStep c) y) := by
  induction sched with
  | nil => intro y _ h; exact h
  | cons p t ih =>
    intro y ht h
    have hp : c.kicks = false ∨ p.2 = 0 ∨ NoCR y.avail := by
      rcases ht with ht | ht | ht
      · exact Or.inl ht
      · exact Or.inr (Or.inl (ht p (by simp)))
      · exact Or.inr (Or.inr ht.1)
    have ht' : c.kicks = false ∨ (∀ q ∈ t, q.2 = 0) ∨ NoCRSys (sysStep c y p) := by
      rcases ht with ht | ht | ht
      · exact Or.inl ht
      · exact Or.inr (Or.inl (fun q hq => ht q (by simp [hq])))
      · exact Or.inr (Or.inr (sysStep_nocr c y p ht))
    simp only [List.foldl_cons]
    exact ih _ ht' (phase_step c ok L O y p.1 p.2 hp h)

theorem phase_init (c : Cfg) (ok : CfgOK c) (exp : List Kind) (g0 : Bytes) (d : Dev)
    (hs : Safe c allSplits (fun _ => 0) exp (lc g0) d.segs) :
    Phase c (expLog c (fun _ => 0) exp) (outcome c (fun _ => 0) exp) ⟨init, g0, d⟩ := by
  refine .live exp rfl (by simpa [init] using hs) ?_ (by simp [view, init]) rfl
  cases exp with
  | nil => simpa [tested, init] using ok.pr0
  | cons k _ => simpa [tested, init] using ok.P0 k

/-- what the invariant says about a state of the closed system -/
theorem phase_facts (c : Cfg) (L : List (Kind × Bool)) (O : Status) (y : Sys) (h : Phase c L O y) :
    (y.s.status = .running ∨ y.s.status = O) ∧
    (y.avail = [] → y.s.status = O) ∧
    (∃ more, view y.s ++ more = L) ∧
    (y.s.status = O → view y.s = L) := by
  rcases h with ⟨exp, hr, hs, ht, hl, ho⟩ | ⟨hst, hl, hO⟩
  · refine ⟨Or.inl hr, ?_, ⟨_, hl⟩, ?_⟩
    · intro hav
      exfalso
      rw [hav] at hs
      cases exp with
      | nil =>
        have : c.prompt y.s.buf = true := by simpa using hs.1
        rw [show c.prompt y.s.buf = false from ht] at this; cases this
      | cons k _ =>
        have : c.P k y.s.buf = true := by simpa using hs.2.1
        rw [show c.P k y.s.buf = false from ht] at this; cases this
    · intro hO
      exfalso
      rw [hr] at hO
      exact outcome_ne_running c exp y.s.cnt (by rw [ho]; exact hO.symm)
  · exact ⟨Or.inr hst, fun _ => hst, ⟨[], by simpa using hl⟩, fun _ => hl⟩

/-! ### a decidable form of `Safe` (for concrete dialogues) -/

def splitsOf (p : Bytes) : List (Bytes × Bytes) :=
  (List.range (p.length + 1)).map fun i => (p.take i, p.drop i)

theorem mem_splitsOf (p x y : Bytes) (h : p = x ++ y) : (x, y) ∈ splitsOf p := by
  subst h
  simp only [splitsOf, List.mem_map, List.mem_range]
  exact ⟨x.length, by simp; omega, by simp⟩

def safeB (c : Cfg) (adm : Bytes → Bytes → Bool) : (Kind → Nat) → List Kind → Bytes → List Bytes → Bool
  | _, [], p, _ =>
      c.prompt p && (splitsOf p).all fun xy =>
        !adm xy.1 xy.2 || (!c.P c.k1 xy.1 && !c.P c.k2 xy.1 && !(c.handler && c.fatal xy.1))
  | cnt, k :: exp, p, rest =>
      (k == c.k1 || k == c.k2) && c.P k p && (splitsOf p).all fun xy =>
        !adm xy.1 xy.2 ||
          ((c.P k xy.1 || !c.prompt xy.1) && !c.P (otherKind c k) xy.1 && !(c.handler && c.fatal xy.1) &&
            (!c.P k xy.1 || decide (c.limit k < cnt k + 1) ||
              match rest with
              | [] => false
              | g :: rest' => safeB c adm (bumpf cnt k) exp (xy.2 ++ lc g) rest'))

theorem safeB_sound (c : Cfg) (adm : Bytes → Bytes → Bool) (exp : List Kind) :
    ∀ cnt p rest, safeB c adm cnt exp p rest = true → Safe c adm cnt exp p rest := by
  induction exp with
  | nil =>
    intro cnt p rest h
    simp only [safeB, Bool.and_eq_true, List.all_eq_true] at h
    refine ⟨h.1, ?_⟩
    intro x y hp ha
    have := h.2 (x, y) (mem_splitsOf p x y hp)
    simp only [ha, Bool.not_true, Bool.false_or, Bool.and_eq_true, Bool.not_eq_true'] at this
    exact ⟨this.1.1, this.1.2, this.2⟩
  | cons k exp' ih =>
    intro cnt p rest h
    simp only [safeB, Bool.and_eq_true, List.all_eq_true, Bool.or_eq_true, beq_iff_eq] at h
    refine ⟨h.1.1, h.1.2, ?_⟩
    intro x y hp ha
    have := h.2 (x, y) (mem_splitsOf p x y hp)
    simp only [ha, Bool.not_true, Bool.false_eq_true, false_or, Bool.not_eq_true',
      decide_eq_true_eq] at this
    obtain ⟨⟨⟨a1, a2⟩, a3⟩, a4⟩ := this
    refine ⟨?_, a2, a3, ?_⟩
    · intro hf
      rcases a1 with a1 | a1
      · rw [hf] at a1; cases a1
      · exact a1
    intro hpk
    rcases a4 with (a4 | a4) | a4
    · rw [hpk] at a4; cases a4
    · exact Or.inl a4
    · right
      cases rest with
      | nil => simp at a4
      | cons g rest' => exact ih _ _ _ a4

/-! ### the ssh message table -/

theorem isInfix_mem (needle : Bytes) : ∀ b : Bytes, isInfix needle b = true → ∀ x ∈ needle, x ∈ b := by
  intro b
  induction b with
  | nil =>
    intro h x hx
    simp [isInfix] at h
    subst h; simp at hx
  | cons c r ih =>
    intro h x hx
    simp only [isInfix, Bool.or_eq_true, beq_iff_eq] at h
    rcases h with h | h
    · rw [h] at hx
      exact List.mem_of_mem_take hx
    · exact List.mem_cons_of_mem _ (ih h x hx)

def isUpper (c : UInt8) : Bool := 65 ≤ c && c ≤ 90

theorem lowerByte_not_upper (c : UInt8) : isUpper (lowerByte c) = false := by
  unfold lowerByte isUpper
  split
  · rename_i h
    have h1 := UInt8.le_iff_toNat_le.mp h.1
    have h2 := UInt8.le_iff_toNat_le.mp h.2
    simp only [Bool.and_eq_false_iff, decide_eq_false_iff_not, UInt8.le_iff_toNat_le, UInt8.toNat_add]
    simp at h1 h2 ⊢
    omega
  · rename_i h
    simpa [Bool.and_eq_false_iff] using h

theorem lower_no_upper (b : Bytes) : ∀ x ∈ lower b, isUpper x = false := by
  intro x hx
  simp only [lower, List.mem_map] at hx
  obtain ⟨c, _, rfl⟩ := hx
  exact lowerByte_not_upper c

/-! ### literals and prefixes -/

theorem lower_take (n : Nat) (b : Bytes) : lower (b.take n) = (lower b).take n := by
  simp [lower, List.map_take]

theorem lower_append (a b : Bytes) : lower (a ++ b) = lower a ++ lower b := by simp [lower]

theorem here_startsWith (br : Branch) (prev : Option UInt8) (s : Bytes) (h : br.here prev s = true) :
    startsWith br.needle s = true := by
  unfold Branch.here at h
  simp only [Bool.and_eq_true] at h
  exact h.1.1

theorem scan_suffix (br : Branch) : ∀ (s : Bytes) (prev : Option UInt8), br.scan prev s = true →
    ∃ t u, s = t ++ u ∧ startsWith br.needle u = true := by
  intro s
  induction s with
  | nil => intro prev h; exact ⟨[], [], rfl, here_startsWith br prev [] (by simpa [Branch.scan] using h)⟩
  | cons c r ih =>
    intro prev h
    simp only [Branch.scan, Bool.or_eq_true] at h
    rcases h with h | h
    · exact ⟨[], c :: r, rfl, here_startsWith br prev _ h⟩
    · obtain ⟨t, u, hs, hu⟩ := ih (some c) h
      exact ⟨c :: t, u, by simp [hs], hu⟩

theorem isInfix_of_take (needle b : Bytes) (h : needle = b.take needle.length) : isInfix needle b = true := by
  cases b with
  | nil => simp at h; subst h; rfl
  | cons c r => simp only [isInfix, Bool.or_eq_true, beq_iff_eq]; exact Or.inl h

theorem isInfix_append_left (needle a : Bytes) : ∀ b, isInfix needle b = true → isInfix needle (a ++ b) = true := by
  induction a with
  | nil => intro b h; exact h
  | cons c r ih => intro b h; simp only [List.cons_append, isInfix, Bool.or_eq_true]; exact Or.inr (ih b h)

theorem isInfix_append_right (needle c : Bytes) : ∀ b, isInfix needle b = true → isInfix needle (b ++ c) = true := by
  intro b
  induction b with
  | nil =>
    intro h
    have : needle = [] := by simpa [isInfix] using h
    subst this
    cases c <;> simp [isInfix]
  | cons x r ih =>
    intro h
    simp only [isInfix, Bool.or_eq_true, beq_iff_eq] at h
    simp only [List.cons_append, isInfix, Bool.or_eq_true, beq_iff_eq]
    rcases h with h | h
    · left
      have hl : needle.length ≤ (x :: r).length := by
        have := congrArg List.length h
        simp only [List.length_take] at this
        omega
      rw [show x :: (r ++ c) = (x :: r) ++ c from rfl, List.take_append_of_le_length hl]
      exact h
    · exact Or.inr (ih h)

end Scrapli.Auth
