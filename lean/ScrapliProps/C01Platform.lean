import ScrapliProps.C01Lemmas
/-
  A real driver's prompt pattern inside the quantifier of C01: the IOS-XE class pattern

    (^[\w.\-@/:]{1,63}>$)|(^[\w.\-@/:]{1,63}#$)|(^[\w.\-@/:]{1,63}\([\w.\-@/:+]{0,32}\)#$)|
    (^([\w.\-@/+>:]+\(tcl\)[>#]|\+>)$)                                   (re.M | re.I)

  written as a line predicate `iosxeP` (compared with CPython `re` on prompt-rich random lines by the
  check on every run: the only sampled fact is "MULTILINE search ≡ some line satisfies `iosxeP`"),
  and PROOFS that every exec / privilege-exec / configuration prompt of that pattern satisfies the
  hypotheses `blank`, `NoEarly`, `PromptOK` of `Fits` — for every host name and mode the pattern admits.
-/
namespace Scrapli.Chan
open Scrapli

def isWordB (c : UInt8) : Bool :=
  (48 ≤ c && c ≤ 57) || (65 ≤ c && c ≤ 90) || (97 ≤ c && c ≤ 122) || c == 95      -- \w (ASCII)
/-- `[\w.\-@/:]` -/
def xeCls (c : UInt8) : Bool := isWordB c || c == 46 || c == 45 || c == 64 || c == 47 || c == 58
/-- `[\w.\-@/:+]` -/
def xeModeCls (c : UInt8) : Bool := xeCls c || c == 43
/-- `[\w.\-@/+>:]` -/
def xeTclCls (c : UInt8) : Bool := xeCls c || c == 43 || c == 62

/-- `[\w.\-@/:]{1,63}` -/
def hostOK (h : Bytes) : Bool := decide (0 < h.length) && decide (h.length ≤ 63) && h.all xeCls

/-- `[…]{1,63}\([…+]{0,32}\)` on the reversed text (the mode class has no parenthesis, so the parse
    is deterministic) -/
def cfgAltRev (t : Bytes) : Bool :=
  match t with
  | 41 :: u =>
    let m := u.takeWhile (· != 40)
    match u.dropWhile (· != 40) with
    | 40 :: hr => decide (m.length ≤ 32) && m.all xeModeCls && hostOK hr.reverse
    | _ => false
  | _ => false

/-- `([\w.\-@/+>:]+\(tcl\)[>#]|\+>)` (IGNORECASE: `tcl` in any case) -/
def tclAlt (s : Bytes) : Bool :=
  s == [43, 62] ||
  (match s.reverse with
   | c :: 41 :: l :: cc :: t :: 40 :: g =>
     (c == 62 || c == 35) && lowerByte l == 108 && lowerByte cc == 99 && lowerByte t == 116 &&
       !g.isEmpty && g.all xeTclCls
   | _ => false)

/-- one line matches the IOS-XE class pattern -/
def iosxeP (s : Bytes) : Bool :=
  match s.reverse with
  | 62 :: t => hostOK t.reverse || tclAlt s
  | 35 :: t => hostOK t.reverse || cfgAltRev t || tclAlt s
  | _ => false

/-- every line the pattern accepts ends in `>` or `#` -/
theorem iosxeP_last {s : Bytes} (h : iosxeP s = true) : s.getLast? = some 62 ∨ s.getLast? = some 35 := by
  unfold iosxeP at h
  rw [List.getLast?_eq_head?_reverse]
  split at h
  · rename_i t e; left; rw [e]; rfl
  · rename_i t e; right; rw [e]; rfl
  · exact absurd h (by simp)

/-- a prompt terminator -/
def isTerm (c : UInt8) : Bool := c == 62 || c == 35

theorem getLast?_mem {s : Bytes} {c : UInt8} (h : s.getLast? = some c) : c ∈ s :=
  List.mem_of_getLast? h

/-- **no early match**: if the only terminator of `p` is its last byte, no segment of a proper
    prefix of `p` is accepted -/
theorem noEarly_of_terminator_last {P : Bytes → Bool}
    (hP : ∀ s, P s = true → s.getLast? = some 62 ∨ s.getLast? = some 35)
    (p : Bytes) (hp : ∀ c ∈ p.dropLast, isTerm c = false) : NoEarly P p := by
  intro q hq hne s hs
  rw [Bool.eq_false_iff]; intro h
  -- q is a prefix of p.dropLast
  have hqd : q <+: p.dropLast := by
    obtain ⟨r, hr⟩ := hq
    cases hr' : r with
    | nil => subst hr'; simp at hr; exact absurd hr hne
    | cons a r2 =>
      subst hr'
      rw [← hr]
      have : (q ++ a :: r2).dropLast = q ++ (a :: r2).dropLast := by
        rw [List.dropLast_append_of_ne_nil (by simp)]
      rw [this]
      exact List.prefix_append _ _
  have hmem : ∀ c ∈ s, isTerm c = false := fun c hc => hp c (hqd.subset (hs.subset hc))
  rcases hP s h with e | e
  · have := hmem 62 (getLast?_mem e); revert this; decide
  · have := hmem 35 (getLast?_mem e); revert this; decide

theorem blank_not_term {s : Bytes} (h : squishBuf s = []) : ∀ c ∈ s, isTerm c = false := by
  intro c hc
  cases ht : isTerm c with
  | false => rfl
  | true =>
    exfalso
    have hc' : c = 62 ∨ c = 35 := by
      unfold isTerm at ht
      simpa using ht
    have hin : lowerByte c ∈ squishBuf s := by
      unfold squishBuf
      rw [List.mem_filter, List.mem_filter]
      refine ⟨⟨List.mem_map.mpr ⟨c, hc, rfl⟩, ?_⟩, ?_⟩ <;> rcases hc' with e | e <;> subst e <;> decide
    rw [h] at hin
    simp at hin

/-- **invisible text is never a prompt** -/
theorem iosxeP_blank (s : Bytes) (h : squishBuf s = []) : iosxeP s = false := by
  rw [Bool.eq_false_iff]; intro hp
  rcases iosxeP_last hp with e | e
  · have := blank_not_term h 62 (getLast?_mem e); revert this; decide
  · have := blank_not_term h 35 (getLast?_mem e); revert this; decide

/-- the prompts of the three ordinary IOS-XE levels, for any host name and mode the pattern admits -/
inductive XePrompt : Bytes → Prop
  | exec (h : Bytes) (hh : hostOK h = true) : XePrompt (h ++ [62])
  | priv (h : Bytes) (hh : hostOK h = true) : XePrompt (h ++ [35])
  | conf (h m : Bytes) (hh : hostOK h = true) (hm : m.length ≤ 32) (hmc : m.all xeModeCls = true) :
      XePrompt (h ++ 40 :: m ++ [41, 35])

theorem hostOK_cls {h : Bytes} (hh : hostOK h = true) : ∀ c ∈ h, xeCls c = true := by
  unfold hostOK at hh
  simp only [Bool.and_eq_true, List.all_eq_true] at hh
  exact hh.2

theorem xeCls_not_term {c : UInt8} (h : xeCls c = true) : isTerm c = false := by
  cases ht : isTerm c with
  | false => rfl
  | true =>
    exfalso
    have : c = 62 ∨ c = 35 := by unfold isTerm at ht; simpa using ht
    rcases this with e | e <;> subst e <;> revert h <;> decide

theorem xeModeCls_not_term {c : UInt8} (h : xeModeCls c = true) : isTerm c = false := by
  cases ht : isTerm c with
  | false => rfl
  | true =>
    exfalso
    have : c = 62 ∨ c = 35 := by unfold isTerm at ht; simpa using ht
    rcases this with e | e <;> subst e <;> revert h <;> decide

theorem xeCls_not_paren {c : UInt8} (h : xeModeCls c = true) : c ≠ 40 := by
  intro e; subst e; revert h; decide

/-- **the prompt itself is accepted** -/
theorem xePrompt_accepted {p : Bytes} (hp : XePrompt p) : iosxeP p = true := by
  cases hp with
  | exec h hh => simp [iosxeP, hh]
  | priv h hh => simp [iosxeP, hh]
  | conf h m hh hm hmc =>
    have hrev : (h ++ 40 :: m ++ [41, 35]).reverse = 35 :: 41 :: (m.reverse ++ 40 :: h.reverse) := by simp
    unfold iosxeP
    rw [hrev]
    simp only
    have hmr : ∀ c ∈ m.reverse, (c != 40) = true := by
      intro c hc
      have := xeCls_not_paren (List.all_eq_true.mp hmc c (by simpa using hc))
      simpa using this
    have htw : (m.reverse ++ 40 :: h.reverse).takeWhile (· != 40) = m.reverse := by
      rw [List.takeWhile_append_of_pos hmr]; simp
    have hdw : (m.reverse ++ 40 :: h.reverse).dropWhile (· != 40) = 40 :: h.reverse := by
      rw [List.dropWhile_append_of_pos hmr]; simp
    have hc : cfgAltRev (41 :: (m.reverse ++ 40 :: h.reverse)) = true := by
      unfold cfgAltRev
      simp only [htw, hdw, List.length_reverse, List.reverse_reverse, hh, Bool.and_true,
        Bool.and_eq_true, decide_eq_true_eq]
      refine ⟨hm, ?_⟩
      rw [List.all_eq_true] at hmc ⊢
      intro c hc
      exact hmc c (by simpa using hc)
    simp [hc]

/-- every byte of the prompt but the last is no terminator -/
theorem xePrompt_inner {p : Bytes} (hp : XePrompt p) : ∀ c ∈ p.dropLast, isTerm c = false := by
  cases hp with
  | exec h hh =>
    intro c hc
    rw [List.dropLast_concat] at hc
    exact xeCls_not_term (hostOK_cls hh c hc)
  | priv h hh =>
    intro c hc
    rw [List.dropLast_concat] at hc
    exact xeCls_not_term (hostOK_cls hh c hc)
  | conf h m hh hm hmc =>
    intro c hc
    have e : (h ++ 40 :: m ++ [41, 35]).dropLast = h ++ 40 :: m ++ [41] := by
      have : h ++ 40 :: m ++ [41, 35] = (h ++ 40 :: m ++ [41]) ++ [35] := by simp
      rw [this, List.dropLast_concat]
    rw [e] at hc
    simp only [List.mem_append, List.mem_cons, List.mem_singleton, List.not_mem_nil, or_false] at hc
    rcases hc with (h1 | h1 | h1) | h1
    · exact xeCls_not_term (hostOK_cls hh c h1)
    · subst h1; decide
    · exact xeModeCls_not_term (List.all_eq_true.mp hmc c h1)
    · subst h1; decide

theorem xePrompt_ne {p : Bytes} (hp : XePrompt p) : p ≠ [] := by
  cases hp <;> simp

theorem xe_plain_byte {c : UInt8} (h : xeModeCls c = true ∨ c = 40 ∨ c = 41 ∨ c = 62 ∨ c = 35) :
    c ≠ NL ∧ c ≠ CR ∧ c ≠ ESC := by
  refine ⟨?_, ?_, ?_⟩ <;> intro e <;> subst e <;> revert h <;> decide

theorem xePrompt_bytes {p : Bytes} (hp : XePrompt p) :
    ∀ c ∈ p, xeModeCls c = true ∨ c = 40 ∨ c = 41 ∨ c = 62 ∨ c = 35 := by
  have hcls : ∀ {c}, xeCls c = true → xeModeCls c = true := by
    intro c h; unfold xeModeCls; simp [h]
  cases hp with
  | exec h hh =>
    intro c hc
    rcases List.mem_append.mp hc with h1 | h1
    · exact Or.inl (hcls (hostOK_cls hh c h1))
    · simp at h1; subst h1; simp
  | priv h hh =>
    intro c hc
    rcases List.mem_append.mp hc with h1 | h1
    · exact Or.inl (hcls (hostOK_cls hh c h1))
    · simp at h1; subst h1; simp
  | conf h m hh hm hmc =>
    intro c hc
    simp only [List.mem_append, List.mem_cons, List.not_mem_nil, or_false] at hc
    rcases hc with (h1 | h1 | h1) | h1 | h1
    · exact Or.inl (hcls (hostOK_cls hh c h1))
    · subst h1; simp
    · exact Or.inl (List.all_eq_true.mp hmc c h1)
    · subst h1; simp
    · subst h1; simp

/-- **every IOS-XE exec / privilege-exec / configuration prompt is inside the quantifier of C01**: a
    device with such a prompt (IOS-XE prints no blank after it) fits, given only that the compiled
    pattern searches line by line with `iosxeP` (the sampled fact) and the prompt fits the window. -/
theorem iosxe_fits (cfg : Cfg) (out : Bytes → Bytes) {p : Bytes} (hp : XePrompt p)
    (hS : ∀ x, cfg.prompt.search x = (splitNL x).any iosxeP)
    (hstrict : cfg.rough = false) (hret : IsRet cfg.ret) (hwin : p.length < cfg.depth) :
    Fits iosxeP cfg { out := out, prompt := p, trail := [] } where
  search_lines := hS
  strict := hstrict
  ret := hret
  blank := iosxeP_blank
  noEarly := noEarly_of_terminator_last (fun _ => iosxeP_last) p (xePrompt_inner hp)
  promptOK := by
    intro t' ht'
    have : t' = [] := by simpa using ht'
    subst this
    simpa using xePrompt_accepted hp
  prompt_ne := xePrompt_ne hp
  prompt_nl := fun hm => (xe_plain_byte (xePrompt_bytes hp NL hm)).1 rfl
  prompt_plain :=
    ⟨fun hm => (xe_plain_byte (xePrompt_bytes hp CR hm)).2.1 rfl,
     fun hm => (xe_plain_byte (xePrompt_bytes hp ESC hm)).2.2 rfl⟩
  trail_hws := by simp
  fits_window := by simpa using hwin

/-- non-vacuity: "Router-1.lab(config-if)#" is such a prompt -/
example : XePrompt ([82, 111, 117, 116, 101, 114, 45, 49, 46, 108, 97, 98] ++ 40 ::
    [99, 111, 110, 102, 105, 103, 45, 105, 102] ++ [41, 35]) :=
  XePrompt.conf _ _ (by decide) (by decide) (by decide)

end Scrapli.Chan
