"""translator piece for C19: which transport-reaching calls of which channel operations are lexically inside
`with / async with self._channel_lock():`, how `_channel_lock` takes the lock, what kind of lock it is.
Everything is read from the AST of /repo's channel files (nothing is imported or executed)."""
import ast

from translate import HEADER, TranslateError, _parse

FILES = (("scrapli/channel/sync_channel.py", "Channel"), ("scrapli/channel/async_channel.py", "AsyncChannel"))
BASE = ("scrapli/channel/base_channel.py", "BaseChannel")
# the primitives: they ARE the transport calls the operations make while holding the (non re-entrant) lock
PRIMITIVES = ("read", "write", "send_return")


def _class(tree, name, rel):
    for n in tree.body:
        if isinstance(n, ast.ClassDef) and n.name == name:
            return n
    raise TranslateError(f"{rel}: class {name} not found")


def _methods(cls):
    return {n.name: n for n in cls.body if isinstance(n, (ast.FunctionDef, ast.AsyncFunctionDef))}


def _self_call(node):
    """('m',) for self.m(...), ('transport', 'x') for self.transport.x(...), else None"""
    if not isinstance(node, ast.Call):
        return None
    f = node.func
    if isinstance(f, ast.Attribute) and isinstance(f.value, ast.Name) and f.value.id == "self":
        return (f.attr,)
    if (isinstance(f, ast.Attribute) and isinstance(f.value, ast.Attribute) and f.value.attr == "transport"
            and isinstance(f.value.value, ast.Name) and f.value.value.id == "self"):
        return ("transport", f.attr)
    return None


def _reaching(methods):
    """names of methods from which a transport read/write is reachable through self.<method>() calls"""
    direct = {}
    for name, fn in methods.items():
        direct[name] = set()
        for n in ast.walk(fn):
            c = _self_call(n)
            if c is not None:
                direct[name].add(c)
    reach = {m for m, cs in direct.items() if any(c[0] == "transport" and c[1] in ("read", "write") for c in cs)}
    changed = True
    while changed:
        changed = False
        for m, cs in direct.items():
            if m not in reach and any(len(c) == 1 and c[0] in reach for c in cs):
                reach.add(m)
                changed = True
    return reach


def _is_lock_ctx(item):
    e = item.context_expr
    return _self_call(e) == ("_channel_lock",)


def _calls(fn, reach):
    """(callee, line, lexically inside the lock context) for every call in fn that reaches the transport"""
    out = []

    def visit(node, inside):
        if isinstance(node, (ast.With, ast.AsyncWith)):
            now = inside or any(_is_lock_ctx(it) for it in node.items)
            for it in node.items:
                visit(it.context_expr, inside)
            for b in node.body:
                visit(b, now)
            return
        c = _self_call(node)
        if c is not None:
            if c[0] == "transport":
                out.append(("transport." + c[1], node.lineno, inside))
            elif c[0] in reach:
                out.append((c[0], node.lineno, inside))
        for ch in ast.iter_child_nodes(node):
            visit(ch, inside)

    for stmt in fn.body:
        visit(stmt, False)
    return sorted(out, key=lambda r: (r[1], r[0]))


def _rows(name, methods, reach):
    """(callee, line, inside) for the operation `name`: inside = lexically inside `with self._channel_lock()`, or a
    call of a private helper all of whose own transport-reaching calls are inside (recursively)"""

    def covered(m, seen):
        """every transport-reaching call made by helper m happens inside the lock context"""
        if m in PRIMITIVES or m.startswith("transport.") or m in seen or m not in methods:
            return False
        return all(ins or covered(callee, seen | {m}) for callee, _ln, ins in _calls(methods[m], reach))

    return [(callee, ln, ins or covered(callee, {name})) for callee, ln, ins in _calls(methods[name], reach)]


def _sections(name, methods):
    """[in_loop, ...] one entry per `with self._channel_lock()` statement the operation executes, its own and those of the
    private helpers it calls (recursively); in_loop = the statement (or the call leading to it) sits under for/while"""
    out = []

    def visit(node, in_loop, seen):
        if isinstance(node, (ast.For, ast.AsyncFor, ast.While)):
            for ch in ast.iter_child_nodes(node):
                visit(ch, True, seen)
            return
        if isinstance(node, (ast.With, ast.AsyncWith)) and any(_is_lock_ctx(it) for it in node.items):
            out.append(in_loop)
        c = _self_call(node)
        if c is not None and len(c) == 1 and c[0] in methods and c[0] not in PRIMITIVES and c[0] not in seen and c[0] != "_channel_lock":
            for stmt in methods[c[0]].body:
                visit(stmt, in_loop, seen | {c[0]})
        for ch in ast.iter_child_nodes(node):
            visit(ch, in_loop, seen)

    for stmt in methods[name].body:
        visit(stmt, False, {name})
    return out


def _assert_transport_uses(cls, rel):
    """the reachability analysis only understands `self.transport.x(...)` and `self.m(...)`: anything else that could reach
    the transport must stop the translation instead of silently producing no row"""
    parents = {}
    for n in ast.walk(cls):
        for ch in ast.iter_child_nodes(n):
            parents[id(ch)] = n
    for n in ast.walk(cls):
        if _is_self_attr(n, "transport") and isinstance(n.ctx, ast.Load):
            p = parents.get(id(n))
            ok = isinstance(p, ast.Attribute) and (p.attr == "_base_transport_args" or (
                isinstance(parents.get(id(p)), ast.Call) and parents[id(p)].func is p))
            if not ok:
                raise TranslateError(f"{rel}:{n.lineno}: `self.transport` used other than as `self.transport.<call>(...)`: cannot follow it")
        if isinstance(n, ast.Call) and isinstance(n.func, ast.Attribute) and n.func.attr in PRIMITIVES:
            v = n.func.value
            if isinstance(v, ast.Call) and isinstance(v.func, ast.Name) and v.func.id == "super":
                raise TranslateError(f"{rel}:{n.lineno}: super().{n.func.attr}(...) is not followed by the analysis")
            if isinstance(v, ast.Name) and v.id in ("BaseChannel", "Channel", "AsyncChannel"):
                raise TranslateError(f"{rel}:{n.lineno}: {v.id}.{n.func.attr}(self, ...) is not followed by the analysis")


def _is_self_attr(e, attr):
    return isinstance(e, ast.Attribute) and e.attr == attr and isinstance(e.value, ast.Name) and e.value.id == "self"


def _is_yield_stmt(s):
    return isinstance(s, ast.Expr) and isinstance(s.value, ast.Yield) and s.value.value is None


def _mentions_lock(e, aliases):
    for n in ast.walk(e):
        if _is_self_attr(n, "channel_lock") or (isinstance(n, ast.Name) and n.id in aliases):
            return True
    return False


def _lock_context_ok(fn, is_async):
    """`_channel_lock` is a (async)contextmanager that takes the lock with a with-statement (so it is released on
    every exit of the body, exception or not), yields inside it, and never calls acquire()/release() by hand"""
    want_deco = "asynccontextmanager" if is_async else "contextmanager"
    decos = [d.id if isinstance(d, ast.Name) else getattr(d, "attr", "") for d in fn.decorator_list]
    if want_deco not in decos:
        return False
    aliases = set()
    for n in ast.walk(fn):
        if isinstance(n, ast.Assign) and _mentions_lock(n.value, aliases):
            aliases.update(t.id for t in n.targets if isinstance(t, ast.Name))
        if isinstance(n, ast.Call) and isinstance(n.func, ast.Attribute) and n.func.attr in ("acquire", "release"):
            return False
    wcls = ast.AsyncWith if is_async else ast.With
    for n in ast.walk(fn):
        if isinstance(n, wcls) and any(_mentions_lock(it.context_expr, aliases) for it in n.items):
            if any(isinstance(m, ast.Yield) for b in n.body for m in ast.walk(b)):
                return True
    return False


def _lock_type(tree, cls, rel):
    """dotted name of the constructor assigned to self.channel_lock in __init__, resolved through the imports"""
    imports = {}
    for n in tree.body:
        if isinstance(n, ast.ImportFrom):
            for a in n.names:
                imports[a.asname or a.name] = f"{n.module}.{a.name}"
        elif isinstance(n, ast.Import):
            for a in n.names:
                imports[a.asname or a.name] = a.name
    init = _methods(cls).get("__init__")
    if init is None:
        raise TranslateError(f"{rel}: no __init__")
    found = []
    guarded = []
    for n in ast.walk(init):
        if isinstance(n, ast.If):
            for m in ast.walk(n):
                if isinstance(m, ast.Assign) and any(_is_self_attr(t, "channel_lock") for t in m.targets) and isinstance(m.value, ast.Call):
                    t = n.test
                    guarded.append(isinstance(t, ast.Attribute) and t.attr == "channel_lock" and isinstance(t.value, ast.Attribute)
                                   and t.value.attr == "_base_channel_args")
        if isinstance(n, ast.Assign) and any(_is_self_attr(t, "channel_lock") for t in n.targets) and isinstance(n.value, ast.Call):
            f = n.value.func
            if isinstance(f, ast.Name):
                found.append(imports.get(f.id, f.id))
            elif isinstance(f, ast.Attribute) and isinstance(f.value, ast.Name):
                found.append(f"{imports.get(f.value.id, f.value.id)}.{f.attr}")
            else:
                raise TranslateError(f"{rel}: cannot resolve lock constructor")
    if len(found) != 1:
        raise TranslateError(f"{rel}: expected one `self.channel_lock = <ctor>()`, found {found}")
    return found[0], (len(guarded) == 1 and guarded[0])


def _default_flag():
    rel, _ = BASE
    for n in ast.walk(_parse(rel)):
        if isinstance(n, ast.ClassDef) and n.name == "BaseChannelArgs":
            for s in n.body:
                if isinstance(s, ast.AnnAssign) and isinstance(s.target, ast.Name) and s.target.id == "channel_lock":
                    return bool(ast.literal_eval(s.value))
    raise TranslateError(f"{rel}: BaseChannelArgs.channel_lock not found")


DECO = "scrapli/decorators.py"


def _func(tree, name, rel):
    for n in tree.body:
        if isinstance(n, (ast.FunctionDef, ast.AsyncFunctionDef)) and n.name == name:
            return n
    raise TranslateError(f"{rel}: function {name} not found")


def _calls_named(node, name):
    return [n for n in ast.walk(node) if isinstance(n, ast.Call) and isinstance(n.func, ast.Name) and n.func.id == name]


def pool_timeout_order():
    """-> (inside, closes, joins).
    joins:  leaving the pool joins the worker — the pool is the context of a with-statement, or is shut down with
            `shutdown()` / `shutdown(wait=True)`; `shutdown(wait=False)` (or no shutdown at all) does not join.
    inside: `_handle_timeout(...)` runs BEFORE that join: lexically inside the with-block, or — manual pool — inside the
            try whose finally shuts the pool down / on an earlier line than the shutdown call.
    closes: `_handle_timeout` calls `transport.close()` before it raises."""
    tree = _parse(DECO)
    fn = _func(tree, "_multiprocessing_timeout", DECO)

    def is_pool_ctor(e):
        return isinstance(e, ast.Call) and getattr(e.func, "id", getattr(e.func, "attr", "")) == "ThreadPoolExecutor"

    allc = _calls_named(fn, "_handle_timeout")
    if not allc:
        raise TranslateError(f"{DECO}: _multiprocessing_timeout does not call _handle_timeout")
    if not any(isinstance(n, ast.Call) and isinstance(n.func, ast.Attribute) and n.func.attr == "submit" for n in ast.walk(fn)):
        raise TranslateError(f"{DECO}: _multiprocessing_timeout: no pool.submit")
    withs = [n for n in ast.walk(fn) if isinstance(n, ast.With) and any(is_pool_ctor(it.context_expr) for it in n.items)]
    assigns = [n for n in ast.walk(fn) if isinstance(n, ast.Assign) and is_pool_ctor(n.value)]
    if len(withs) + len(assigns) != 1:
        raise TranslateError(f"{DECO}: _multiprocessing_timeout: expected exactly one ThreadPoolExecutor, found {len(withs) + len(assigns)}")
    if withs:
        w = withs[0]
        inside_ids = {id(c) for b in w.body for c in _calls_named(b, "_handle_timeout")}
        inside, joins = all(id(c) in inside_ids for c in allc), True
    else:
        shut = [n for n in ast.walk(fn) if isinstance(n, ast.Call) and isinstance(n.func, ast.Attribute) and n.func.attr == "shutdown"]
        if len(shut) > 1:
            raise TranslateError(f"{DECO}: _multiprocessing_timeout: several pool.shutdown calls")
        if not shut:
            inside, joins = True, False
        else:
            sh = shut[0]
            waitkw = [k.value for k in sh.keywords if k.arg == "wait"] + list(sh.args[:1])
            if waitkw and not isinstance(waitkw[0], ast.Constant):
                raise TranslateError(f"{DECO}: pool.shutdown(wait=<expression>) cannot be decided")
            joins = (not waitkw) or bool(waitkw[0].value)
            tries = [t for t in ast.walk(fn) if isinstance(t, ast.Try) and any(sh in list(ast.walk(f)) for f in t.finalbody)]
            if tries:
                body_ids = {id(c) for b in tries[0].body for c in _calls_named(b, "_handle_timeout")}
                inside = all(id(c) in body_ids for c in allc)
            else:
                inside = all(c.lineno < sh.lineno for c in allc)
    ht = _func(tree, "_handle_timeout", DECO)
    closes = [n.lineno for n in ast.walk(ht) if isinstance(n, ast.Call) and isinstance(n.func, ast.Attribute) and n.func.attr == "close"
              and isinstance(n.func.value, ast.Name) and n.func.value.id == "transport"]
    raises = [n.lineno for n in ast.walk(ht) if isinstance(n, ast.Raise)]
    if not raises:
        raise TranslateError(f"{DECO}: _handle_timeout does not raise")
    return inside, bool(closes) and min(closes) < max(raises), joins


def close_guard():
    """under which condition does `_handle_timeout` call transport.close()?  -> "always" | "not <test>" | "<test>" (source text)"""
    tree = _parse(DECO)
    ht = _func(tree, "_handle_timeout", DECO)

    def is_close(n):
        return (isinstance(n, ast.Call) and isinstance(n.func, ast.Attribute) and n.func.attr == "close"
                and isinstance(n.func.value, ast.Name) and n.func.value.id == "transport")

    def find(stmts, guard):
        for st in stmts:
            if isinstance(st, ast.If):
                t = ast.unparse(st.test)
                r = find(st.body, guard + [t]) or find(st.orelse, guard + ["not " + t])
                if r is not None:
                    return r
            elif isinstance(st, (ast.For, ast.While, ast.Try, ast.With)):
                raise TranslateError(f"{DECO}: _handle_timeout: unexpected control structure {type(st).__name__}")
            elif any(is_close(n) for n in ast.walk(st)):
                return " and ".join(guard) if guard else "always"
        return None

    g = find(ht.body, [])
    if g is None:
        raise TranslateError(f"{DECO}: _handle_timeout never closes the transport")
    return g


def analyse():
    """-> dict(rows=[(file, method, call, line, inside)], operations=[(file, method)], lock_ctx=[(file, ok)],
               lock_types=[(file, ctor, guarded)], default=bool, unlocked_public=[(file, method)])"""
    base_tree = _parse(BASE[0])
    base_methods = _methods(_class(base_tree, BASE[1], BASE[0]))
    rows, ops, ctx, types, secs = [], [], [], [], []
    _assert_transport_uses(_class(base_tree, BASE[1], BASE[0]), BASE[0])
    for rel, cname in FILES:
        tree = _parse(rel)
        cls = _class(tree, cname, rel)
        _assert_transport_uses(cls, rel)
        own = _methods(cls)
        allm = dict(base_methods)
        allm.update(own)
        reach = _reaching(allm)
        for p in PRIMITIVES:
            if p not in reach:
                raise TranslateError(f"{rel}: primitive {p} does not reach the transport any more")
        for name in allm:
            if name.startswith("_") or name in PRIMITIVES or name not in reach:
                continue
            r = _rows(name, allm, reach)
            ops.append((rel, name))
            sec = _sections(name, allm)
            secs.append((rel, name, len(sec), any(sec)))
            for callee, line, inside in r:
                rows.append((rel, name, callee, line, inside))
        lk = own.get("_channel_lock")
        if lk is None:
            raise TranslateError(f"{rel}: _channel_lock not found")
        ctx.append((rel, _lock_context_ok(lk, isinstance(lk, ast.AsyncFunctionDef))))
        ctor, guarded = _lock_type(tree, cls, rel)
        types.append((rel, ctor, guarded))
    if not rows:
        raise TranslateError("no transport-reaching call found in any channel operation")
    inside, closes, joins = pool_timeout_order()
    return dict(rows=rows, operations=ops, lock_ctx=ctx, lock_types=types, default=_default_flag(), pool_inside=inside, pool_closes=closes,
                close_guard=close_guard(), sections=secs, pool_joins=joins)


def _s(x):
    return '"' + x.replace("\\", "\\\\").replace('"', '\\"') + '"'


def _b(x):
    return "true" if x else "false"


def generate():
    a = analyse()
    body = HEADER.format(src="the AST of scrapli/channel/{sync,async,base}_channel.py and scrapli/decorators.py (tools/gen/c19.py)")
    body += "namespace Scrapli.Gen.LockCoverage\n\n"
    body += ("/-- one call that reaches the transport, made by a public channel operation;\n"
             "    `inside` = lexically inside `with / async with self._channel_lock():` (or made by a private helper all of\n"
             "    whose transport-reaching calls are) -/\n"
             "structure Row where\n  file : String\n  method : String\n  call : String\n  line : Nat\n  inside : Bool\nderiving Repr, DecidableEq\n\n")
    body += "def table : List Row := [\n"
    body += ",\n".join(f"  ⟨{_s(f)}, {_s(m)}, {_s(c)}, {ln}, {_b(i)}⟩" for f, m, c, ln, i in a["rows"])
    body += "]\n\n"
    body += "/-- public methods of the channel classes (own and inherited) from which the transport is reachable,\n    other than the primitives -/\n"
    body += "def operations : List (String × String) := [\n"
    body += ",\n".join(f"  ({_s(f)}, {_s(m)})" for f, m in a["operations"]) + "]\n\n"
    body += ("/-- per operation: how many `with self._channel_lock()` statements it executes (own and through private helpers)\n"
             "    and whether any of them sits under a for/while: one operation must be ONE critical section -/\n")
    body += "def lockSections : List (String × String × Nat × Bool) := [\n"
    body += ",\n".join(f"  ({_s(f)}, {_s(m)}, {n}, {_b(l)})" for f, m, n, l in a["sections"]) + "]\n\n"
    body += "/-- the primitives (the transport calls themselves; they run while the operation holds the lock) -/\n"
    body += "def primitives : List String := [" + ", ".join(_s(p) for p in PRIMITIVES) + "]\n\n"
    body += ("/-- `_channel_lock` is a (async)contextmanager that takes `self.channel_lock` by a (async) with-statement around\n"
             "    its `yield` and never calls acquire()/release() by hand -/\n")
    body += "def lockContext : List (String × Bool) := [" + ", ".join(f"({_s(f)}, {_b(ok)})" for f, ok in a["lock_ctx"]) + "]\n\n"
    body += "/-- constructor assigned to `self.channel_lock`, and whether the assignment is guarded by `_base_channel_args.channel_lock` -/\n"
    body += "def lockTypes : List (String × String × Bool) := [" + ", ".join(f"({_s(f)}, {_s(c)}, {_b(g)})" for f, c, g in a["lock_types"]) + "]\n\n"
    body += f"/-- BaseChannelArgs.channel_lock default -/\ndef channelLockDefault : Bool := {_b(a['default'])}\n\n"
    body += ("/-- scrapli/decorators.py `_multiprocessing_timeout`: every `_handle_timeout(...)` call is lexically inside the\n"
             "    `with ThreadPoolExecutor(...)` block, i.e. the transport is closed BEFORE the worker is joined -/\n"
             f"def handleTimeoutInsidePoolBlock : Bool := {_b(a['pool_inside'])}\n\n"
             "/-- `_handle_timeout` calls `transport.close()` before it raises ScrapliTimeout -/\n"
             f"def handleTimeoutClosesBeforeRaise : Bool := {_b(a['pool_closes'])}\n\n")
    body += ("/-- leaving the thread pool of `_multiprocessing_timeout` JOINS the worker (with-statement, or shutdown(wait=True)):\n"
             "    ScrapliTimeout cannot reach the caller while the worker is still inside the channel lock context -/\n"
             f"def poolJoinsWorker : Bool := {_b(a['pool_joins'])}\n\n")
    body += ("/-- the condition under which `_handle_timeout` calls transport.close() (source text of the guarding tests) -/\n"
             f"def handleTimeoutCloseGuard : String := {_s(a['close_guard'])}\n\n")
    body += "end Scrapli.Gen.LockCoverage\n"
    return [("ScrapliModel/Gen/LockCoverage.lean", body)]


if __name__ == "__main__":
    for rel, content in generate():
        print(content)
