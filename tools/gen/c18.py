"""translator piece for C18: everything that is *data* in the factory and the platform drivers'
constructors, taken from the AST of /repo's working tree (nothing is imported):

  scrapli/transport/__init__.py     CORE_TRANSPORTS, ASYNCIO_TRANSPORTS
  scrapli/factory.py                _build_provided_kwargs_dict: signature, the dict literal, the filter condition,
                                    the final merge; Scrapli/AsyncScrapli: CORE_PLATFORM_MAP, DRIVER_MAP, __new__
                                    signature with defaults, the keyword table of the call to
                                    _build_provided_kwargs_dict, the merge `{**additional_kwargs, **provided_kwargs}`,
                                    the call `final_driver(**final_kwargs)`; how _get_community_platform_details copies
  scrapli/driver/**                 __init__ signature, super().__init__ keyword table, copy mode of PRIVS /
                                    FAILED_WHEN_CONTAINS for the 5x2 platform drivers; signatures of
                                    (Async)NetworkDriver / (Async)GenericDriver; NetworkDriver's attribute stores
  scrapli/driver/core/*/base_driver.py   PRIVS, FAILED_WHEN_CONTAINS, the PrivilegeLevel built by
                                    _create_configuration_session (EOS, NXOS) as a template over session_name
"""
import ast
from translate import HEADER, REPO, TranslateError, _module_consts, _parse

OUT = "ScrapliModel/Gen/FactoryTables.lean"
FACTORY = "scrapli/factory.py"


# ---------- Lean rendering
def lstr(s):
    if not isinstance(s, str):
        raise TranslateError(f"expected str, got {s!r}")
    out = ['"']
    for ch in s:
        o = ord(ch)
        if ch == "\\":
            out.append("\\\\")
        elif ch == '"':
            out.append('\\"')
        elif ch == "\n":
            out.append("\\n")
        elif ch == "\t":
            out.append("\\t")
        elif ch == "\r":
            out.append("\\r")
        elif o < 32 or o == 127:
            out.append("\\x%02x" % o)
        else:
            out.append(ch)
    out.append('"')
    return "".join(out)


def lbool(b):
    return "true" if b else "false"


def llist(items, per_line=False):
    if not items:
        return "[]"
    if per_line:
        return "[\n    " + ",\n    ".join(items) + "]"
    return "[" + ", ".join(items) + "]"


def lstrs(l):
    return llist([lstr(x) for x in l])


def lpairs(l, per_line=False):
    return llist([f"({lstr(a)}, {lstr(b)})" for a, b in l], per_line)


def lval(node, where):
    """a default value expression -> Lean `PyVal`"""
    if isinstance(node, ast.Constant):
        v = node.value
        if v is None:
            return "none"
        if isinstance(v, bool):
            return f"some (.bool {lbool(v)})"
        if isinstance(v, int):
            return f"some (.int {v})" if v >= 0 else f"some (.int ({v}))"
        if isinstance(v, float):
            return f"some (.flt {lstr(repr(v))})"
        if isinstance(v, str):
            return f"some (.str {lstr(v)})"
    if isinstance(node, ast.Name):
        return f"some (.fn {lstr(node.id)})"
    raise TranslateError(f"{where}: cannot translate default {ast.dump(node)}")


def lsig(fn, where, drop_first=True):
    a = fn.args
    if a.posonlyargs or a.vararg or a.kwonlyargs:
        raise TranslateError(f"{where}: positional-only / *args / keyword-only parameters are not handled")
    args = a.args[1:] if drop_first else a.args
    defaults = [None] * (len(a.args) - len(a.defaults)) + list(a.defaults)
    defaults = defaults[1:] if drop_first else defaults
    ps = []
    for arg, d in zip(args, defaults):
        ps.append(f"⟨{lstr(arg.arg)}, {'none' if d is None else 'some (' + lval(d, where + '.' + arg.arg) + ')'}⟩")
    return f"⟨{llist(ps, per_line=True)}, {lbool(a.kwarg is not None)}⟩", [x.arg for x in args], (a.kwarg.arg if a.kwarg else None)


# ---------- AST helpers
def _func(tree, name, where):
    for n in tree.body:
        if isinstance(n, (ast.FunctionDef, ast.AsyncFunctionDef)) and n.name == name:
            return n
    raise TranslateError(f"{where}: function {name} not found")


def _class(tree, name, where):
    for n in tree.body:
        if isinstance(n, ast.ClassDef) and n.name == name:
            return n
    raise TranslateError(f"{where}: class {name} not found")


def _method(cls, name, where):
    for n in cls.body:
        if isinstance(n, (ast.FunctionDef, ast.AsyncFunctionDef)) and n.name == name:
            return n
    raise TranslateError(f"{where}: method {cls.name}.{name} not found")


def _class_dict(cls, attr, where):
    for n in cls.body:
        if isinstance(n, ast.Assign) and len(n.targets) == 1 and isinstance(n.targets[0], ast.Name) and n.targets[0].id == attr:
            if not isinstance(n.value, ast.Dict):
                break
            out = []
            for k, v in zip(n.value.keys, n.value.values):
                if not (isinstance(k, ast.Constant) and isinstance(k.value, str) and isinstance(v, ast.Name)):
                    raise TranslateError(f"{where}: {cls.name}.{attr} entry is not 'str': ClassName")
                out.append((k.value, v.id))
            return out
    raise TranslateError(f"{where}: {cls.name}.{attr} is not a dict literal")


def _kw_table(call, where):
    """keyword table of a call: [(keyword, variable)], name of the **-forwarded variable (or None)"""
    if call.args:
        raise TranslateError(f"{where}: positional arguments in call")
    tab, star = [], None
    for kw in call.keywords:
        if not isinstance(kw.value, ast.Name):
            raise TranslateError(f"{where}: keyword {kw.arg} is not passed a plain variable")
        if kw.arg is None:
            if star is not None:
                raise TranslateError(f"{where}: two ** arguments")
            star = kw.value.id
        else:
            tab.append((kw.arg, kw.value.id))
    return tab, star


def _find_call(fn, pred, where, what):
    hits = [n for n in ast.walk(fn) if isinstance(n, ast.Call) and pred(n.func)]
    if len(hits) != 1:
        raise TranslateError(f"{where}: expected exactly one call to {what}, found {len(hits)}")
    return hits[0]


def _assign_to(fn, name):
    """all `name = expr` / `name: T = expr` statements inside fn, in source order"""
    out = []
    for n in ast.walk(fn):
        if isinstance(n, ast.Assign) and len(n.targets) == 1 and isinstance(n.targets[0], ast.Name) and n.targets[0].id == name:
            out.append(n)
        elif isinstance(n, ast.AnnAssign) and isinstance(n.target, ast.Name) and n.target.id == name and n.value is not None:
            out.append(n)
    return sorted(out, key=lambda n: n.lineno)


def _star_merge(node):
    """`{**a, **b}` -> ['a', 'b'] or None"""
    if isinstance(node, ast.Dict) and node.keys and all(k is None for k in node.keys) and all(isinstance(v, ast.Name) for v in node.values):
        return [v.id for v in node.values]
    return None


def _copy_mode(expr, target, where):
    """how `expr` is obtained from the module-level name `target`"""
    def is_t(n):
        return isinstance(n, ast.Name) and n.id == target
    if is_t(expr):
        return "alias"
    if isinstance(expr, ast.Call) and len(expr.args) == 1 and not expr.keywords and is_t(expr.args[0]):
        f = expr.func
        fname = f.id if isinstance(f, ast.Name) else (f.attr if isinstance(f, ast.Attribute) else None)
        if fname == "deepcopy":
            return "deep"
        if fname in ("copy", "dict", "list"):
            return "shallow"
    if isinstance(expr, ast.Call) and not expr.args and not expr.keywords and isinstance(expr.func, ast.Attribute) \
            and expr.func.attr == "copy" and is_t(expr.func.value):
        return "shallow"
    if isinstance(expr, ast.Subscript) and is_t(expr.value) and isinstance(expr.slice, ast.Slice) \
            and expr.slice.lower is None and expr.slice.upper is None and expr.slice.step is None:
        return "shallow"
    if isinstance(expr, ast.Dict) and expr.keys == [None] and is_t(expr.values[0]):
        return "shallow"
    if isinstance(expr, ast.List) and len(expr.elts) == 1 and isinstance(expr.elts[0], ast.Starred) and is_t(expr.elts[0].value):
        return "shallow"
    raise TranslateError(f"{where}: cannot classify how {target} is copied: {ast.unparse(expr)}")


def _none_default_copy(init, param, target, where):
    """the `if <param> is None: <param> = <expr over target>` statement of a platform driver __init__"""
    hits = []
    for n in ast.walk(init):
        if isinstance(n, ast.If) and isinstance(n.test, ast.Compare) and isinstance(n.test.left, ast.Name) and n.test.left.id == param \
                and len(n.test.ops) == 1 and isinstance(n.test.ops[0], ast.Is) and isinstance(n.test.comparators[0], ast.Constant) \
                and n.test.comparators[0].value is None:
            hits.append(n)
    if len(hits) != 1 or len(hits[0].body) != 1 or hits[0].orelse:
        raise TranslateError(f"{where}: expected exactly one `if {param} is None:` with a single assignment")
    st = hits[0].body[0]
    if not (isinstance(st, ast.Assign) and len(st.targets) == 1 and isinstance(st.targets[0], ast.Name) and st.targets[0].id == param):
        raise TranslateError(f"{where}: `if {param} is None:` does not assign {param}")
    # nothing else in __init__ may rebind the parameter or mention the module-level table: any other path from the
    # definition to the connection would make the copy mode read above meaningless
    for n in ast.walk(init):
        binds = []
        if isinstance(n, ast.Assign):
            binds = [x for t in n.targets for x in ast.walk(t)]
        elif isinstance(n, (ast.AugAssign, ast.AnnAssign)):
            binds = list(ast.walk(n.target))
        elif isinstance(n, ast.NamedExpr):
            binds = [n.target]
        elif isinstance(n, (ast.For, ast.AsyncFor)):
            binds = list(ast.walk(n.target))
        elif isinstance(n, (ast.With, ast.AsyncWith)):
            binds = [x for it in n.items if it.optional_vars is not None for x in ast.walk(it.optional_vars)]
        elif isinstance(n, (ast.Delete,)):
            binds = [x for t in n.targets for x in ast.walk(t)]
        if n is not st and any(isinstance(x, ast.Name) and x.id == param for x in binds):
            raise TranslateError(f"{where}: {param} is rebound outside `if {param} is None:` (line {n.lineno})")
    uses = [n for n in ast.walk(init) if isinstance(n, ast.Name) and n.id == target]
    inside = [n for n in ast.walk(st.value) if isinstance(n, ast.Name) and n.id == target]
    if len(uses) != len(inside):
        raise TranslateError(f"{where}: {target} is used outside the `if {param} is None:` assignment")
    return _copy_mode(st.value, target, where)


# ---------- platform tables (PRIVS, FAILED_WHEN_CONTAINS, session template)
class _PL:
    def __init__(self, pattern, name, previous_priv, deescalate, escalate, escalate_auth, escalate_prompt, not_contains=None):
        self.f = (pattern, name, previous_priv, deescalate, escalate, escalate_auth, escalate_prompt, list(not_contains or []))


def llevel(pl):
    p, n, pp, de, es, ea, ep, nc = pl.f
    if not isinstance(ea, bool):
        raise TranslateError(f"escalate_auth of level {n!r} is not a bool")
    return f"⟨{lstr(p)}, {lstr(n)}, {lstr(pp)}, {lstr(de)}, {lstr(es)}, {lbool(ea)}, {lstr(ep)}, {lstrs(nc)}⟩"


def _platform_tables(rel):
    privs = fwc = None
    for node in _parse(rel).body:
        tgt = None
        if isinstance(node, ast.Assign) and len(node.targets) == 1 and isinstance(node.targets[0], ast.Name):
            tgt, val = node.targets[0].id, node.value
        elif isinstance(node, ast.AnnAssign) and isinstance(node.target, ast.Name) and node.value is not None:
            tgt, val = node.target.id, node.value
        if tgt in ("PRIVS", "FAILED_WHEN_CONTAINS"):
            try:
                v = eval(compile(ast.Expression(val), rel, "eval"), {"PrivilegeLevel": _PL, "__builtins__": {}})
            except Exception as e:
                raise TranslateError(f"{rel}: cannot evaluate {tgt}: {e!r}")
            if tgt == "PRIVS":
                privs = v
            else:
                fwc = v
    if not isinstance(privs, dict) or not all(isinstance(k, str) and isinstance(v, _PL) for k, v in privs.items()):
        raise TranslateError(f"{rel}: PRIVS is not a dict of str -> PrivilegeLevel")
    if not isinstance(fwc, list) or not all(isinstance(x, str) for x in fwc):
        raise TranslateError(f"{rel}: FAILED_WHEN_CONTAINS is not a list of str")
    if len({id(v) for v in privs.values()}) != len(privs):
        raise TranslateError(f"{rel}: PRIVS refers to one PrivilegeLevel object under two names (the heap model assumes a tree)")
    return privs, fwc


def _parts(expr, env, where, depth=0):
    """symbolic value of a str expression over `session_name`"""
    if depth > 8:
        raise TranslateError(f"{where}: cyclic definition")
    if isinstance(expr, ast.Constant) and isinstance(expr.value, str):
        return [("lit", expr.value)] if expr.value else []
    if isinstance(expr, ast.Name):
        if expr.id == "session_name":
            return [("name",)]
        if expr.id in env:
            return _parts(env[expr.id], env, where, depth + 1)
    if isinstance(expr, ast.JoinedStr):
        out = []
        for v in expr.values:
            if isinstance(v, ast.FormattedValue):
                if v.conversion != -1 or v.format_spec is not None:
                    raise TranslateError(f"{where}: conversion / format spec in f-string")
                out += _parts(v.value, env, where, depth + 1)
            else:
                out += _parts(v, env, where, depth + 1)
        return out
    if isinstance(expr, ast.Call) and isinstance(expr.func, ast.Attribute) and expr.func.attr == "escape" \
            and isinstance(expr.func.value, ast.Name) and expr.func.value.id == "re" and len(expr.args) == 1 and not expr.keywords:
        a = expr.args[0]
        if isinstance(a, ast.Subscript) and isinstance(a.value, ast.Name) and a.value.id == "session_name" and isinstance(a.slice, ast.Slice) \
                and a.slice.lower is None and a.slice.step is None and isinstance(a.slice.upper, ast.Constant) \
                and isinstance(a.slice.upper.value, int) and a.slice.upper.value >= 0:
            return [("esc", a.slice.upper.value)]
    raise TranslateError(f"{where}: cannot translate string expression {ast.unparse(expr)}")


def lparts(ps):
    r = []
    for p in ps:
        if p[0] == "lit":
            r.append(f".lit {lstr(p[1])}")
        elif p[0] == "name":
            r.append(".name")
        else:
            r.append(f".esc {p[1]}")
    return llist(r)


def _session_template(rel, mixin):
    """`_create_configuration_session` of class `mixin` in rel -> Lean LevelTemplate (or None if the class has none)"""
    tree = _parse(rel)
    try:
        cls = _class(tree, mixin, rel)
        fn = _method(cls, "_create_configuration_session", rel)
    except TranslateError:
        return None
    where = f"{rel}:{mixin}._create_configuration_session"
    env = {}
    for n in ast.walk(fn):
        if isinstance(n, ast.Assign) and len(n.targets) == 1 and isinstance(n.targets[0], ast.Name):
            env[n.targets[0].id] = n.value
    call = _find_call(fn, lambda f: isinstance(f, ast.Name) and f.id == "PrivilegeLevel", where, "PrivilegeLevel")
    if call.args:
        raise TranslateError(f"{where}: positional arguments to PrivilegeLevel")
    kws = {k.arg: k.value for k in call.keywords}
    want = ["pattern", "name", "previous_priv", "deescalate", "escalate", "escalate_auth", "escalate_prompt"]
    if sorted(k for k in kws if k != "not_contains") != sorted(want):
        raise TranslateError(f"{where}: unexpected PrivilegeLevel keywords {sorted(kws)}")
    ea = kws["escalate_auth"]
    if not (isinstance(ea, ast.Constant) and isinstance(ea.value, bool)):
        raise TranslateError(f"{where}: escalate_auth is not a literal bool")
    nc = []
    if "not_contains" in kws:
        try:
            nc = ast.literal_eval(kws["not_contains"]) or []
        except Exception:
            raise TranslateError(f"{where}: not_contains is not a literal")
    # the store must be `self.privilege_levels[name] = <the new level>` preceded by the duplicate-name guard
    stores = [n for n in ast.walk(fn) if isinstance(n, ast.Assign) and isinstance(n.targets[0], ast.Subscript)
              and ast.unparse(n.targets[0].value) == "self.privilege_levels"]
    if len(stores) != 1 or _parts(stores[0].targets[0].slice, env, where) != [("name",)]:
        raise TranslateError(f"{where}: the new level is not stored as self.privilege_levels[session_name]")
    others = [ast.unparse(t) for n in ast.walk(fn) if isinstance(n, (ast.Assign, ast.AugAssign, ast.AnnAssign))
              for t in (n.targets if isinstance(n, ast.Assign) else [n.target])
              if not isinstance(t, ast.Name) and n is not stores[0]]
    if others:
        raise TranslateError(f"{where}: stores to something else than local names and self.privilege_levels[session_name]: {others}")
    guards = [n for n in fn.body if isinstance(n, ast.If) and any(isinstance(x, ast.Raise) for x in n.body)]
    if len(guards) != 1 or ast.unparse(guards[0].test) not in ("session_name in self.privilege_levels.keys()", "session_name in self.privilege_levels"):
        raise TranslateError(f"{where}: duplicate-name guard not recognised")
    f = {k: _parts(kws[k], env, where) for k in want if k != "escalate_auth"}
    return (f"⟨{lparts(f['pattern'])}, {lparts(f['name'])}, {lparts(f['previous_priv'])}, {lparts(f['deescalate'])}, "
            f"{lparts(f['escalate'])}, {lbool(ea.value)}, {lparts(f['escalate_prompt'])}, {lstrs(nc)}⟩")


# ---------- drivers
def _find_driver_class(name):
    for p in sorted((REPO / "scrapli" / "driver").rglob("*.py")):
        rel = str(p.relative_to(REPO))
        for n in _parse(rel).body:
            if isinstance(n, ast.ClassDef) and n.name == name:
                return rel, n
    raise TranslateError(f"driver class {name} not found under scrapli/driver")


def _super_init_call(init, where):
    def pred(f):
        return (isinstance(f, ast.Attribute) and f.attr == "__init__" and isinstance(f.value, ast.Call)
                and isinstance(f.value.func, ast.Name) and f.value.func.id == "super")
    call = _find_call(init, pred, where, "super().__init__")
    tab, star = _kw_table(call, where)
    if star is not None:
        raise TranslateError(f"{where}: super().__init__ forwards **{star}")
    return tab


def _platform_driver(name):
    rel, cls = _find_driver_class(name)
    where = f"{rel}:{name}.__init__"
    init = _method(cls, "__init__", where)
    sig, names, kwarg = lsig(init, where)
    sup = _super_init_call(init, where)
    # which base_driver module do PRIVS / FAILED_WHEN_CONTAINS come from
    src = None
    for n in _parse(rel).body:
        if isinstance(n, ast.ImportFrom) and n.module and n.module.startswith("scrapli.driver.core.") and n.module.endswith(".base_driver"):
            imported = {a.name for a in n.names}
            if {"PRIVS", "FAILED_WHEN_CONTAINS"} <= imported:
                src = n.module
                mixins = [a.name for a in n.names if a.name not in ("PRIVS", "FAILED_WHEN_CONTAINS")]
    if src is None:
        raise TranslateError(f"{rel}: PRIVS / FAILED_WHEN_CONTAINS are not imported from a core base_driver module")
    platform = src.split(".")[3]
    pc = _none_default_copy(init, "privilege_levels", "PRIVS", where)
    fc = _none_default_copy(init, "failed_when_contains", "FAILED_WHEN_CONTAINS", where)
    base_rel = src.replace(".", "/") + ".py"
    sess = None
    bases = [b.id for b in cls.bases if isinstance(b, ast.Name)]
    for m in mixins:
        if m in bases:
            sess = _session_template(base_rel, m) or sess
    has_register = any(isinstance(n, ast.FunctionDef) and n.name == "register_configuration_session" for n in cls.body)
    if has_register:
        reg = _method(cls, "register_configuration_session", rel)
        body = [ast.unparse(s) for s in reg.body if not (isinstance(s, ast.Expr) and isinstance(s.value, ast.Constant))]
        if body != ["self._create_configuration_session(session_name=session_name)", "self.update_privilege_levels()"]:
            raise TranslateError(f"{rel}: {name}.register_configuration_session has an unexpected body {body}")
        if sess is None:
            raise TranslateError(f"{rel}: {name}.register_configuration_session without a translatable _create_configuration_session")
    else:
        sess = None
    lean = (f"  {{ cls := {lstr(name)}, platform := {lstr(platform)},\n    sig := {sig},\n    superCall := {lpairs(sup, per_line=True)},\n"
            f"    privsCopy := .{pc}, fwcCopy := .{fc},\n    session := {'none' if sess is None else 'some ' + sess} }}")
    return lean, platform, base_rel


def _plain_driver(name):
    rel, cls = _find_driver_class(name)
    where = f"{rel}:{name}.__init__"
    init = _method(cls, "__init__", where)
    sig, names, kwarg = lsig(init, where)
    sup = _super_init_call(init, where)
    stores = []
    for n in ast.walk(init):
        if isinstance(n, ast.Assign) and len(n.targets) == 1 and isinstance(n.targets[0], ast.Attribute) \
                and isinstance(n.targets[0].value, ast.Name) and n.targets[0].value.id == "self":
            stores.append((n.targets[0].attr, ast.unparse(n.value)))
    return sig, sup, stores


# ---------- the factory
def _target_names(stmt):
    t = stmt.targets[0] if isinstance(stmt, ast.Assign) else stmt.target
    if isinstance(t, ast.Name):
        return [t.id]
    if isinstance(t, ast.Tuple) and all(isinstance(e, ast.Name) for e in t.elts):
        return [e.id for e in t.elts]
    return []


def _assigned_from(fn, call):
    """names bound by the statement whose value is exactly `call`"""
    for n in ast.walk(fn):
        if isinstance(n, (ast.Assign, ast.AnnAssign)) and n.value is call:
            return _target_names(n)
    return []


def _new_info(tree, cls_name):
    cls = _class(tree, cls_name, FACTORY)
    where = f"{FACTORY}:{cls_name}.__new__"
    new = _method(cls, "__new__", where)
    sig, names, kwarg = lsig(new, where)
    call = _find_call(new, lambda f: isinstance(f, ast.Name) and f.id == "_build_provided_kwargs_dict", where, "_build_provided_kwargs_dict")
    tab, star = _kw_table(call, where)
    fwd = star is not None and star == kwarg
    # <provided> = _build_provided_kwargs_dict(...)
    pk = _assigned_from(new, call)
    if len(pk) != 1:
        raise TranslateError(f"{where}: the result of _build_provided_kwargs_dict is not bound to one name")
    provided = pk[0]
    # (<driver>, <additional>) = cls._get_driver(platform=platform, variant=variant)
    gcall = _find_call(new, lambda f: isinstance(f, ast.Attribute) and f.attr == "_get_driver", where, "cls._get_driver")
    gtab, gstar = _kw_table(gcall, where)
    if sorted(gtab) != [("platform", "platform"), ("variant", "variant")] or gstar:
        raise TranslateError(f"{where}: unexpected arguments to _get_driver")
    da = _assigned_from(new, gcall)
    if len(da) != 2:
        raise TranslateError(f"{where}: the result of _get_driver is not unpacked into (driver, kwargs)")
    driver, additional = da
    # the driver call <driver>(**<final>)
    dcall = _find_call(new, lambda f: isinstance(f, ast.Name) and f.id == driver, where, driver)
    dtab, final = _kw_table(dcall, where)
    if dtab or final is None:
        raise TranslateError(f"{where}: the driver is not called as {driver}(**kwargs)")
    # <final>: `if <additional>: {**a, **b} else <provided>`
    fk = _assign_to(new, final)
    merges = [m for m in (_star_merge(a.value) for a in fk) if m]
    plain = [a.value.id for a in fk if isinstance(a.value, ast.Name)]
    if len(fk) != 2 or len(merges) != 1 or plain != [provided] or sorted(merges[0]) != sorted([additional, provided]):
        raise TranslateError(f"{where}: {final} is not built the expected way")
    ifs = [n for n in ast.walk(new) if isinstance(n, ast.If) and any(a in ast.walk(n) for a in fk)]
    if len(ifs) != 1 or ast.unparse(ifs[0].test) != additional:
        raise TranslateError(f"{where}: the merge is not guarded by `if {additional}:`")
    merge_stmt = next(a for a in fk if _star_merge(a.value))
    if merge_stmt not in ifs[0].body:
        raise TranslateError(f"{where}: the merge is not in the true branch of `if {additional}:`")
    canon = {additional: "additional_kwargs", provided: "provided_kwargs"}
    return {"sig": sig, "names": names, "call": tab, "fwd": fwd, "merge": [canon[m] for m in merges[0]],
            "coremap": _class_dict(cls, "CORE_PLATFORM_MAP", FACTORY), "drivermap": _class_dict(cls, "DRIVER_MAP", FACTORY)}


def _bpk_info(tree):
    where = f"{FACTORY}:_build_provided_kwargs_dict"
    fn = _func(tree, "_build_provided_kwargs_dict", where)
    sig, names, kwarg = lsig(fn, where, drop_first=False)
    lits = [n for n in ast.walk(fn) if isinstance(n, (ast.Assign, ast.AnnAssign)) and isinstance(n.value, ast.Dict) and n.value.keys
            and all(isinstance(k, ast.Constant) and isinstance(k.value, str) for k in n.value.keys)]
    if len(lits) != 1 or len(_target_names(lits[0])) != 1:
        raise TranslateError(f"{where}: expected exactly one dict literal with str keys bound to a name")
    var = _target_names(lits[0])[0]
    assigns = _assign_to(fn, var)
    if len(assigns) != 2 or assigns[0] is not lits[0] or not isinstance(assigns[1].value, ast.DictComp):
        raise TranslateError(f"{where}: expected `{var} = {{...}}` followed by `{var} = {{... for ... in {var}.items() if ...}}`")
    d = assigns[0].value
    tab = []
    for k, v in zip(d.keys, d.values):
        if not isinstance(v, ast.Name):
            raise TranslateError(f"{where}: dict literal entry {k.value!r} is not bound to a plain variable")
        tab.append((k.value, v.id))
    comp = assigns[1].value
    g = comp.generators
    ok = (len(g) == 1 and not g[0].is_async and ast.unparse(g[0].iter) == f"{var}.items()" and isinstance(g[0].target, ast.Tuple)
          and len(g[0].target.elts) == 2 and all(isinstance(e, ast.Name) for e in g[0].target.elts))
    if not ok:
        raise TranslateError(f"{where}: comprehension does not iterate {var}.items()")
    kn, vn = (e.id for e in g[0].target.elts)
    if not (isinstance(comp.key, ast.Name) and comp.key.id == kn and isinstance(comp.value, ast.Name) and comp.value.id == vn):
        raise TranslateError(f"{where}: comprehension does not keep key and value unchanged")
    if len(g[0].ifs) != 1:
        raise TranslateError(f"{where}: comprehension must have exactly one condition")
    cond = g[0].ifs[0]
    if isinstance(cond, ast.Name) and cond.id == vn:
        filt = "truthy"
    elif isinstance(cond, ast.Compare) and isinstance(cond.left, ast.Name) and cond.left.id == vn and len(cond.ops) == 1 \
            and isinstance(cond.ops[0], ast.IsNot) and isinstance(cond.comparators[0], ast.Constant) and cond.comparators[0].value is None:
        filt = "isNotNone"
    else:
        raise TranslateError(f"{where}: filter condition not recognised: {ast.unparse(cond)}")
    rets = [n for n in ast.walk(fn) if isinstance(n, ast.Return)]
    if len(rets) != 1:
        raise TranslateError(f"{where}: expected one return")
    merge = _star_merge(rets[0].value)
    if merge is None:
        if isinstance(rets[0].value, ast.Name) and rets[0].value.id == var:
            merge = [var]
        else:
            raise TranslateError(f"{where}: return value not recognised")
    canon = {var: "_provided_args", kwarg: "kwargs"}
    if any(m not in canon for m in merge):
        raise TranslateError(f"{where}: return merges an unknown name: {merge}")
    return {"sig": sig, "names": names, "dict": tab, "filter": filt, "merge": [canon[m] for m in merge]}


def _community_copy(tree):
    where = f"{FACTORY}:_get_community_platform_details"
    fn = _func(tree, "_get_community_platform_details", where)
    rets = [n for n in ast.walk(fn) if isinstance(n, ast.Return)]
    if len(rets) != 1 or not isinstance(rets[0].value, ast.Name):
        raise TranslateError(f"{where}: expected a single `return <name>`")
    orig = None
    for n in ast.walk(fn):
        if isinstance(n, (ast.Assign, ast.AnnAssign)) and isinstance(n.value, ast.Call) and isinstance(n.value.func, ast.Name) \
                and n.value.func.id == "getattr" and len(n.value.args) >= 2 and isinstance(n.value.args[1], ast.Constant) \
                and n.value.args[1].value == "SCRAPLI_PLATFORM":
            t = n.targets[0] if isinstance(n, ast.Assign) else n.target
            orig = t.id
    if orig is None:
        raise TranslateError(f"{where}: SCRAPLI_PLATFORM is not read with getattr")
    if rets[0].value.id == orig:
        return "alias"
    a = _assign_to(fn, rets[0].value.id)
    if len(a) != 1:
        raise TranslateError(f"{where}: returned name assigned {len(a)} times")
    return _copy_mode(a[0].value, orig, where)


def _dummy_level_facts():
    """(class attribute `_current_priv_level = DUMMY_PRIV_LEVEL` exists, scrapli writes through that object somewhere)"""
    rel = "scrapli/driver/network/base_driver.py"
    tree = _parse(rel)
    cls = _class(tree, "BaseNetworkDriver", rel)
    shared = any(isinstance(n, ast.Assign) and len(n.targets) == 1 and isinstance(n.targets[0], ast.Name)
                 and n.targets[0].id == "_current_priv_level" and isinstance(n.value, ast.Name) and n.value.id == "DUMMY_PRIV_LEVEL"
                 for n in cls.body)
    dummy = [n for n in tree.body if isinstance(n, ast.Assign) and len(n.targets) == 1 and isinstance(n.targets[0], ast.Name)
             and n.targets[0].id == "DUMMY_PRIV_LEVEL"]
    if len(dummy) != 1:
        raise TranslateError(f"{rel}: DUMMY_PRIV_LEVEL is not assigned exactly once at module level")
    written = []

    def through(e):
        """is `e` the dummy / a connection's current level (or its not_contains)"""
        t = ast.unparse(e)
        return t == "DUMMY_PRIV_LEVEL" or t.endswith("._current_priv_level") or t.endswith("_current_priv_level.not_contains") \
            or t == "DUMMY_PRIV_LEVEL.not_contains"
    for p in sorted((REPO / "scrapli").rglob("*.py")):
        r = str(p.relative_to(REPO))
        for n in ast.walk(_parse(r)):
            tg = []
            if isinstance(n, ast.Assign):
                tg = n.targets
            elif isinstance(n, (ast.AugAssign, ast.AnnAssign)):
                tg = [n.target]
            elif isinstance(n, ast.Delete):
                tg = n.targets
            for t in tg:
                if isinstance(t, (ast.Attribute, ast.Subscript)) and through(t.value):
                    written.append(f"{r}:{n.lineno}")
            if isinstance(n, ast.Call) and isinstance(n.func, ast.Attribute) and through(n.func.value) \
                    and n.func.attr in ("append", "extend", "insert", "remove", "pop", "clear", "sort", "reverse", "__setattr__"):
                written.append(f"{r}:{n.lineno}")
    return shared, written


def generate():
    tr = _module_consts("scrapli/transport/__init__.py")
    core, aio = tr.get("CORE_TRANSPORTS"), tr.get("ASYNCIO_TRANSPORTS")
    for nm, v in (("CORE_TRANSPORTS", core), ("ASYNCIO_TRANSPORTS", aio)):
        if not isinstance(v, (tuple, list)) or not all(isinstance(x, str) for x in v):
            raise TranslateError(f"scrapli/transport/__init__.py: {nm} is not a tuple of str")
    tree = _parse(FACTORY)
    bpk = _bpk_info(tree)
    s, a = _new_info(tree, "Scrapli"), _new_info(tree, "AsyncScrapli")
    ccopy = _community_copy(tree)

    b = HEADER.format(src="scrapli/factory.py, scrapli/transport/__init__.py, scrapli/driver/** (tools/gen/c18.py)")
    b += "import ScrapliModel.FactoryTypes\nnamespace Scrapli.Gen.Factory\nopen Scrapli.Factory\n\n"
    b += f"def CORE_TRANSPORTS : List String := {lstrs(list(core))}\n"
    b += f"def ASYNCIO_TRANSPORTS : List String := {lstrs(list(aio))}\n\n"
    b += "/-- `_build_provided_kwargs_dict`: signature, the `_provided_args` literal ('key': variable), the filter, the returned merge -/\n"
    b += f"def bpkSig : Sig := {bpk['sig']}\n"
    b += f"def bpkDict : List (String × String) := {lpairs(bpk['dict'], per_line=True)}\n"
    b += f"def bpkFilter : FilterKind := .{bpk['filter']}\n"
    b += f"def bpkReturn : List String := {lstrs(bpk['merge'])}\n\n"
    for tag, info, cname in (("Sync", s, "Scrapli"), ("Async", a, "AsyncScrapli")):
        b += f"/-- `{cname}.__new__` (without `cls`), the keyword table of its call to `_build_provided_kwargs_dict`, whether `**kwargs` is forwarded -/\n"
        b += f"def newSig{tag} : Sig := {info['sig']}\n"
        b += f"def call{tag} : List (String × String) := {lpairs(info['call'], per_line=True)}\n"
        b += f"def callFwdKwargs{tag} : Bool := {lbool(info['fwd'])}\n"
        b += f"def finalMerge{tag} : List String := {lstrs(info['merge'])}\n"
        b += f"def coreMap{tag} : List (String × String) := {lpairs(info['coremap'])}\n"
        b += f"def driverMap{tag} : List (String × String) := {lpairs(info['drivermap'])}\n\n"
    b += f"/-- how `_get_community_platform_details` hands out `SCRAPLI_PLATFORM` -/\ndef communityCopy : CopyMode := .{ccopy}\n\n"

    # platform drivers
    ctor, plats = [], {}
    for cname in [c for _, c in s["coremap"]] + [c for _, c in a["coremap"]]:
        lean, platform, base_rel = _platform_driver(cname)
        ctor.append(lean)
        plats[platform] = base_rel
    b += "/-- the platform drivers named in the two CORE_PLATFORM_MAPs -/\ndef ctors : List CtorInfo := [\n" + ",\n".join(ctor) + "]\n\n"
    for nm in sorted({c for _, c in s["drivermap"]} | {c for _, c in a["drivermap"]}):
        sig, sup, stores = _plain_driver(nm)
        b += f"def sig{nm} : Sig := {sig}\n"
        b += f"def super{nm} : List (String × String) := {lpairs(sup, per_line=True)}\n"
        b += f"def stores{nm} : List (String × String) := {lpairs(stores)}\n\n"
    b += "/-- module-level platform definitions -/\n"
    pl, fl = [], []
    for platform in sorted(plats):
        privs, fwc = _platform_tables(plats[platform])
        pl.append(f"({lstr(platform)}, " + llist([f"({lstr(k)}, {llevel(v)})" for k, v in privs.items()], per_line=True) + ")")
        fl.append(f"({lstr(platform)}, {lstrs(fwc)})")
    b += "def corePrivs : List (String × List (String × Level)) := [\n  " + ",\n  ".join(pl) + "]\n\n"
    b += "def coreFwc : List (String × List String) := [\n  " + ",\n  ".join(fl) + "]\n\n"
    shared, written = _dummy_level_facts()
    b += ("/-- network/base_driver.py: the class attribute `_current_priv_level = DUMMY_PRIV_LEVEL` exists (one module-level object for\n"
          "    all connections); places in scrapli/ that write THROUGH that object (attribute / item stores, mutating list calls) -/\n")
    b += f"def currentLevelIsSharedDummy : Bool := {lbool(shared)}\n"
    b += f"def dummyLevelWrittenAt : List String := {lstrs(written)}\n\n"
    b += "end Scrapli.Gen.Factory\n"
    return [(OUT, b)]
