"""translator piece for C09: in-channel login (scrapli/channel/{base,sync,async}_channel.py).

Regenerates lean/ScrapliModel/Gen/AuthConsts.lean from the live source:
  * the three default authentication patterns and two default prompt patterns (parsed with CPython's
    own re._parser under the flags found in the source; only the shapes of ScrapliModel/AuthPat.lean
    are accepted),
  * per login loop (sync/async x telnet/ssh): the order of the pattern tests, the `count > N` thresholds,
    whether `_ssh_message_handler` runs, whether ScrapliConnectionError is caught around read(), whether
    an empty read can trigger a return,
  * the substring table of `_ssh_message_handler`,
  * the initial `return_attempts` and the divisor in `return_interval = timeout_ops / 10`.
Anything it does not recognise raises TranslateError."""
import ast
import re
import re._parser as sre
from re import _constants as C

from translate import HEADER, REPO, TranslateError, _parse

BASE = "scrapli/channel/base_channel.py"
SYNC = "scrapli/channel/sync_channel.py"
ASYNC = "scrapli/channel/async_channel.py"
GENERIC = "scrapli/driver/generic/sync_driver.py"
LOOPS = [("syncTelnet", SYNC, "Channel", "channel_authenticate_telnet"),
         ("asyncTelnet", ASYNC, "AsyncChannel", "channel_authenticate_telnet"),
         ("syncSsh", SYNC, "Channel", "channel_authenticate_ssh"),
         ("asyncSsh", ASYNC, "AsyncChannel", "channel_authenticate_ssh")]
KINDS = ("username", "password", "passphrase")


# ---------------------------------------------------------------- small AST helpers
def _cls(rel, name):
    for n in _parse(rel).body:
        if isinstance(n, ast.ClassDef) and n.name == name:
            return n
    raise TranslateError(f"{rel}: class {name} not found")


def _func(cls, name):
    for n in cls.body:
        if isinstance(n, (ast.FunctionDef, ast.AsyncFunctionDef)) and n.name == name:
            return n
    raise TranslateError(f"{cls.name}.{name} not found")


def _calls(node):
    for n in ast.walk(node):
        if isinstance(n, ast.Call):
            f = n.func
            yield (f.attr if isinstance(f, ast.Attribute) else getattr(f, "id", None)), n


def _dataclass_default(rel, cls, field):
    for n in _cls(rel, cls).body:
        if isinstance(n, ast.AnnAssign) and isinstance(n.target, ast.Name) and n.target.id == field and n.value is not None:
            v = ast.literal_eval(n.value)
            if isinstance(v, str):
                return v
    raise TranslateError(f"{rel}: {cls}.{field} default not found")


def _param_default(rel, cls, func, param):
    f = _func(_cls(rel, cls), func)
    a = f.args
    pos = a.posonlyargs + a.args
    for arg, d in zip(pos[len(pos) - len(a.defaults):], a.defaults):
        if arg.arg == param:
            return ast.literal_eval(d)
    for arg, d in zip(a.kwonlyargs, a.kw_defaults):
        if arg.arg == param and d is not None:
            return ast.literal_eval(d)
    raise TranslateError(f"{rel}: {cls}.{func}({param}=...) default not found")


def _compile_flags(prop):
    """flags of the re.compile(...) inside the property getter BaseChannel.<prop>"""
    cls = _cls(BASE, "BaseChannel")
    for n in cls.body:
        if isinstance(n, ast.FunctionDef) and n.name == prop and any(
                isinstance(d, ast.Name) and d.id == "property" for d in n.decorator_list):
            for name, call in _calls(n):
                if name == "compile":
                    for kw in call.keywords:
                        if kw.arg == "flags":
                            return int(eval(compile(ast.Expression(kw.value), BASE, "eval"), {"re": re}))
    raise TranslateError(f"{BASE}: flags of property {prop} not found")


def _prompt_flags():
    f = _func(_cls(BASE, "BaseChannel"), "_get_prompt_pattern")
    flags = set()
    for name, call in _calls(f):
        if name == "compile":
            for kw in call.keywords:
                if kw.arg == "flags":
                    flags.add(int(eval(compile(ast.Expression(kw.value), BASE, "eval"), {"re": re})))
    if len(flags) != 1:
        raise TranslateError(f"{BASE}: _get_prompt_pattern compile flags not unique: {flags}")
    return flags.pop()


# ---------------------------------------------------------------- regex shapes
def _flatten(seq):
    """inline capture groups"""
    out = []
    for op, av in seq:
        if op is C.SUBPATTERN and not av[1] and not av[2]:
            out += _flatten(av[3])
        else:
            out.append((op, av))
    return out


def _is_dotstar(item):
    op, av = item
    return op is C.MAX_REPEAT and av[0] == 0 and av[1] is C.MAXREPEAT and [o for o, _ in av[2]] == [C.ANY]


def _is_optional(item):
    op, av = item
    return op in (C.MAX_REPEAT, C.MIN_REPEAT) and av[0] == 0


def _is_opt_space(item):
    op, av = item
    if not (op is C.MAX_REPEAT and av[0] == 0 and len(av[2]) == 1):
        return None
    o, a = av[2][0]
    if o is C.IN and a == [(C.CATEGORY, C.CATEGORY_SPACE)]:
        return 1 if av[1] == 1 else (2 if av[1] is C.MAXREPEAT else None)
    return None


def cred_branches(pattern: str, flags: int):
    """[(bol, dotstar, needle, tail)] for a credential pattern, or TranslateError"""
    if not (flags & re.I and flags & re.M) or flags & ~(re.I | re.M | re.U | re.A):
        raise TranslateError(f"pattern {pattern!r}: compile flags {flags} are not re.I|re.M")
    tree = sre.parse(pattern.encode(), flags)
    items = list(tree)
    alts = [list(a) for a in items[0][1][1]] if len(items) == 1 and items[0][0] is C.BRANCH else [items]
    out = []
    for alt in alts:
        seq = _flatten(alt)
        bol = dotstar = tail = False
        if seq and seq[0] == (C.AT, C.AT_BEGINNING):
            bol, seq = True, seq[1:]
        while seq and seq[0][0] is not C.LITERAL:
            if _is_dotstar(seq[0]):
                dotstar = True
            elif _is_optional(seq[0]) and not bol:
                pass   # an optional prefix never restricts an unanchored search
            else:
                raise TranslateError(f"pattern {pattern!r}: unsupported prefix {seq[0]}")
            seq = seq[1:]
        needle = bytearray()
        while seq and seq[0][0] is C.LITERAL:
            needle.append(seq[0][1])
            seq = seq[1:]
        if not needle or b"\n" in needle:
            raise TranslateError(f"pattern {pattern!r}: no literal / literal with newline")
        if seq:
            if len(seq) == 2 and _is_opt_space(seq[0]) == 1 and seq[1] == (C.AT, C.AT_END):
                tail = True
            else:
                raise TranslateError(f"pattern {pattern!r}: unsupported suffix {seq}")
        out.append((bol, dotstar, bytes(needle).lower(), tail))
    return out


def _class_bytes(node, flags):
    """the set of bytes a one-byte item accepts (by asking CPython about each byte)"""
    op, av = node
    if op is C.IN:
        src = None
    ok = []
    sub = sre.SubPattern(sre.State())
    sub.data = [node]
    # rebuild a pattern source is fragile; evaluate membership structurally instead
    def member(b):
        def one(o, a):
            if o is C.LITERAL:
                return b == a
            if o is C.RANGE:
                return a[0] <= b <= a[1]
            if o is C.CATEGORY:
                table = {C.CATEGORY_SPACE: rb"\s", C.CATEGORY_NOT_SPACE: rb"\S", C.CATEGORY_DIGIT: rb"\d",
                         C.CATEGORY_NOT_DIGIT: rb"\D", C.CATEGORY_WORD: rb"\w", C.CATEGORY_NOT_WORD: rb"\W"}
                if a not in table:
                    raise TranslateError(f"unsupported category {a}")
                return re.fullmatch(table[a], bytes([b])) is not None
            raise TranslateError(f"unsupported class item {o}")
        if op is C.LITERAL:
            return one(op, av)
        if op is C.NOT_LITERAL:
            return b != av
        if op is C.ANY:
            return b != 10
        if op is C.CATEGORY:
            return one(op, av)
        if op is C.IN:
            its, neg = list(av), False
            if its and its[0][0] is C.NEGATE:
                neg, its = True, its[1:]
            r = any(one(o, a) for o, a in its)
            return r != neg
        raise TranslateError(f"unsupported one-byte item {op}")
    for b in range(256):
        m = member(b)
        if not m and flags & re.I and (65 <= b <= 90 or 97 <= b <= 122):
            m = member(b ^ 32)
        if m:
            ok.append(b)
    return bytes(ok)


def prompt_pat(pattern: str, flags: int):
    if not (flags & re.I and flags & re.M):
        raise TranslateError(f"prompt pattern {pattern!r}: flags {flags} are not re.I|re.M")
    seq = _flatten(list(sre.parse(pattern.encode(), flags)))
    if len(seq) < 4 or seq[0] != (C.AT, C.AT_BEGINNING) or seq[-1] != (C.AT, C.AT_END):
        raise TranslateError(f"prompt pattern {pattern!r}: not of shape ^...$")
    body = seq[1:-1]
    trail = 0
    t = _is_opt_space(body[-1]) if body else None
    if t:
        trail, body = t, body[:-1]
    if len(body) != 2 or body[0][0] is not C.MAX_REPEAT or len(body[0][1][2]) != 1:
        raise TranslateError(f"prompt pattern {pattern!r}: body is not [head]{{m,n}}[last]")
    lo, hi, inner = body[0][1]
    if hi is C.MAXREPEAT:
        raise TranslateError(f"prompt pattern {pattern!r}: unbounded head")
    head = _class_bytes(inner[0], flags)
    last = _class_bytes(body[1], flags)
    if 10 in head or 10 in last:
        raise TranslateError(f"prompt pattern {pattern!r}: a class accepts newline")
    return head, int(lo), int(hi), last, trail


# ---------------------------------------------------------------- the loops
PROP_KIND = {"auth_telnet_login_pattern": "username", "auth_password_pattern": "password", "auth_passphrase_pattern": "passphrase"}


def _pre_tuple(which):
    """meaning of each element of the tuple returned by BaseChannel._pre_channel_authenticate_<which>"""
    func = _func(_cls(BASE, "BaseChannel"), f"_pre_channel_authenticate_{which}")
    prompt_vars = set()
    for n in ast.walk(func):
        if isinstance(n, ast.Assign) and isinstance(n.value, ast.Call) and isinstance(n.value.func, ast.Attribute) \
                and n.value.func.attr == "_get_prompt_pattern" and isinstance(n.targets[0], ast.Name):
            prompt_vars.add(n.targets[0].id)
    rets = [n for n in ast.walk(func) if isinstance(n, ast.Return)]
    if len(rets) != 1 or not isinstance(rets[0].value, ast.Tuple):
        raise TranslateError(f"{BASE}: _pre_channel_authenticate_{which} does not return one tuple")
    out = []
    for e in rets[0].value.elts:
        if isinstance(e, ast.Attribute) and e.attr in PROP_KIND:
            out.append(PROP_KIND[e.attr])
        elif isinstance(e, ast.Name) and e.id in prompt_vars:
            out.append("prompt")
        else:
            out.append(None)
    return out


def _pattern_vars(func, which):
    """local variable name -> username|password|passphrase|prompt, from the tuple unpacking of _pre_channel_authenticate_*"""
    meaning = _pre_tuple(which)
    for n in ast.walk(func):
        if isinstance(n, ast.Assign) and isinstance(n.targets[0], ast.Tuple) and isinstance(n.value, ast.Call) \
                and isinstance(n.value.func, ast.Attribute) and n.value.func.attr == f"_pre_channel_authenticate_{which}":
            names = n.targets[0].elts
            if len(names) != len(meaning) or not all(isinstance(x, ast.Name) for x in names):
                raise TranslateError(f"{func.name}: unpacking of _pre_channel_authenticate_{which} does not fit its return tuple")
            return {x.id: m for x, m in zip(names, meaning) if m}
    raise TranslateError(f"{func.name}: call of _pre_channel_authenticate_{which} not found")


def _search_target(test, pvars):
    """`re.search(pattern=<var>, string=...)` -> meaning of <var>"""
    if isinstance(test, ast.Call) and isinstance(test.func, ast.Attribute) and test.func.attr == "search":
        v = None
        for kw in test.keywords:
            if kw.arg == "pattern":
                v = kw.value
        if v is None and test.args:
            v = test.args[0]
        if isinstance(v, ast.Name):
            if v.id not in pvars:
                raise TranslateError(f"line {test.lineno}: re.search on unknown pattern variable {v.id}")
            return pvars[v.id]
    return None


def _while_body(func):
    loops = [n for n in ast.walk(func) if isinstance(n, ast.While)]
    if len(loops) != 1:
        raise TranslateError(f"{func.name}: expected exactly one while loop, found {len(loops)}")
    return loops[0].body


def _threshold(ifnode, where):
    """the `if <x>_count > N: raise ScrapliAuthenticationFailed` inside a credential branch -> limit"""
    tags, limit = [], None
    for st in ifnode.body:
        if isinstance(st, ast.Assign) and isinstance(st.value, ast.Constant) and st.value.value == b"":
            tags.append("clear")
        elif isinstance(st, ast.AugAssign) and isinstance(st.op, ast.Add) and isinstance(st.value, ast.Constant) and st.value.value == 1:
            tags.append("incr")
        elif isinstance(st, ast.If) and isinstance(st.test, ast.Compare) and any(isinstance(x, ast.Raise) for x in ast.walk(st)):
            cmp = st.test
            if len(cmp.ops) != 1 or not isinstance(cmp.comparators[0], ast.Constant) or not isinstance(cmp.comparators[0].value, int):
                raise TranslateError(f"{where}: unrecognised guard {ast.dump(cmp)}")
            n = cmp.comparators[0].value
            if isinstance(cmp.ops[0], ast.Gt):
                limit = n
            elif isinstance(cmp.ops[0], ast.GtE) and n >= 1:
                limit = n - 1
            else:
                raise TranslateError(f"{where}: unrecognised guard operator {ast.dump(cmp)}")
            rs = [x for x in ast.walk(st) if isinstance(x, ast.Raise)]
            if not all(isinstance(r.exc, ast.Call) and getattr(r.exc.func, "id", "") == "ScrapliAuthenticationFailed" for r in rs):
                raise TranslateError(f"{where}: guard raises something else than ScrapliAuthenticationFailed")
            tags.append("guard")
        elif isinstance(st, ast.Expr) and isinstance(st.value, ast.Call) and isinstance(st.value.func, ast.Attribute):
            if st.value.func.attr == "write":
                tags.append("write")
            elif st.value.func.attr == "send_return":
                tags.append("return")
    if tags != ["clear", "incr", "guard", "write", "return"]:
        raise TranslateError(f"{where}: credential branch is not clear/incr/guard/write/return but {tags}")
    return limit


def loop_facts(rel, cls, fn):
    func = _func(_cls(rel, cls), fn)
    pvars = _pattern_vars(func, "telnet" if fn.endswith("telnet") else "ssh")
    body = _while_body(func)
    bumped = set()   # names incremented next to a send_return (the attempts counter)
    order, limits = [], {}
    handler = catches = kicks = False
    handler_pos = None
    for i, st in enumerate(body):
        if isinstance(st, ast.If):
            tgt = _search_target(st.test, pvars)
            if tgt is not None:
                order.append(tgt)
                if tgt in KINDS:
                    limits[tgt] = _threshold(st, f"{rel}:{st.lineno}")
                elif tgt == "prompt":
                    if not any(isinstance(x, ast.Return) for x in st.body):
                        raise TranslateError(f"{rel}:{st.lineno}: prompt branch does not return")
                else:
                    raise TranslateError(f"{rel}:{st.lineno}: unknown pattern {tgt}")
                continue
            if isinstance(st.test, ast.UnaryOp) and isinstance(st.test.op, ast.Not):
                # `if not buf:` ... send_return when the clock says so
                if any(n == "send_return" for n, _ in _calls(st)):
                    cmps = [c for c in ast.walk(st) if isinstance(c, ast.Compare) and c is not st.test]
                    if len(cmps) != 1 or not isinstance(cmps[0].ops[0], ast.Gt):
                        raise TranslateError(f"{rel}:{st.lineno}: kick condition is not `elapsed > interval * attempts`")
                    r = cmps[0].comparators[0]
                    if not (isinstance(r, ast.BinOp) and isinstance(r.op, ast.Mult)):
                        raise TranslateError(f"{rel}:{st.lineno}: kick bound is not a product")
                    kicks = True
                    bumped |= {n.target.id for n in ast.walk(st) if isinstance(n, ast.AugAssign) and isinstance(n.target, ast.Name)}
        if isinstance(st, ast.Try):
            for h in st.handlers:
                names = [getattr(h.type, "id", None)] if not isinstance(h.type, ast.Tuple) else [getattr(e, "id", None) for e in h.type.elts]
                if "ScrapliConnectionError" in names:
                    if not (any(n == "send_return" for n, _ in _calls(h)) and any(isinstance(x, ast.Continue) for x in ast.walk(h))):
                        raise TranslateError(f"{rel}:{h.lineno}: ScrapliConnectionError handler is not send_return + continue")
                    catches = True
                    bumped |= {n.target.id for n in ast.walk(h) if isinstance(n, ast.AugAssign) and isinstance(n.target, ast.Name)}
        if isinstance(st, ast.Expr) and any(n == "_ssh_message_handler" for n, _ in _calls(st)):
            handler, handler_pos = True, len(order)
    if len(order) != 3 or order[2] != "prompt" or order[0] == order[1] or not set(order[:2]) <= set(KINDS):
        raise TranslateError(f"{rel}: {fn}: pattern tests are {order}, expected two credentials then prompt")
    if handler and handler_pos != 0:
        raise TranslateError(f"{rel}: {fn}: _ssh_message_handler is not called before the pattern tests")
    # initial return_attempts
    attempts0 = None
    if kicks or catches:
        if len(bumped) != 1:
            raise TranslateError(f"{rel}: {fn}: attempts counter not unique: {bumped}")
        for n in ast.walk(func):
            if isinstance(n, ast.Assign) and isinstance(n.targets[0], ast.Name) and n.targets[0].id in bumped:
                attempts0 = ast.literal_eval(n.value)
    return dict(order=order[:2], limits=limits, handler=handler, catches=catches, kicks=kicks, attempts0=attempts0)


def fatal_table():
    """(needle, tested on output.lower()?) for every substring test of the if/elif chain of _ssh_message_handler"""
    func = _func(_cls(BASE, "BaseChannel"), "_ssh_message_handler")
    chain = [s for s in func.body if isinstance(s, ast.If)]
    if len(chain) != 2:
        raise TranslateError(f"{BASE}: _ssh_message_handler: expected the elif chain and the final `if msg`")
    first, final = chain
    if not any(isinstance(x, ast.Raise) and getattr(x.exc.func, "id", "") == "ScrapliAuthenticationFailed" for x in ast.walk(final)):
        raise TranslateError(f"{BASE}: _ssh_message_handler does not raise ScrapliAuthenticationFailed at the end")
    out, node = [], first
    while True:
        tests = node.test.values if isinstance(node.test, ast.BoolOp) and isinstance(node.test.op, ast.Or) else [node.test]
        for t in tests:
            if not (isinstance(t, ast.Compare) and len(t.ops) == 1 and isinstance(t.ops[0], ast.In)
                    and isinstance(t.left, ast.Constant) and isinstance(t.left.value, bytes)):
                raise TranslateError(f"{BASE}:{t.lineno}: unrecognised test in _ssh_message_handler")
            r = t.comparators[0]
            if isinstance(r, ast.Name):
                lowered = False
            elif isinstance(r, ast.Call) and isinstance(r.func, ast.Attribute) and r.func.attr == "lower" and isinstance(r.func.value, ast.Name):
                lowered = True
            else:
                raise TranslateError(f"{BASE}:{t.lineno}: unrecognised haystack in _ssh_message_handler")
            out.append((t.left.value, lowered))
        # every branch must set msg to something non-empty
        sets = [s for s in node.body if isinstance(s, ast.Assign) and getattr(s.targets[0], "id", "") == "msg"]
        if not sets or (isinstance(sets[0].value, ast.Constant) and not sets[0].value.value):
            raise TranslateError(f"{BASE}:{node.lineno}: branch of _ssh_message_handler does not set msg")
        if len(node.orelse) == 1 and isinstance(node.orelse[0], ast.If):
            node = node.orelse[0]
        elif not node.orelse:
            break
        else:
            raise TranslateError(f"{BASE}:{node.lineno}: else branch in _ssh_message_handler")
    return out


def return_divisor():
    func = _func(_cls(BASE, "BaseChannel"), "_pre_channel_authenticate_telnet")
    for n in ast.walk(func):
        if isinstance(n, ast.Assign) and getattr(n.targets[0], "id", "") == "return_interval":
            v = n.value
            if isinstance(v, ast.BinOp) and isinstance(v.op, ast.Div) and isinstance(v.right, ast.Constant) and isinstance(v.right.value, int) \
                    and isinstance(v.left, ast.Attribute) and v.left.attr == "timeout_ops":
                return v.right.value
    raise TranslateError(f"{BASE}: return_interval = timeout_ops / N not found")


# ---------------------------------------------------------------- rendering
def _b(b: bytes) -> str:
    return "[" + ", ".join(str(x) for x in b) + "]"


def _s(s: str) -> str:
    return '"' + s.replace("\\", "\\\\").replace('"', '\\"') + '"'


def _bool(x) -> str:
    return "true" if x else "false"


def facts():
    """everything the generator extracts, as python data (also used by tools/props/c09.py)"""
    pats = {
        "login": (_dataclass_default(BASE, "BaseChannelArgs", "auth_telnet_login_pattern"), _compile_flags("auth_telnet_login_pattern")),
        "password": (_dataclass_default(BASE, "BaseChannelArgs", "auth_password_pattern"), _compile_flags("auth_password_pattern")),
        "passphrase": (_dataclass_default(BASE, "BaseChannelArgs", "auth_passphrase_pattern"), _compile_flags("auth_passphrase_pattern")),
    }
    pf = _prompt_flags()
    prompts = {
        "chan": _dataclass_default(BASE, "BaseChannelArgs", "comms_prompt_pattern"),
        "generic": _param_default(GENERIC, "GenericDriver", "__init__", "comms_prompt_pattern"),
    }
    loops = {name: loop_facts(rel, cls, fn) for name, rel, cls, fn in LOOPS}
    return dict(pats=pats, prompt_flags=pf, prompts=prompts, loops=loops, fatal=fatal_table(), divisor=return_divisor())


def generate():
    f = facts()
    o = HEADER.format(src=f"{BASE}, {SYNC}, {ASYNC}, {GENERIC} (tools/gen/c09.py)")
    o += "import ScrapliModel.AuthPat\nnamespace Scrapli.Gen.Auth\nopen Scrapli Scrapli.Auth\n\n"
    for name in ("login", "password", "passphrase"):
        src, flags = f["pats"][name]
        o += f"def {name}PatternSrc : String := {_s(src)}\n"
        o += f"def {name}Branches : List Branch := [\n"
        rows = []
        for bol, dot, needle, tail in cred_branches(src, flags):
            rows.append(f"  ⟨{_bool(bol)}, {_bool(dot)}, {_b(needle)}, {_bool(tail)}⟩  -- {needle.decode('latin-1')!r}")
        o += ",\n".join(r.split("  --")[0] for r in rows[:-1])
        if len(rows) > 1:
            o += ",\n"
        o += rows[-1].split("  --")[0] + "]\n"
        o += "".join(f"-- {r.split('  -- ')[1]}\n" for r in rows)
    for name in ("chan", "generic"):
        src = f["prompts"][name]
        head, lo, hi, last, trail = prompt_pat(src, f["prompt_flags"])
        o += f"def {name}PromptSrc : String := {_s(src)}\n"
        o += f"def {name}Prompt : PromptPat := ⟨{_b(head)}, {lo}, {hi}, {_b(last)}, {trail}⟩\n"
    o += "\n-- substring tests of _ssh_message_handler: (needle, haystack is output.lower())\n"
    o += "def fatalTable : List (Bytes × Bool) := [\n" + ",\n".join(
        f"  ({_b(n)}, {_bool(l)})" for n, l in f["fatal"]) + "]\n"
    o += "".join(f"-- {n.decode('latin-1')!r}\n" for n, _ in f["fatal"])
    o += "\ndef limitOf : Loop → Kind → Nat\n"
    for name, lf in f["loops"].items():
        for k in lf["order"]:
            o += f"  | .{name}, .{k} => {lf['limits'][k]}\n"
    o += "  | _, _ => 0\n"
    o += "\ndef orderOf : Loop → Kind × Kind\n"
    for name, lf in f["loops"].items():
        o += f"  | .{name} => (.{lf['order'][0]}, .{lf['order'][1]})\n"
    for key, field in (("hasHandler", "handler"), ("catchesConnErr", "catches"), ("kicksOnEmpty", "kicks")):
        o += f"\ndef {key} : Loop → Bool\n"
        for name, lf in f["loops"].items():
            o += f"  | .{name} => {_bool(lf[field])}\n"
    a0 = {lf["attempts0"] for lf in f["loops"].values() if lf["kicks"] or lf["catches"]}
    if len(a0) != 1 or not isinstance(next(iter(a0)), int):
        raise TranslateError(f"initial return_attempts not unique: {a0}")
    o += f"\ndef attempts0 : Nat := {a0.pop()}\n"
    o += f"def returnDivisor : Nat := {f['divisor']}\n"
    o += "end Scrapli.Gen.Auth\n"
    return [("ScrapliModel/Gen/AuthConsts.lean", o)]


if __name__ == "__main__":
    import sys
    sys.stdout.write(generate()[0][1])
