"""translator piece for C09: in-channel login (scrapli/channel/{base,sync,async}_channel.py).

Regenerates lean/ScrapliModel/Gen/AuthConsts.lean from the live source:
  * the three default authentication patterns and two default prompt patterns (parsed with CPython's
    own re._parser under the flags found in the source; only the shapes of ScrapliModel/AuthPat.lean
    are accepted),
  * per login loop (sync/async x telnet/ssh): the order of the pattern tests, the `count > N` thresholds,
    whether `_ssh_message_handler` runs, whether ScrapliConnectionError is caught around read(), whether
    an empty read can trigger a return,
  * the substring table of `_ssh_message_handler`,
  * the initial `return_attempts` and the divisor in `return_interval = timeout_ops / 10`.
Anything it does not recognise raises TranslateError."""
import ast
import re
import re._parser as sre
from re import _constants as C

from translate import HEADER, REPO, TranslateError, _parse

BASE = "scrapli/channel/base_channel.py"
SYNC = "scrapli/channel/sync_channel.py"
ASYNC = "scrapli/channel/async_channel.py"
GENERIC = "scrapli/driver/generic/sync_driver.py"
LOOPS = [("syncTelnet", SYNC, "Channel", "channel_authenticate_telnet"),
         ("asyncTelnet", ASYNC, "AsyncChannel", "channel_authenticate_telnet"),
         ("syncSsh", SYNC, "Channel", "channel_authenticate_ssh"),
         ("asyncSsh", ASYNC, "AsyncChannel", "channel_authenticate_ssh")]
KINDS = ("username", "password", "passphrase")


# ---------------------------------------------------------------- small AST helpers
def _cls(rel, name):
    for n in _parse(rel).body:
        if isinstance(n, ast.ClassDef) and n.name == name:
            return n
    raise TranslateError(f"{rel}: class {name} not found")


def _func(cls, name):
    for n in cls.body:
        if isinstance(n, (ast.FunctionDef, ast.AsyncFunctionDef)) and n.name == name:
            return n
    raise TranslateError(f"{cls.name}.{name} not found")


def _calls(node):
    for n in ast.walk(node):
        if isinstance(n, ast.Call):
            f = n.func
            yield (f.attr if isinstance(f, ast.Attribute) else getattr(f, "id", None)), n


def _dataclass_default(rel, cls, field):
    for n in _cls(rel, cls).body:
        if isinstance(n, ast.AnnAssign) and isinstance(n.target, ast.Name) and n.target.id == field and n.value is not None:
            v = ast.literal_eval(n.value)
            if isinstance(v, str):
                return v
    raise TranslateError(f"{rel}: {cls}.{field} default not found")


def _post_init_fallback(rel, cls, field):
    """the string assigned by `if self.<field> == "": self.<field> = r"..."` in <cls>.__post_init__ (None: no such fallback)"""
    func = _func(_cls(rel, cls), "__post_init__")
    found = []
    for n in ast.walk(func):
        if isinstance(n, ast.Assign) and len(n.targets) == 1 and isinstance(n.targets[0], ast.Attribute) \
                and n.targets[0].attr == field and isinstance(n.targets[0].value, ast.Name) and n.targets[0].value.id == "self":
            if not (isinstance(n.value, ast.Constant) and isinstance(n.value.value, str)):
                raise TranslateError(f"{rel}: {cls}.__post_init__ assigns a non-literal to {field}")
            found.append(n.value.value)
    if len(found) > 1:
        raise TranslateError(f"{rel}: {cls}.__post_init__ assigns {field} more than once")
    return found[0] if found else None


def _driver_default(param):
    """default of BaseDriver.__init__(<param>=...) -- what every driver hands to BaseChannelArgs"""
    return _param_default("scrapli/driver/base/base_driver.py", "BaseDriver", "__init__", param)


def _param_default(rel, cls, func, param):
    f = _func(_cls(rel, cls), func)
    a = f.args
    pos = a.posonlyargs + a.args
    for arg, d in zip(pos[len(pos) - len(a.defaults):], a.defaults):
        if arg.arg == param:
            return ast.literal_eval(d)
    for arg, d in zip(a.kwonlyargs, a.kw_defaults):
        if arg.arg == param and d is not None:
            return ast.literal_eval(d)
    raise TranslateError(f"{rel}: {cls}.{func}({param}=...) default not found")


def _compile_flags(prop):
    """flags of the re.compile(...) inside the property getter BaseChannel.<prop>"""
    cls = _cls(BASE, "BaseChannel")
    for n in cls.body:
        if isinstance(n, ast.FunctionDef) and n.name == prop and any(
                isinstance(d, ast.Name) and d.id == "property" for d in n.decorator_list):
            for name, call in _calls(n):
                if name == "compile":
                    for kw in call.keywords:
                        if kw.arg == "flags":
                            return int(eval(compile(ast.Expression(kw.value), BASE, "eval"), {"re": re}))
    raise TranslateError(f"{BASE}: flags of property {prop} not found")


def _prompt_flags():
    f = _func(_cls(BASE, "BaseChannel"), "_get_prompt_pattern")
    flags = set()
    for name, call in _calls(f):
        if name == "compile":
            for kw in call.keywords:
                if kw.arg == "flags":
                    flags.add(int(eval(compile(ast.Expression(kw.value), BASE, "eval"), {"re": re})))
    if len(flags) != 1:
        raise TranslateError(f"{BASE}: _get_prompt_pattern compile flags not unique: {flags}")
    return flags.pop()


# ---------------------------------------------------------------- regex shapes
def _flatten(seq):
    """inline capture groups"""
    out = []
    for op, av in seq:
        if op is C.SUBPATTERN and not av[1] and not av[2]:
            out += _flatten(av[3])
        else:
            out.append((op, av))
    return out


def _is_dotstar(item):
    op, av = item
    return op is C.MAX_REPEAT and av[0] == 0 and av[1] is C.MAXREPEAT and [o for o, _ in av[2]] == [C.ANY]


def _is_optional(item):
    op, av = item
    return op in (C.MAX_REPEAT, C.MIN_REPEAT) and av[0] == 0


def _is_opt_space(item):
    op, av = item
    if not (op is C.MAX_REPEAT and av[0] == 0 and len(av[2]) == 1):
        return None
    o, a = av[2][0]
    if o is C.IN and a == [(C.CATEGORY, C.CATEGORY_SPACE)]:
        return 1 if av[1] == 1 else (2 if av[1] is C.MAXREPEAT else None)
    return None


def cred_branches(pattern: str, flags: int):
    """[(bol, dotstar, needle, tail)] for a credential pattern, or TranslateError"""
    if not (flags & re.I and flags & re.M) or flags & ~(re.I | re.M | re.U | re.A):
        raise TranslateError(f"pattern {pattern!r}: compile flags {flags} are not re.I|re.M")
    tree = sre.parse(pattern.encode(), flags)
    items = list(tree)
    alts = [list(a) for a in items[0][1][1]] if len(items) == 1 and items[0][0] is C.BRANCH else [items]
    out = []
    for alt in alts:
        seq = _flatten(alt)
        bol = dotstar = tail = False
        if seq and seq[0] == (C.AT, C.AT_BEGINNING):
            bol, seq = True, seq[1:]
        while seq and seq[0][0] is not C.LITERAL:
            if _is_dotstar(seq[0]):
                dotstar = True
            elif _is_optional(seq[0]) and not bol:
                pass   # an optional prefix never restricts an unanchored search
            else:
                raise TranslateError(f"pattern {pattern!r}: unsupported prefix {seq[0]}")
            seq = seq[1:]
        needle = bytearray()
        while seq and seq[0][0] is C.LITERAL:
            needle.append(seq[0][1])
            seq = seq[1:]
        if not needle or b"\n" in needle:
            raise TranslateError(f"pattern {pattern!r}: no literal / literal with newline")
        if seq:
            if len(seq) == 2 and _is_opt_space(seq[0]) == 1 and seq[1] == (C.AT, C.AT_END):
                tail = True
            else:
                raise TranslateError(f"pattern {pattern!r}: unsupported suffix {seq}")
        out.append((bol, dotstar, bytes(needle).lower(), tail))
    return out


def _class_bytes(node, flags):
    """the set of bytes a one-byte item accepts (by asking CPython about each byte)"""
    op, av = node
    if op is C.IN:
        src = None
    ok = []
    sub = sre.SubPattern(sre.State())
    sub.data = [node]
    # rebuild a pattern source is fragile; evaluate membership structurally instead
    def member(b):
        def one(o, a):
            if o is C.LITERAL:
                return b == a
            if o is C.RANGE:
                return a[0] <= b <= a[1]
            if o is C.CATEGORY:
                table = {C.CATEGORY_SPACE: rb"\s", C.CATEGORY_NOT_SPACE: rb"\S", C.CATEGORY_DIGIT: rb"\d",
                         C.CATEGORY_NOT_DIGIT: rb"\D", C.CATEGORY_WORD: rb"\w", C.CATEGORY_NOT_WORD: rb"\W"}
                if a not in table:
                    raise TranslateError(f"unsupported category {a}")
                return re.fullmatch(table[a], bytes([b])) is not None
            raise TranslateError(f"unsupported class item {o}")
        if op is C.LITERAL:
            return one(op, av)
        if op is C.NOT_LITERAL:
            return b != av
        if op is C.ANY:
            return b != 10
        if op is C.CATEGORY:
            return one(op, av)
        if op is C.IN:
            its, neg = list(av), False
            if its and its[0][0] is C.NEGATE:
                neg, its = True, its[1:]
            r = any(one(o, a) for o, a in its)
            return r != neg
        raise TranslateError(f"unsupported one-byte item {op}")
    for b in range(256):
        m = member(b)
        if not m and flags & re.I and (65 <= b <= 90 or 97 <= b <= 122):
            m = member(b ^ 32)
        if m:
            ok.append(b)
    return bytes(ok)


def prompt_pat(pattern: str, flags: int):
    if not (flags & re.I and flags & re.M):
        raise TranslateError(f"prompt pattern {pattern!r}: flags {flags} are not re.I|re.M")
    seq = _flatten(list(sre.parse(pattern.encode(), flags)))
    if len(seq) < 4 or seq[0] != (C.AT, C.AT_BEGINNING) or seq[-1] != (C.AT, C.AT_END):
        raise TranslateError(f"prompt pattern {pattern!r}: not of shape ^...$")
    body = seq[1:-1]
    trail = 0
    t = _is_opt_space(body[-1]) if body else None
    if t:
        trail, body = t, body[:-1]
    if len(body) != 2 or body[0][0] is not C.MAX_REPEAT or len(body[0][1][2]) != 1:
        raise TranslateError(f"prompt pattern {pattern!r}: body is not [head]{{m,n}}[last]")
    lo, hi, inner = body[0][1]
    if hi is C.MAXREPEAT:
        raise TranslateError(f"prompt pattern {pattern!r}: unbounded head")
    head = _class_bytes(inner[0], flags)
    last = _class_bytes(body[1], flags)
    if 10 in head or 10 in last:
        raise TranslateError(f"prompt pattern {pattern!r}: a class accepts newline")
    return head, int(lo), int(hi), last, trail


# ---------------------------------------------------------------- the loops
PROP_KIND = {"auth_telnet_login_pattern": "username", "auth_password_pattern": "password", "auth_passphrase_pattern": "passphrase"}


def _pre_tuple(which):
    """meaning of each element of the tuple returned by BaseChannel._pre_channel_authenticate_<which>"""
    func = _func(_cls(BASE, "BaseChannel"), f"_pre_channel_authenticate_{which}")
    prompt_vars = set()
    for n in ast.walk(func):
        if isinstance(n, ast.Assign) and isinstance(n.value, ast.Call) and isinstance(n.value.func, ast.Attribute) \
                and n.value.func.attr == "_get_prompt_pattern" and isinstance(n.targets[0], ast.Name):
            prompt_vars.add(n.targets[0].id)
    rets = [n for n in ast.walk(func) if isinstance(n, ast.Return)]
    if len(rets) != 1 or not isinstance(rets[0].value, ast.Tuple):
        raise TranslateError(f"{BASE}: _pre_channel_authenticate_{which} does not return one tuple")
    out = []
    for e in rets[0].value.elts:
        if isinstance(e, ast.Attribute) and e.attr in PROP_KIND:
            out.append(PROP_KIND[e.attr])
        elif isinstance(e, ast.Name) and e.id in prompt_vars:
            out.append("prompt")
        else:
            out.append(None)
    return out


def _pattern_vars(func, which):
    """local variable name -> username|password|passphrase|prompt, from the tuple unpacking of _pre_channel_authenticate_*"""
    meaning = _pre_tuple(which)
    for n in ast.walk(func):
        if isinstance(n, ast.Assign) and isinstance(n.targets[0], ast.Tuple) and isinstance(n.value, ast.Call) \
                and isinstance(n.value.func, ast.Attribute) and n.value.func.attr == f"_pre_channel_authenticate_{which}":
            names = n.targets[0].elts
            if len(names) != len(meaning) or not all(isinstance(x, ast.Name) for x in names):
                raise TranslateError(f"{func.name}: unpacking of _pre_channel_authenticate_{which} does not fit its return tuple")
            return {x.id: m for x, m in zip(names, meaning) if m}
    raise TranslateError(f"{func.name}: call of _pre_channel_authenticate_{which} not found")


def _search_target(test, pvars):
    """`re.search(pattern=<var>, string=...)` -> meaning of <var>"""
    if isinstance(test, ast.Call) and isinstance(test.func, ast.Attribute) and test.func.attr == "search":
        v = None
        for kw in test.keywords:
            if kw.arg == "pattern":
                v = kw.value
        if v is None and test.args:
            v = test.args[0]
        if isinstance(v, ast.Name):
            if v.id not in pvars:
                raise TranslateError(f"line {test.lineno}: re.search on unknown pattern variable {v.id}")
            return pvars[v.id]
    return None


def _while_body(func):
    loops = [n for n in ast.walk(func) if isinstance(n, ast.While)]
    if len(loops) != 1:
        raise TranslateError(f"{func.name}: expected exactly one while loop, found {len(loops)}")
    return loops[0].body


def _is_call(st, attr):
    return isinstance(st, ast.Expr) and isinstance(st.value, ast.Call) and isinstance(st.value.func, ast.Attribute) \
        and st.value.func.attr == attr


def _threshold(ifnode, where):
    """a credential block `if re.search(...): buf = b""; count += 1; if count > N: raise ScrapliAuthenticationFailed;
    write(...); send_return()` -> (limit, buffer variable, counter variable, recognised nodes)"""
    tags, limit, bufvar, cntvar, seen = [], None, None, None, []
    for st in ifnode.body:
        if isinstance(st, ast.Assign) and isinstance(st.value, ast.Constant) and st.value.value == b"" \
                and len(st.targets) == 1 and isinstance(st.targets[0], ast.Name):
            tags.append("clear"); bufvar = st.targets[0].id; seen.append(st)
        elif isinstance(st, ast.AugAssign) and isinstance(st.op, ast.Add) and isinstance(st.value, ast.Constant) and st.value.value == 1 \
                and isinstance(st.target, ast.Name):
            tags.append("incr"); cntvar = st.target.id; seen.append(st)
        elif isinstance(st, ast.If) and isinstance(st.test, ast.Compare) and any(isinstance(x, ast.Raise) for x in ast.walk(st)):
            cmp = st.test
            if len(cmp.ops) != 1 or not isinstance(cmp.comparators[0], ast.Constant) or not isinstance(cmp.comparators[0].value, int) \
                    or not (isinstance(cmp.left, ast.Name) and cmp.left.id == cntvar):
                raise TranslateError(f"{where}: unrecognised guard {ast.dump(cmp)}")
            n = cmp.comparators[0].value
            if isinstance(cmp.ops[0], ast.Gt):
                limit = n
            elif isinstance(cmp.ops[0], ast.GtE) and n >= 1:
                limit = n - 1
            else:
                raise TranslateError(f"{where}: unrecognised guard operator {ast.dump(cmp)}")
            rs = [x for x in ast.walk(st) if isinstance(x, ast.Raise)]
            if not all(isinstance(r.exc, ast.Call) and getattr(r.exc.func, "id", "") == "ScrapliAuthenticationFailed" for r in rs):
                raise TranslateError(f"{where}: guard raises something else than ScrapliAuthenticationFailed")
            if st.orelse or not isinstance(st.body[-1], ast.Raise):
                raise TranslateError(f"{where}: guard does not end in raise")
            tags.append("guard")
        elif _is_call(st, "write"):
            tags.append("write"); seen.append(st)
        elif _is_call(st, "send_return"):
            tags.append("return"); seen.append(st)
        elif isinstance(st, (ast.Assign, ast.AugAssign, ast.AnnAssign, ast.Return, ast.Continue, ast.Break, ast.Raise, ast.Try, ast.While, ast.For, ast.If)):
            raise TranslateError(f"{where}: unexpected statement in a credential block: {ast.dump(st)[:120]}")
    if tags != ["clear", "incr", "guard", "write", "return"] or ifnode.orelse:
        raise TranslateError(f"{where}: credential branch is not clear/incr/guard/write/return but {tags}")
    return limit, bufvar, cntvar, seen


def _targets(st):
    """names assigned by a statement"""
    if isinstance(st, ast.Assign):
        out = []
        for t in st.targets:
            out += [e.id for e in (t.elts if isinstance(t, ast.Tuple) else [t]) if isinstance(e, ast.Name)]
        return out
    if isinstance(st, (ast.AugAssign, ast.AnnAssign)) and isinstance(st.target, ast.Name):
        return [st.target.id]
    return []


def _err_branch(h, bufvar, cnt_kind, where):
    """statements of the `except ScrapliConnectionError:` body -> [ErrStmt as lean text], attempts variable"""
    out, attempts = [], None
    for st in h.body:
        if _is_call(st, "send_return"):
            out.append(".sendReturn")
        elif isinstance(st, ast.AugAssign) and isinstance(st.op, ast.Add) and isinstance(st.value, ast.Constant) and st.value.value == 1 \
                and isinstance(st.target, ast.Name) and st.target.id not in cnt_kind and st.target.id != bufvar:
            if attempts not in (None, st.target.id):
                raise TranslateError(f"{where}: two different counters bumped in the except branch")
            attempts = st.target.id
            out.append(".bumpAttempts")
        elif isinstance(st, ast.Assign) and isinstance(st.value, ast.Constant) and st.value.value == b"" and _targets(st) == [bufvar]:
            out.append(".clearBuf")
        elif isinstance(st, ast.Assign) and isinstance(st.value, ast.Constant) and st.value.value == 0 and type(st.value.value) is int \
                and _targets(st) and all(t in cnt_kind for t in _targets(st)):
            out += [f".resetCount .{cnt_kind[t]}" for t in _targets(st)]
        elif isinstance(st, ast.Continue):
            out.append(".cont")
            break
        elif isinstance(st, ast.Expr) and isinstance(st.value, ast.Constant):
            continue   # a string used as a comment
        elif isinstance(st, ast.Expr) and isinstance(st.value, ast.Call) and isinstance(st.value.func, ast.Attribute) \
                and isinstance(st.value.func.value, ast.Attribute) and st.value.func.value.attr == "logger":
            continue   # self.logger.<level>(...)
        else:
            raise TranslateError(f"{where}: unrecognised statement in the ScrapliConnectionError branch: {ast.dump(st)[:160]}")
    if not out or out[-1] != ".cont":
        raise TranslateError(f"{where}: the ScrapliConnectionError branch does not end in `continue`")
    return out, attempts


def _loop_facts_ast(rel, cls, fn):
    func = _func(_cls(rel, cls), fn)
    pvars = _pattern_vars(func, "telnet" if fn.endswith("telnet") else "ssh")
    body = _while_body(func)
    order, limits = [], {}
    handler = catches = kicks = False
    handler_pos = None
    bufvar, cnt_kind, attempts_vars = None, {}, set()
    recognised = []            # statements whose effect on the loop state is accounted for
    cred_ifs, kick_ifs, tries = [], [], []
    # pass 1: the credential blocks name the state variables
    for st in body:
        if isinstance(st, ast.If):
            tgt = _search_target(st.test, pvars)
            if tgt is not None:
                order.append(tgt)
                if tgt in KINDS:
                    lim, bv, cv, seen = _threshold(st, f"{rel}:{st.lineno}")
                    limits[tgt] = lim
                    if bufvar not in (None, bv) or cv in cnt_kind:
                        raise TranslateError(f"{rel}:{st.lineno}: credential blocks do not share one buffer / have distinct counters")
                    bufvar, cnt_kind[cv] = bv, tgt
                    recognised += seen
                    cred_ifs.append(st)
                elif tgt == "prompt":
                    if len(st.body) != 1 or not isinstance(st.body[0], ast.Return) or st.orelse:
                        raise TranslateError(f"{rel}:{st.lineno}: prompt branch is not a bare return")
                else:
                    raise TranslateError(f"{rel}:{st.lineno}: unknown pattern {tgt}")
            elif isinstance(st.test, ast.UnaryOp) and isinstance(st.test.op, ast.Not) and any(n == "send_return" for n, _ in _calls(st)):
                kick_ifs.append(st)
        elif isinstance(st, ast.Try):
            tries.append(st)
        elif isinstance(st, ast.Expr) and any(n == "_ssh_message_handler" for n, _ in _calls(st)):
            handler, handler_pos = True, len(order)
    if len(order) != 3 or order[2] != "prompt" or order[0] == order[1] or not set(order[:2]) <= set(KINDS):
        raise TranslateError(f"{rel}: {fn}: pattern tests are {order}, expected two credentials then prompt")
    if handler and handler_pos != 0:
        raise TranslateError(f"{rel}: {fn}: _ssh_message_handler is not called before the pattern tests")
    # the kick: `if not <chunk>: [now = ...]; if elapsed > interval * attempts: send_return(); attempts += 1`
    for st in kick_ifs:
        where = f"{rel}:{st.lineno}"
        inner = [x for x in st.body if isinstance(x, ast.If)]
        others = [x for x in st.body if not isinstance(x, ast.If)]
        if len(inner) != 1 or st.orelse or inner[0].orelse or not all(isinstance(x, ast.Assign) and not _is_state(x, bufvar, cnt_kind) for x in others):
            raise TranslateError(f"{where}: kick block has an unexpected shape")
        cmp = inner[0].test
        if not (isinstance(cmp, ast.Compare) and len(cmp.ops) == 1 and isinstance(cmp.ops[0], ast.Gt)
                and isinstance(cmp.comparators[0], ast.BinOp) and isinstance(cmp.comparators[0].op, ast.Mult)):
            raise TranslateError(f"{where}: kick condition is not `elapsed > interval * attempts`")
        ib = inner[0].body
        if not (len(ib) == 2 and _is_call(ib[0], "send_return") and isinstance(ib[1], ast.AugAssign) and isinstance(ib[1].op, ast.Add)
                and isinstance(ib[1].value, ast.Constant) and ib[1].value.value == 1 and isinstance(ib[1].target, ast.Name)):
            raise TranslateError(f"{where}: kick body is not send_return(); attempts += 1")
        attempts_vars.add(ib[1].target.id)
        recognised += ib
        kicks = True
    # the except branch around read()
    err_branch = []
    for st in tries:
        for h in st.handlers:
            names = [getattr(h.type, "id", None)] if not isinstance(h.type, ast.Tuple) else [getattr(e, "id", None) for e in h.type.elts]
            if "ScrapliConnectionError" in names:
                if catches:
                    raise TranslateError(f"{rel}:{h.lineno}: two ScrapliConnectionError handlers")
                err_branch, av = _err_branch(h, bufvar, cnt_kind, f"{rel}:{h.lineno}")
                if av:
                    attempts_vars.add(av)
                recognised += list(h.body)
                catches = True
    if len(attempts_vars) > 1 or attempts_vars & (set(cnt_kind) | {bufvar}):
        raise TranslateError(f"{rel}: {fn}: attempts counter not unique: {attempts_vars}")
    # the accumulation `buf += <chunk>.lower()` : exactly one, at the top level of the loop, before the tests
    acc = [st for st in body if isinstance(st, ast.AugAssign) and isinstance(st.op, ast.Add) and _targets(st) == [bufvar]]
    if len(acc) != 1 or body.index(acc[0]) > body.index(cred_ifs[0]):
        raise TranslateError(f"{rel}: {fn}: expected exactly one `{bufvar} += ...` before the pattern tests")
    recognised += acc
    # pass 2: nothing else in the loop may touch the loop state or write to the device
    state = set(cnt_kind) | {bufvar} | attempts_vars
    rec_ids = {id(x) for r in recognised for x in ast.walk(r)}
    loop = [n for n in ast.walk(func) if isinstance(n, ast.While)][0]
    for n in ast.walk(loop):
        if id(n) in rec_ids:
            continue
        if isinstance(n, (ast.Assign, ast.AugAssign, ast.AnnAssign)) and set(_targets(n)) & state:
            raise TranslateError(f"{rel}:{n.lineno}: {fn}: unaccounted assignment to loop state {sorted(set(_targets(n)) & state)}")
        if isinstance(n, ast.Call) and isinstance(n.func, ast.Attribute) and n.func.attr in ("write", "send_return"):
            raise TranslateError(f"{rel}:{n.lineno}: {fn}: unaccounted {n.func.attr}() in the login loop")
        if isinstance(n, (ast.Delete, ast.Global, ast.Nonlocal)):
            raise TranslateError(f"{rel}:{n.lineno}: {fn}: unexpected statement in the login loop")
        if isinstance(n, ast.Call) and isinstance(n.func, ast.Attribute) and isinstance(n.func.value, ast.Name) and n.func.value.id == "self" \
                and n.func.attr not in ("read", "_ssh_message_handler"):
            raise TranslateError(f"{rel}:{n.lineno}: {fn}: call of self.{n.func.attr}() inside the login loop is not modelled "
                                 "(it may keep state outside the function)")
        if isinstance(n, (ast.Assign, ast.AugAssign, ast.AnnAssign)):
            tg = n.targets if isinstance(n, ast.Assign) else [n.target]
            if any(isinstance(t, (ast.Attribute, ast.Subscript)) for t in tg):
                raise TranslateError(f"{rel}:{n.lineno}: {fn}: the login loop assigns to an attribute / item (state that outlives the call)")
    # initial values: counters 0, buffer b"", attempts as found
    attempts0 = None
    pre = [n for n in func.body if not any(isinstance(x, ast.While) for x in ast.walk(n))]
    init = {}
    for n in pre:
        if isinstance(n, ast.Assign) and isinstance(n.value, ast.Constant):
            for t in _targets(n):
                init[t] = n.value.value
    for v in cnt_kind:
        if init.get(v) != 0:
            raise TranslateError(f"{rel}: {fn}: counter {v} does not start at 0")
    if init.get(bufvar) != b"":
        raise TranslateError(f"{rel}: {fn}: buffer {bufvar} does not start empty")
    if attempts_vars:
        attempts0 = init.get(next(iter(attempts_vars)))
    return dict(order=order[:2], limits=limits, handler=handler, catches=catches, kicks=kicks, attempts0=attempts0,
                err_branch=err_branch)


# ---------------------------------------------------------------- the same facts MEASURED on the live classes
class _End(BaseException):
    """the scripted transport has nothing more: the loop would go on reading (until the timeout)"""


class _Script:
    """scripted transport: items are (bytes, clock advance before the read) or ("E", advance) = read raises ScrapliConnectionError"""

    def __init__(self, items, clock):
        from scrapli.transport.base import BaseTransportArgs
        self._base_transport_args = BaseTransportArgs(transport_options={}, host="sim", port=23, timeout_socket=1, timeout_transport=0, logging_uid="")
        self.items, self.clock, self.n, self.w = list(items), clock, 0, []

    def _next(self):
        from scrapli.exceptions import ScrapliConnectionError
        if not self.items:
            raise _End()
        data, dt = self.items.pop(0)
        self.n += 1
        self.clock.now = self.clock.START + dt
        if data == "E":
            raise ScrapliConnectionError("scripted")
        return data

    def write(self, channel_input):
        self.w.append((self.n, bytes(channel_input)))


class _SyncScript(_Script):
    def read(self):
        return self._next()


class _AsyncScript(_Script):
    async def read(self):
        return self._next()


MLIT = {"username": b"uuu", "password": b"ppp", "passphrase": b"hhh"}
MCRED = {"username": "USER", "password": "PASS", "passphrase": "PHRASE"}
MPROMPT = b"zzz"
MSG_KIND = (("username/login prompt seen", "username"), ("password prompt seen", "password"), ("passphrase prompt seen", "passphrase"))


def _drive(is_async, fn, items):
    """run the live login loop over a script: (outcome, [(read number, bytes written)]); outcome = running | done | connerror |
    fatal | ('authfailed', kind)"""
    import asyncio
    from harness import logindevice as L
    from scrapli.channel import AsyncChannel, Channel
    from scrapli.channel.base_channel import BaseChannelArgs
    from scrapli.exceptions import ScrapliAuthenticationFailed, ScrapliConnectionError
    L.install_clock()
    clock = L.FakeClock()
    t = (_AsyncScript if is_async else _SyncScript)(items, clock)
    args = BaseChannelArgs(auth_telnet_login_pattern="uuu", auth_password_pattern="ppp", auth_passphrase_pattern="hhh",
                           comms_prompt_pattern="zzz", timeout_ops=10.0 * return_divisor() / 10)
    ch = (AsyncChannel if is_async else Channel)(transport=t, base_channel_args=args)
    f = getattr(type(ch), fn).__wrapped__
    kw = dict(auth_username="USER", auth_password="PASS") if fn.endswith("telnet") else dict(auth_password="PASS", auth_private_key_passphrase="PHRASE")
    L.use_clock(clock)
    try:
        if is_async:
            asyncio.run(f(ch, **kw))
        else:
            f(ch, **kw)
        oc = "done"
    except _End:
        oc = "running"
    except ScrapliAuthenticationFailed as e:
        oc = next((("authfailed", k) for m, k in MSG_KIND if str(e).startswith(m)), "fatal")
    except ScrapliConnectionError:
        oc = "connerror"
    finally:
        L.use_clock(None)
    return oc, t.w


def _answers(w, kind):
    return [n for n, b in w if b == MCRED[kind].encode()]


def measure_loop(cls, fn):
    """the facts `_loop_facts_ast` reads off the AST, measured by driving the live loop with scripted reads.  Raises TranslateError when
    the behaviour fits no modelled shape (one loop body: [handler] -> k1 block -> k2 block -> prompt test; blocks clear / count /
    guard / write / return; optional catch of connection errors = return + attempt; optional kick)."""
    a = cls.startswith("Async")
    where = f"{cls}.{fn} (measured)"
    ret = b"\n"

    def bad(what):
        raise TranslateError(f"{where}: {what}")
    run = lambda items: _drive(a, fn, [(x, 0) if not isinstance(x, tuple) else x for x in items])
    # which credentials are answered at all; a matched prompt is answered once (buffer cleared), by the credential then a return
    tested = []
    for k in KINDS:
        oc, w = run([MLIT[k], b" "])
        if w:
            if oc != "running" or w != [(1, MCRED[k].encode()), (1, ret)]:
                bad(f"a {k} prompt followed by a blank gives {oc} {w}")
            tested.append(k)
        elif oc != "running":
            bad(f"an untested {k} prompt gives {oc}")
    if len(tested) != 2:
        bad(f"credentials answered: {tested}, expected two")
    # order of the two tests: both in one buffer -> the first one tested is answered, the second sees the cleared buffer
    oc, w = run([MLIT[tested[0]] + b" " + MLIT[tested[1]]])
    first = [k for k in tested if _answers(w, k)]
    if oc != "running" or len(first) != 1 or len(w) != 2:
        bad(f"a buffer matching both credential patterns gives {oc} {w}")
    order = [first[0], next(k for k in tested if k != first[0])]
    # the prompt: alone -> return; together with a credential prompt -> the credential is answered, the prompt test sees b""
    if run([MPROMPT]) != ("done", []):
        bad("a prompt alone does not end the login")
    for k in order:
        oc, w = run([MPROMPT + b" " + MLIT[k]])
        if oc != "running" or _answers(w, k) != [1]:
            bad(f"prompt and {k} prompt in one buffer give {oc} {w}: the prompt is not tested after the credentials on the cleared buffer")
    # thresholds: answered N times, the next sighting raises for that credential and writes nothing; counts are per credential and
    # survive the other credential's answers
    limits = {}
    for k in order:
        oc, w = run([MLIT[k]] * 7)
        n = len(_answers(w, k))
        if oc != ("authfailed", k) or _answers(w, k) != list(range(1, n + 1)) or len(w) != 2 * n:
            bad(f"repeated {k} prompts give {oc} {w}")
        limits[k] = n
    k1, k2 = order
    seq = []
    for i in range(max(limits.values()) + 1):
        seq += [MLIT[k1], MLIT[k2]]
    oc, w = run(seq)
    exp_fail = k1 if limits[k1] <= limits[k2] else k2
    if oc != ("authfailed", exp_fail) or len(_answers(w, k1)) != min(limits[k1], limits[exp_fail] + (0 if exp_fail == k1 else 1)):
        bad(f"alternating prompts give {oc} {w}: the counts are not independent per credential")
    # the ssh message handler: a fatal message ends the login before any pattern test
    oc, w = run([b"x: Permission denied (publickey). " + MLIT[k1]])
    if oc == "fatal" and not w:
        handler = True
    elif oc == "running" and _answers(w, k1) == [1]:
        handler = False
    else:
        bad(f"a fatal ssh message next to a {k1} prompt gives {oc} {w}")
    # connection error from read(): let out, or answered with a return and one more attempt, buffer and counters untouched
    oc, w = run(["E"])
    if oc == "connerror" and not w:
        catches = False
    elif oc == "running" and w == [(1, ret)]:
        catches = True
        oc, w = run([MLIT[k1][:2], "E", MLIT[k1][2:]])
        if oc != "running" or _answers(w, k1) != [3]:
            bad(f"a connection error inside a {k1} prompt gives {oc} {w}: the branch touches the buffer")
        oc, w = run([MLIT[k1]] * limits[k1] + ["E", MLIT[k1]])
        if oc != ("authfailed", k1):
            bad(f"a connection error between {k1} prompts gives {oc} {w}: the branch touches the counters")
    else:
        bad(f"a connection error from read() gives {oc} {w}")
    # the kick: an EMPTY read after more than interval * attempts (interval = 1 clock unit here) is answered with one return
    fired = [bool(run([(b"", t)])[1]) for t in (0.5, 1.0, 1.5, 2.0, 2.5, 9.0)]
    shapes = {(False, False, True, True, True, True): 1, (False, False, False, False, True, True): 2, (True,) * 6: 0}
    kicks, attempts0 = False, None
    if any(fired):
        if tuple(fired) not in shapes:
            bad(f"empty reads at 0.5 .. 2.5, 9 intervals are answered {fired}: not `elapsed > interval * attempts`")
        kicks, attempts0 = True, shapes[tuple(fired)]
        a0 = attempts0
        oc, w = run([(b"", a0 + 0.5), (b"", a0 + 0.75), (b"", a0 + 1.5), (b"x", a0 + 9.0)])
        if oc != "running" or w != [(1, ret), (3, ret)]:
            bad(f"successive empty reads give {oc} {w}: the kick is not send_return(); attempts += 1 on empty reads only")
    if catches:
        # the return sent for a connection error counts as an attempt
        a0 = attempts0 if attempts0 is not None else None
        if kicks:
            oc, w = run(["E", (b"", a0 + 0.5), (b"", a0 + 1.5)])
            if w != [(1, ret), (3, ret)]:
                bad(f"connection error then empty reads give {oc} {w}: the error branch does not bump the attempts")
        else:
            bad("a loop that answers connection errors but never kicks is not modelled")
    return dict(order=order, limits=limits, handler=handler, catches=catches, kicks=kicks, attempts0=attempts0,
                err_branch=[".sendReturn", ".bumpAttempts", ".cont"] if catches else [])


def loop_facts(rel, cls, fn):
    """AST first (and then cross-checked against the measurement); where the source no longer has the familiar shape the facts
    are MEASURED on the live class; TranslateError only when the measurement fits no modelled shape, or contradicts the AST"""
    try:
        m, merr = measure_loop(cls, fn), None
    except TranslateError as e:
        m, merr = None, e
    try:
        f = _loop_facts_ast(rel, cls, fn)
    except TranslateError as e:
        if m is None:
            raise TranslateError(f"{e}; and {merr}")
        return m
    if m is None:
        raise merr
    if not f["kicks"] and not f["catches"]:
        f = dict(f, attempts0=None)
    if f != m:
        raise TranslateError(f"{rel}: {fn}: the loop as read from the AST {f} and as measured on {cls} {m} differ")
    return _loop_facts_ast(rel, cls, fn)


def _is_state(st, bufvar, cnt_kind):
    return bool(set(_targets(st)) & (set(cnt_kind) | {bufvar}))


def _haystack_kind(r, param, aliases, where):
    """what a substring test looks into: 'raw' = the handler's argument, 'lower' = its .lower() (directly or through a local
    alias assigned once from it); anything else is not understood"""
    if isinstance(r, ast.Name):
        if r.id == param:
            return "raw"
        if r.id in aliases:
            return aliases[r.id]
        raise TranslateError(f"{where}: substring test on unknown variable {r.id!r}")
    if isinstance(r, ast.Call) and isinstance(r.func, ast.Attribute) and r.func.attr == "lower" and not r.args and not r.keywords:
        inner = _haystack_kind(r.func.value, param, aliases, where)
        return "lower" if inner in ("raw", "lower") else inner
    raise TranslateError(f"{where}: unrecognised haystack in a substring test: {ast.dump(r)[:120]}")


def _table_raises(table, output: bytes) -> bool:
    """the meaning of an extracted table (python twin of Auth.fatalMsg)"""
    low = output.lower()
    return any(needle in (low if lowered else output) for needle, lowered in table)


def _probe_handler(table, literals):
    """BEHAVIOURAL validation of the extracted table against the live `_ssh_message_handler`: for every bytes literal that occurs
    in the handler or in a same-class helper it calls (one level), in several spellings and mutilations, the real method must
    raise ScrapliAuthenticationFailed exactly when the table says so.  A table that is incomplete, has a wrong case flag or
    misses a literal tested elsewhere cannot pass this."""
    import logging
    from vlib.common import use_repo
    use_repo()
    from scrapli.channel.base_channel import BaseChannel
    from scrapli.exceptions import ScrapliAuthenticationFailed
    inst = object.__new__(BaseChannel)
    lg = logging.getLogger("verif.c09.probe")
    lg.disabled = True
    inst.logger = lg
    probes = {b"", b"x", b"login: ", b"Password:"}
    for lit in set(literals) | {n for n, _ in table}:
        for v in (lit, lit.lower(), lit.upper(), lit.title(), lit.swapcase()):
            probes |= {v, b"xx " + v + b" yy\n", v[1:], v[:-1], v[: len(v) // 2] + b"#" + v[len(v) // 2:], v.replace(b" ", b"  ")}
    for pr in sorted(probes):
        try:
            BaseChannel._ssh_message_handler(inst, output=pr)
            real = False
        except ScrapliAuthenticationFailed:
            real = True
        except Exception as e:   # the handler must not raise anything else
            raise TranslateError(f"{BASE}: _ssh_message_handler({pr!r}) raised {type(e).__name__}: {e}")
        if real != _table_raises(table, pr):
            raise TranslateError(f"{BASE}: extracted message table disagrees with the live _ssh_message_handler on {pr!r}: "
                                 f"real raises={real}, table says {not real}")
    return len(probes)


def fatal_table():
    """(needle, tested on output.lower()?) for every substring test of the if/elif chain of _ssh_message_handler.
    Structural extraction (local aliases of `output.lower()` are followed; what is not understood raises TranslateError, never a
    partial table), then behavioural validation on the live method (_probe_handler)."""
    cls = _cls(BASE, "BaseChannel")
    func = _func(cls, "_ssh_message_handler")
    params = [a.arg for a in func.args.posonlyargs + func.args.args + func.args.kwonlyargs if a.arg != "self"]
    if len(params) != 1:
        raise TranslateError(f"{BASE}: _ssh_message_handler takes {params}, expected one argument")
    param = params[0]
    body = [st for st in func.body if not (isinstance(st, ast.Expr) and isinstance(st.value, ast.Constant))]   # docstring
    chain = [st for st in body if isinstance(st, ast.If)]
    if len(chain) != 2:
        raise TranslateError(f"{BASE}: _ssh_message_handler: expected the elif chain and the final `if msg`")
    first, final = chain
    # statements before the chain: `msg = ""` and aliases `<name> = <param>.lower()`; nothing else
    aliases, msgvar = {}, None
    for st in body[: body.index(first)]:
        if isinstance(st, ast.Assign) and len(st.targets) == 1 and isinstance(st.targets[0], ast.Name):
            name = st.targets[0].id
            if isinstance(st.value, ast.Constant) and st.value.value == "":
                msgvar = name
                continue
            if name in (param, msgvar) or name in aliases:
                raise TranslateError(f"{BASE}:{st.lineno}: _ssh_message_handler reassigns {name}")
            aliases[name] = _haystack_kind(st.value, param, aliases, f"{BASE}:{st.lineno}")
            continue
        raise TranslateError(f"{BASE}:{st.lineno}: unexpected statement before the message tests of _ssh_message_handler")
    if msgvar is None:
        raise TranslateError(f"{BASE}: _ssh_message_handler does not start with an empty message")
    if any(st is not final for st in body[body.index(first) + 1:]):
        raise TranslateError(f"{BASE}: _ssh_message_handler: statements between / after the two ifs")
    if not (isinstance(final.test, ast.Name) and final.test.id == msgvar and not final.orelse
            and any(isinstance(x, ast.Raise) and isinstance(x.exc, ast.Call) and getattr(x.exc.func, "id", "") == "ScrapliAuthenticationFailed"
                    for x in final.body)):
        raise TranslateError(f"{BASE}: _ssh_message_handler does not end in `if {msgvar}: raise ScrapliAuthenticationFailed`")
    out, node = [], first
    while True:
        tests = node.test.values if isinstance(node.test, ast.BoolOp) and isinstance(node.test.op, ast.Or) else [node.test]
        for t in tests:
            if not (isinstance(t, ast.Compare) and len(t.ops) == 1 and isinstance(t.ops[0], ast.In)
                    and isinstance(t.left, ast.Constant) and isinstance(t.left.value, bytes) and t.left.value):
                raise TranslateError(f"{BASE}:{t.lineno}: unrecognised test in _ssh_message_handler")
            kind = _haystack_kind(t.comparators[0], param, aliases, f"{BASE}:{t.lineno}")
            out.append((t.left.value, kind == "lower"))
        # the branch must leave msg non-empty: first a plain assignment of something non-empty, afterwards msg may only grow;
        # no way out of the branch other than falling through
        sets = [x for x in node.body if isinstance(x, ast.Assign) and msgvar in _targets(x)]
        if not sets or sets[0] is not node.body[0] or len(sets) != 1 or (isinstance(sets[0].value, ast.Constant) and not sets[0].value.value):
            raise TranslateError(f"{BASE}:{node.lineno}: branch of _ssh_message_handler does not start by setting {msgvar} once")
        for x in node.body:
            for y in ast.walk(x):
                if isinstance(y, (ast.Return, ast.Raise, ast.Continue, ast.Break)):
                    raise TranslateError(f"{BASE}:{y.lineno}: branch of _ssh_message_handler leaves the function")
                if isinstance(y, ast.AugAssign) and msgvar in _targets(y) and not isinstance(y.op, ast.Add):
                    raise TranslateError(f"{BASE}:{y.lineno}: {msgvar} is not only appended to")
                if isinstance(y, (ast.Assign, ast.AugAssign)) and (set(_targets(y)) & ({param} | set(aliases))):
                    raise TranslateError(f"{BASE}:{y.lineno}: branch of _ssh_message_handler reassigns its input")
        if len(node.orelse) == 1 and isinstance(node.orelse[0], ast.If):
            node = node.orelse[0]
        elif not node.orelse:
            break
        else:
            raise TranslateError(f"{BASE}:{node.lineno}: else branch in _ssh_message_handler")
    if not out:
        raise TranslateError(f"{BASE}: no message test found in _ssh_message_handler")
    # literals for the probe: every bytes constant of the handler and of the same-class helpers it calls (one level deep)
    lits = [n.value for n in ast.walk(func) if isinstance(n, ast.Constant) and isinstance(n.value, bytes) and n.value]
    for name, _call in _calls(func):
        for m in cls.body:
            if isinstance(m, (ast.FunctionDef, ast.AsyncFunctionDef)) and m.name == name and m is not func:
                lits += [n.value for n in ast.walk(m) if isinstance(n, ast.Constant) and isinstance(n.value, bytes) and n.value]
    _probe_handler(out, lits)
    return out


def return_divisor():
    func = _func(_cls(BASE, "BaseChannel"), "_pre_channel_authenticate_telnet")
    for n in ast.walk(func):
        if isinstance(n, ast.Assign) and getattr(n.targets[0], "id", "") == "return_interval":
            v = n.value
            if isinstance(v, ast.BinOp) and isinstance(v.op, ast.Div) and isinstance(v.right, ast.Constant) and isinstance(v.right.value, int) \
                    and isinstance(v.left, ast.Attribute) and v.left.attr == "timeout_ops":
                return v.right.value
    raise TranslateError(f"{BASE}: return_interval = timeout_ops / N not found")


# ---------------------------------------------------------------- rendering
def _b(b: bytes) -> str:
    return "[" + ", ".join(str(x) for x in b) + "]"


def _s(s: str) -> str:
    return '"' + s.replace("\\", "\\\\").replace('"', '\\"') + '"'


def _bool(x) -> str:
    return "true" if x else "false"


def facts():
    """everything the generator extracts, as python data (also used by tools/props/c09.py)"""
    pats = {
        "login": (_dataclass_default(BASE, "BaseChannelArgs", "auth_telnet_login_pattern"), _compile_flags("auth_telnet_login_pattern")),
        "password": (_dataclass_default(BASE, "BaseChannelArgs", "auth_password_pattern"), _compile_flags("auth_password_pattern")),
        "passphrase": (_dataclass_default(BASE, "BaseChannelArgs", "auth_passphrase_pattern"), _compile_flags("auth_passphrase_pattern")),
    }
    # the second copy of each default: drivers pass "" and BaseChannelArgs.__post_init__ substitutes a fallback
    fallbacks = {}
    for name, field in (("login", "auth_telnet_login_pattern"), ("password", "auth_password_pattern"), ("passphrase", "auth_passphrase_pattern")):
        dd = _driver_default(field)
        fb = _post_init_fallback(BASE, "BaseChannelArgs", field)
        if dd == "":
            if fb is None:
                raise TranslateError(f"drivers pass {field}='' but BaseChannelArgs.__post_init__ has no fallback for it")
            eff = fb
        elif isinstance(dd, str):
            eff = dd
        else:
            raise TranslateError(f"BaseDriver default of {field} is not a string: {dd!r}")
        fallbacks[name] = (eff, pats[name][1])
    pf = _prompt_flags()
    prompts = {
        "chan": _dataclass_default(BASE, "BaseChannelArgs", "comms_prompt_pattern"),
        "generic": _param_default(GENERIC, "GenericDriver", "__init__", "comms_prompt_pattern"),
    }
    loops = {name: loop_facts(rel, cls, fn) for name, rel, cls, fn in LOOPS}
    return dict(pats=pats, fallbacks=fallbacks, prompt_flags=pf, prompts=prompts, loops=loops, fatal=fatal_table(), divisor=return_divisor())


def generate():
    f = facts()
    o = HEADER.format(src=f"{BASE}, {SYNC}, {ASYNC}, {GENERIC} (tools/gen/c09.py)")
    o += "import ScrapliModel.AuthPat\nnamespace Scrapli.Gen.Auth\nopen Scrapli Scrapli.Auth\n\n"
    for name in ("login", "password", "passphrase"):
        src, flags = f["pats"][name]
        o += f"def {name}PatternSrc : String := {_s(src)}\n"
        o += f"def {name}Branches : List Branch := [\n"
        rows = []
        for bol, dot, needle, tail in cred_branches(src, flags):
            rows.append(f"  ⟨{_bool(bol)}, {_bool(dot)}, {_b(needle)}, {_bool(tail)}⟩  -- {needle.decode('latin-1')!r}")
        o += ",\n".join(r.split("  --")[0] for r in rows[:-1])
        if len(rows) > 1:
            o += ",\n"
        o += rows[-1].split("  --")[0] + "]\n"
        o += "".join(f"-- {r.split('  -- ')[1]}\n" for r in rows)
    o += "\n-- the patterns in effect for a channel built by a driver (drivers pass \"\"; BaseChannelArgs.__post_init__ fallback)\n"
    for name in ("login", "password", "passphrase"):
        src, flags = f["fallbacks"][name]
        o += f"def {name}DriverSrc : String := {_s(src)}\n"
        o += f"def {name}DriverBranches : List Branch := [\n" + ",\n".join(
            f"  ⟨{_bool(bol)}, {_bool(dot)}, {_b(needle)}, {_bool(tail)}⟩" for bol, dot, needle, tail in cred_branches(src, flags)) + "]\n"
    for name in ("chan", "generic"):
        src = f["prompts"][name]
        head, lo, hi, last, trail = prompt_pat(src, f["prompt_flags"])
        o += f"def {name}PromptSrc : String := {_s(src)}\n"
        o += f"def {name}Prompt : PromptPat := ⟨{_b(head)}, {lo}, {hi}, {_b(last)}, {trail}⟩\n"
    o += "\n-- substring tests of _ssh_message_handler: (needle, haystack is output.lower())\n"
    o += "def fatalTable : List (Bytes × Bool) := [\n" + ",\n".join(
        f"  ({_b(n)}, {_bool(l)})" for n, l in f["fatal"]) + "]\n"
    o += "".join(f"-- {n.decode('latin-1')!r}\n" for n, _ in f["fatal"])
    o += "\ndef limitOf : Loop → Kind → Nat\n"
    for name, lf in f["loops"].items():
        for k in lf["order"]:
            o += f"  | .{name}, .{k} => {lf['limits'][k]}\n"
    o += "  | _, _ => 0\n"
    o += "\ndef orderOf : Loop → Kind × Kind\n"
    for name, lf in f["loops"].items():
        o += f"  | .{name} => (.{lf['order'][0]}, .{lf['order'][1]})\n"
    for key, field in (("hasHandler", "handler"), ("catchesConnErr", "catches"), ("kicksOnEmpty", "kicks")):
        o += f"\ndef {key} : Loop → Bool\n"
        for name, lf in f["loops"].items():
            o += f"  | .{name} => {_bool(lf[field])}\n"
    o += "\n-- statements of the `except ScrapliConnectionError:` branch around read() (empty: no such branch)\n"
    o += "def connErrBranch : Loop → List ErrStmt\n"
    for name, lf in f["loops"].items():
        o += f"  | .{name} => [{', '.join(lf['err_branch'])}]\n"
    a0 = {lf["attempts0"] for lf in f["loops"].values() if lf["kicks"] or lf["catches"]}
    if len(a0) != 1 or not isinstance(next(iter(a0)), int):
        raise TranslateError(f"initial return_attempts not unique: {a0}")
    o += f"\ndef attempts0 : Nat := {a0.pop()}\n"
    o += f"def returnDivisor : Nat := {f['divisor']}\n"
    o += "end Scrapli.Gen.Auth\n"
    return [("ScrapliModel/Gen/AuthConsts.lean", o)]


if __name__ == "__main__":
    import sys
    sys.stdout.write(generate()[0][1])
