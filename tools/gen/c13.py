"""translator piece for C13: everything that is *data* in the send_command(s)/send_config(s) machinery.

Regenerated from /repo's working tree (AST only, nothing is imported from scrapli):
  * the five FAILED_WHEN_CONTAINS lists (core/<platform>/base_driver.py)
  * the abort plan of every platform, sync and asyncio, from the AST of each `_abort_config`
    (statement shapes are recognised exactly; anything else raises TranslateError)
  * the guard of the EOS / NX-OS abort (`"config\\-s" in self._current_priv_level.pattern`), the default
    privilege level patterns of both platforms and the literal parts of their session pattern templates
  * default `comms_return_char` of every driver constructor (must agree)
  * defaults of stop_on_failed / eager / eager_input / privilege_level / failed_when_contains in the public
    signatures of all send_* methods of the four generic/network driver classes (must agree)
  * the level `send_configs` resolves an empty privilege_level to (`_pre_send_configs`)
  * CPython's str.splitlines() separator set, probed from the running interpreter
  * control-structure SHAPE assertions (raise TranslateError when the hand-modelled control flow changes):
    send_commands loop (measured BEHAVIOURALLY on the live classes with a stub `self`: decision table for every list of
    length <= 4 x failure pattern x stop_on_failed x eager), abort step of send_configs, statement order of _pre_send_configs,
    write-then-return of send_input, acquire-first wrappers of NetworkDriver, splitlines in file / send_config paths
"""
import ast

from translate import HEADER, REPO, TranslateError, _parse

PLATFORMS = ["cisco_iosxe", "cisco_iosxr", "cisco_nxos", "arista_eos", "juniper_junos"]
SHORT = {"cisco_iosxe": "iosxe", "cisco_iosxr": "iosxr", "cisco_nxos": "nxos", "arista_eos": "eos", "juniper_junos": "junos"}
DRIVER_CLASS = {"cisco_iosxe": "IOSXEDriver", "cisco_iosxr": "IOSXRDriver", "cisco_nxos": "NXOSDriver",
                "arista_eos": "EOSDriver", "juniper_junos": "JunosDriver"}


# ---------- Lean literal helpers
def lchar(c: str) -> str:
    o = ord(c)
    if 0xD800 <= o <= 0xDFFF:
        raise TranslateError(f"surrogate U+{o:04X} cannot be a Lean Char")
    if 32 <= o < 127 and c not in "'\\":
        return f"'{c}'"
    return f"Char.ofNat {o}"


def lstr(s: str) -> str:
    """a Python str as a Lean `List Char` term"""
    if not isinstance(s, str):
        raise TranslateError(f"expected str, got {s!r}")
    return "[" + ", ".join(lchar(c) for c in s) + "]"


def lstrs(l) -> str:
    return "[" + ", ".join(lstr(s) for s in l) + "]"


def _cmt(s) -> str:
    return repr(s).replace("-/", "- /").replace("/-", "/ -")


# ---------- AST helpers
def _class(rel, name):
    for node in _parse(rel).body:
        if isinstance(node, ast.ClassDef) and node.name == name:
            return node
    raise TranslateError(f"{rel}: class {name} not found")


def _method(rel, cls, name, required=True):
    for n in _class(rel, cls).body:
        if isinstance(n, (ast.FunctionDef, ast.AsyncFunctionDef)) and n.name == name:
            return n
    if required:
        raise TranslateError(f"{rel}: {cls}.{name} not found")
    return None


def _body(fn):
    """statements of a function without the docstring / bare `pass`"""
    out = []
    for i, st in enumerate(fn.body):
        if i == 0 and isinstance(st, ast.Expr) and isinstance(st.value, ast.Constant) and isinstance(st.value.value, str):
            continue
        if isinstance(st, ast.Pass):
            continue
        out.append(st)
    return out


def _defaults(fn):
    """parameter name -> literal default (positional-or-keyword and keyword-only)"""
    a = fn.args
    out = {}
    pos = a.posonlyargs + a.args
    for arg, d in zip(pos[len(pos) - len(a.defaults):], a.defaults):
        out[arg.arg] = d
    for arg, d in zip(a.kwonlyargs, a.kw_defaults):
        if d is not None:
            out[arg.arg] = d
    res = {}
    for k, d in out.items():
        try:
            res[k] = ast.literal_eval(d)
        except Exception:
            res[k] = ("<non-literal>", ast.dump(d))
    return res


def _unawait(e):
    return e.value if isinstance(e, ast.Await) else e


def _is_self_attr(e, *path):
    """e is self.<path[0]>.<path[1]>..."""
    for p in reversed(path):
        if not (isinstance(e, ast.Attribute) and e.attr == p):
            return False
        e = e.value
    return isinstance(e, ast.Name) and e.id == "self"


def _const_str(e, what):
    if isinstance(e, ast.Constant) and isinstance(e.value, str):
        return e.value
    raise TranslateError(f"{what}: expected a string literal, got {ast.dump(e)}")


# ---------- abort plans
def _send_input_stmt(st, where):
    """`[await] self.channel.send_input(channel_input=<str>)` -> str | None"""
    if not isinstance(st, ast.Expr):
        return None
    c = _unawait(st.value)
    if not (isinstance(c, ast.Call) and _is_self_attr(c.func, "channel", "send_input")):
        return None
    if c.args and len(c.args) == 1 and not c.keywords:
        return _const_str(c.args[0], where)
    if not c.args and len(c.keywords) == 1 and c.keywords[0].arg == "channel_input":
        return _const_str(c.keywords[0].value, where)
    raise TranslateError(f"{where}: send_input call with unexpected arguments: {ast.dump(c)}")


def _belief_stmt(st, where):
    """`self._current_priv_level = self.privilege_levels[<str>]` -> str | None"""
    if isinstance(st, ast.Assign) and len(st.targets) == 1 and _is_self_attr(st.targets[0], "_current_priv_level"):
        v = st.value
        if isinstance(v, ast.Subscript) and _is_self_attr(v.value, "privilege_levels"):
            return _const_str(v.slice, where)
        raise TranslateError(f"{where}: unexpected assignment to _current_priv_level: {ast.dump(v)}")
    return None


def _direct(stmts, where):
    """send_input* ; belief assignment"""
    cmds, belief = [], None
    for st in stmts:
        c = _send_input_stmt(st, where)
        if c is not None:
            if belief is not None:
                raise TranslateError(f"{where}: send_input after the belief assignment")
            cmds.append(c)
            continue
        b = _belief_stmt(st, where)
        if b is not None and belief is None:
            belief = b
            continue
        raise TranslateError(f"{where}: statement shape not recognised: {ast.dump(st)}")
    if not cmds or belief is None:
        raise TranslateError(f"{where}: expected send_input call(s) followed by a belief assignment")
    return cmds, belief


def _level_arg(stmts, call, where):
    """how the inner send_configs call chooses privilege_level.  Recognised:
       (a) no keyword                                         -> ("default",)
       (b) privilege_level=self._current_priv_level.name      -> ("current",)
       (c) <v> = self._current_priv_level.name
           if not <v>.startswith(<str>): <v> = ""
           ... privilege_level=<v>                            -> ("currentIfPrefix", <str>)"""
    kws = {k.arg: k.value for k in call.keywords}
    if set(kws) - {"privilege_level", "configs"}:
        raise TranslateError(f"{where}: inner send_configs passes unexpected keywords {sorted(kws)}")
    if "privilege_level" not in kws:
        if stmts:
            raise TranslateError(f"{where}: statements before send_configs not recognised: {[ast.dump(s) for s in stmts]}")
        return ("default",)
    v = kws["privilege_level"]
    if _is_self_attr(v, "_current_priv_level", "name") and not stmts:
        return ("current",)
    if isinstance(v, ast.Name) and len(stmts) == 2:
        a, g = stmts
        ok_a = (isinstance(a, ast.Assign) and len(a.targets) == 1 and isinstance(a.targets[0], ast.Name)
                and a.targets[0].id == v.id and _is_self_attr(a.value, "_current_priv_level", "name"))
        if ok_a and isinstance(g, ast.If) and not g.orelse and len(g.body) == 1:
            t = g.test
            if (isinstance(t, ast.UnaryOp) and isinstance(t.op, ast.Not) and isinstance(t.operand, ast.Call)
                    and isinstance(t.operand.func, ast.Attribute) and t.operand.func.attr == "startswith"
                    and isinstance(t.operand.func.value, ast.Name) and t.operand.func.value.id == v.id
                    and len(t.operand.args) == 1 and not t.operand.keywords):
                b = g.body[0]
                if (isinstance(b, ast.Assign) and len(b.targets) == 1 and isinstance(b.targets[0], ast.Name)
                        and b.targets[0].id == v.id and isinstance(b.value, ast.Constant) and b.value.value == ""):
                    return ("currentIfPrefix", _const_str(t.operand.args[0], where))
    raise TranslateError(f"{where}: privilege_level argument of the inner send_configs not recognised")


def abort_plan(rel, cls):
    """-> Lean term of type AbortPlan"""
    where = f"{rel}:{cls}._abort_config"
    fn = _method(rel, cls, "_abort_config", required=False)
    if fn is None:
        # inherited from (Async)NetworkDriver: must be the empty method there
        base_rel = "scrapli/driver/network/async_driver.py" if cls.startswith("Async") else "scrapli/driver/network/sync_driver.py"
        base_cls = "AsyncNetworkDriver" if cls.startswith("Async") else "NetworkDriver"
        if _body(_method(base_rel, base_cls, "_abort_config")):
            raise TranslateError(f"{base_rel}: {base_cls}._abort_config is no longer empty")
        return ".nothing"
    stmts = _body(fn)
    if not stmts:
        return ".nothing"
    # guarded direct abort (EOS / NX-OS)
    if len(stmts) == 1 and isinstance(stmts[0], ast.If) and not stmts[0].orelse:
        t = stmts[0].test
        if (isinstance(t, ast.Compare) and len(t.ops) == 1 and isinstance(t.ops[0], ast.In)
                and _is_self_attr(t.comparators[0], "_current_priv_level", "pattern")):
            marker = _const_str(t.left, where)
            cmds, belief = _direct(stmts[0].body, where)
            return f".direct (some {lstr(marker)}) {lstrs(cmds)} {lstr(belief)}"
        raise TranslateError(f"{where}: guard not recognised: {ast.dump(t)}")
    # inner send_configs (Junos)
    for i, st in enumerate(stmts):
        if isinstance(st, ast.Expr):
            c = _unawait(st.value)
            if isinstance(c, ast.Call) and _is_self_attr(c.func, "send_configs"):
                if len(c.args) == 1:
                    lst = c.args[0]
                elif not c.args:
                    lst = next((k.value for k in c.keywords if k.arg == "configs"), None)
                else:
                    lst = None
                if not isinstance(lst, ast.List):
                    raise TranslateError(f"{where}: inner send_configs without a literal list")
                cmds = [_const_str(e, where) for e in lst.elts]
                if not cmds:
                    raise TranslateError(f"{where}: inner send_configs with an empty list")
                lvl = _level_arg(stmts[:i], c, where)
                rest = stmts[i + 1:]
                if len(rest) != 1 or _belief_stmt(rest[0], where) is None:
                    raise TranslateError(f"{where}: expected exactly the belief assignment after send_configs")
                belief = _belief_stmt(rest[0], where)
                larg = {"default": ".default", "current": ".current"}.get(lvl[0]) or f"(.currentIfPrefix {lstr(lvl[1])})"
                return f".viaSendConfigs {lstrs(cmds)} {larg} {lstr(belief)}"
    # plain direct abort (IOS-XR)
    cmds, belief = _direct(stmts, where)
    return f".direct none {lstrs(cmds)} {lstr(belief)}"


# ---------- the same plan MEASURED on the live class (both stacks): what `_abort_config` writes and which level the
# driver believes afterwards, from every configuration level / pattern.  The AST reading above is shape-dependent; this
# is not.  generate(): AST readable -> both must agree; AST unreadable -> the measured plan is used (a rewrite of the
# method that keeps its behaviour does not stop the check); behaviour not expressible as an AbortPlan -> TranslateError
# that says what was measured (the real-code families of props/c13.py run regardless).
def _probe_abort(module, cls, name, pattern):
    import asyncio, inspect
    live = _live_class(module, cls)

    class Lvl:
        def __init__(self, n, pt):
            self.name, self.pattern = n, pt

    class Levels(dict):
        def __missing__(self, k):
            return Lvl(k, "")

    rec = {"sent": [], "inner": None}
    is_async = inspect.iscoroutinefunction(live._abort_config)

    def send_input(*a, **kw):
        rec["sent"].append(a[0] if a else kw.get("channel_input"))
        return (b"", b"")

    def send_configs(*a, **kw):
        cfgs = a[0] if a else kw.get("configs")
        rec["inner"] = (list(cfgs), {k: v for k, v in kw.items() if k != "configs"})
        return None

    def lift(f):
        if not is_async:
            return f
        async def g(*a, **kw):
            return f(*a, **kw)
        return g

    class Chan:
        pass

    class Stub:
        pass

    st = Stub()
    st.channel = Chan()
    st.channel.send_input = lift(send_input)
    st.send_configs = lift(send_configs)
    st.privilege_levels = Levels()
    start = Lvl(name, pattern)
    st._current_priv_level = start
    try:
        r = live._abort_config(st)
        if inspect.iscoroutine(r):
            asyncio.run(r)
    except Exception as e:  # noqa
        raise TranslateError(f"{module}.{cls}._abort_config cannot be probed on a stub: {e!r}")
    after = st._current_priv_level
    return rec["sent"], rec["inner"], (None if after is start else after.name)


def behaviour_plan(rel, cls):
    """-> Lean term of type AbortPlan derived from the measured behaviour only"""
    module = rel[:-3].replace("/", ".")
    where = f"{rel}:{cls}._abort_config (measured on the live class)"
    fn = _method(rel, cls, "_abort_config", required=False)
    consts = sorted({n.value for n in ast.walk(fn) if isinstance(n, ast.Constant) and isinstance(n.value, str)}) if fn is not None else []
    if fn is not None and ast.get_docstring(fn) in consts:
        consts.remove(ast.get_docstring(fn))
    names = ["configuration", "configuration_exclusive", "configuration_private", "exec", "privilege_exec"]
    probes = [(n, pt, *_probe_abort(module, cls, n, pt)) for n in names for pt in [""] + consts]
    if all(not sent and inner is None and after is None for _, _, sent, inner, after in probes):
        return ".nothing"
    if any(inner is not None for _, _, _, inner, _ in probes):
        inners = [inner for _, _, _, inner, _ in probes]
        if any(i is None for i in inners) or any(sent for _, _, sent, _, _ in probes) or len({tuple(i[0]) for i in inners}) != 1:
            raise TranslateError(f"{where}: inner send_configs is not used uniformly: {probes[:3]!r}")
        afters = {after for _, _, _, _, after in probes}
        if len(afters) != 1 or None in afters:
            raise TranslateError(f"{where}: privilege level believed after the inner send_configs is {sorted(map(str, afters))}, not one fixed level")
        kws = [(n, i[1]) for n, _, _, i, _ in probes]
        if any(set(k) - {"privilege_level"} for _, k in kws):
            raise TranslateError(f"{where}: inner send_configs passes unexpected keywords")
        if all("privilege_level" not in k for _, k in kws):
            larg = ".default"
        elif all(k.get("privilege_level") == n for n, k in kws):
            larg = ".current"
        else:
            pre = [c for c in consts if all(k.get("privilege_level") == (n if n.startswith(c) else "") for n, k in kws)]
            if len(pre) != 1:
                raise TranslateError(f"{where}: privilege_level of the inner send_configs not expressible: {kws!r}")
            larg = f"(.currentIfPrefix {lstr(pre[0])})"
        return f".viaSendConfigs {lstrs(inners[0][0])} {larg} {lstr(afters.pop())}"
    sending = [pr for pr in probes if pr[2]]
    quiet = [pr for pr in probes if not pr[2]]
    if len({tuple(pr[2]) for pr in sending}) != 1:
        raise TranslateError(f"{where}: lines written differ between levels: {[(pr[0], pr[2]) for pr in sending][:4]!r}")
    afters = {pr[4] for pr in sending}
    if len(afters) != 1 or None in afters:
        raise TranslateError(f"{where}: after writing {sending[0][2]!r} the driver's privilege level is "
                             f"{sorted('unchanged' if a is None else a for a in afters)}, not reset to one fixed level")
    if any(pr[4] is not None for pr in quiet):
        raise TranslateError(f"{where}: privilege level changed without an abort line being written")
    if not quiet:
        guard = "none"
    else:
        ms = [c for c in consts if all((c in pr[1]) == bool(pr[2]) for pr in probes)]
        if len(ms) != 1:
            raise TranslateError(f"{where}: condition under which {sending[0][2]!r} is written not expressible as one marker in the level pattern")
        guard = f"(some {lstr(ms[0])})"
    return f".direct {guard} {lstrs(sending[0][2])} {lstr(afters.pop())}"


def tolerant_abort_plan(rel, cls):
    try:
        a = abort_plan(rel, cls)
    except TranslateError:
        a = None
    m = behaviour_plan(rel, cls)
    if a is not None and a != m:
        raise TranslateError(f"{rel}:{cls}._abort_config: read from the AST as {a} but the live class behaves as {m}")
    return m


# ---------- control-structure shape assertions (the model's control flow is hand-written; these make the
# translator notice when the code's structure stops being the one that was modelled)
def _unp(node):
    return ast.unparse(node).replace("await ", "")


def _calls(node, pred):
    return [n for n in ast.walk(node) if isinstance(n, ast.Call) and pred(n)]


def _kw(call):
    return {k.arg: _unp(k.value) for k in call.keywords}


def _live_class(module, cls):
    """the class object from the tree being checked (REPO first on sys.path; refuse any other origin)"""
    import importlib, sys
    from pathlib import Path
    if "scrapli" not in sys.modules and str(REPO) not in sys.path:
        sys.path.insert(0, str(REPO))
    mod = importlib.import_module(module)
    if Path(mod.__file__).resolve() != (REPO / (module.replace(".", "/") + ".py")).resolve():
        raise TranslateError(f"cannot probe {module}: imported from {mod.__file__}, not from {REPO}")
    return getattr(mod, cls)


def _model_loop(n, failing, stop, eager):
    """what Send.lean `genericSendCommands` does with commands 0..n-1: [(index, eager flag)] sent, outcome"""
    if n == 0:
        return [], "IndexError"
    sent = []
    for i in range(n - 1):
        sent.append((i, eager))
        if stop and i in failing:
            return sent, "ok"
    sent.append((n - 1, False))
    return sent, "ok"


def shape_send_commands(rel, cls):
    """BEHAVIOURAL probe (robust against rewrites of the loop): the real `send_commands` is run on a stub `self`
    whose `_send_command` records its arguments and returns scripted failed flags — every list length 0..4, every
    failure pattern, both stop_on_failed, both eager.  The measured table (which commands, in which order, with
    which eager flag; which responses are returned; IndexError on the empty list; keyword pass-through; the caller's
    list untouched) must be the one Send.lean `loop` / `genericSendCommands` was written from."""
    import asyncio, itertools
    where = f"{rel}:{cls}.send_commands"
    module = rel[:-3].replace("/", ".")
    klass = _live_class(module, cls)
    fn = klass.__dict__.get("send_commands")
    if fn is None:
        raise TranslateError(f"{where}: not defined on the class")
    is_async = asyncio.iscoroutinefunction(fn)
    base = _live_class("scrapli.driver.generic.base_driver", "BaseGenericDriver")
    sentinel_fwc, sentinel_to = ["MARK"], 12.5

    class R:
        def __init__(self, i, failed):
            self.i, self.failed = i, failed

    for n in range(0, 5):
        for mask in itertools.product((False, True), repeat=n):
            failing = {i for i, f in enumerate(mask) if f}
            for stop in (False, True):
                for eager in (False, True):
                    calls = []

                    def rec(**kw):
                        calls.append(kw)
                        return R(kw.get("command"), kw.get("command") in failing)

                    class Stub:
                        _pre_send_commands = staticmethod(base._pre_send_commands)
                        if is_async:
                            async def _send_command(self, *a, **kw):
                                if a:
                                    raise TranslateError(f"{where}: _send_command called with positional arguments")
                                return rec(**kw)
                        else:
                            def _send_command(self, *a, **kw):
                                if a:
                                    raise TranslateError(f"{where}: _send_command called with positional arguments")
                                return rec(**kw)

                    commands = list(range(n))          # opaque tokens: the method must only pass them on
                    outcome, res = "ok", None
                    try:
                        r = fn(Stub(), commands, strip_prompt=False, failed_when_contains=sentinel_fwc, stop_on_failed=stop, eager=eager,
                               eager_input=True, timeout_ops=sentinel_to)
                        res = asyncio.run(r) if is_async else r
                    except IndexError:
                        outcome = "IndexError"
                    except TranslateError:
                        raise
                    except Exception as e:
                        raise TranslateError(f"{where}: probe n={n} failing={sorted(failing)} stop={stop} eager={eager} raised {e!r}")
                    want_sent, want_outcome = _model_loop(n, failing, stop, eager)
                    got_sent = [(kw.get("command"), kw.get("eager")) for kw in calls]
                    ctx = f"n={n} failing={sorted(failing)} stop_on_failed={stop} eager={eager}"
                    if got_sent != want_sent or outcome != want_outcome:
                        raise TranslateError(f"{where}: behaviour differs from the modelled loop for {ctx}: sent {got_sent} / {outcome}, model {want_sent} / {want_outcome}")
                    if commands != list(range(n)):
                        raise TranslateError(f"{where}: the caller's list is modified ({ctx}): {commands}")
                    for kw in calls:
                        if kw.get("failed_when_contains") is not sentinel_fwc or kw.get("eager_input") is not True or kw.get("strip_prompt") is not False \
                                or kw.get("timeout_ops") != sentinel_to or set(kw) != {"command", "strip_prompt", "failed_when_contains", "timeout_ops", "eager", "eager_input"}:
                            raise TranslateError(f"{where}: keyword arguments are not passed through unchanged ({ctx}): {sorted(kw)}")
                    if outcome == "ok":
                        try:
                            got_resps = [x.i for x in res]
                        except Exception as e:
                            raise TranslateError(f"{where}: result is not a sequence of the responses: {e!r}")
                        if got_resps != [i for i, _ in want_sent]:
                            raise TranslateError(f"{where}: responses returned {got_resps}, commands sent {[i for i, _ in want_sent]} ({ctx})")
    return True


def shape_send_configs(rel, cls):
    """_pre_send_configs → acquire if belief != level → super().send_commands(commands=configs, stop/eager/markers
    forwarded) → `if stop_on_failed and responses.failed: self._abort_config()` → return"""
    where = f"{rel}:{cls}.send_configs"
    fn = _method(rel, cls, "send_configs")
    stmts = _body(fn)
    text = [_unp(st) for st in stmts]
    def find(pred, what):
        idx = [i for i, t in enumerate(text) if pred(t)]
        if len(idx) != 1:
            raise TranslateError(f"{where}: expected exactly one statement '{what}', found {len(idx)}")
        return idx[0]
    i_pre = find(lambda t: "self._pre_send_configs(" in t, "_pre_send_configs")
    i_acq = find(lambda t: t.startswith("if self._current_priv_level.name != resolved_privilege_level:") and "self.acquire_priv(desired_priv=resolved_privilege_level)" in t, "conditional acquire_priv")
    i_send = find(lambda t: "super().send_commands(" in t, "super().send_commands")
    i_ab = find(lambda t: "_abort_config" in t, "_abort_config")
    i_ret = find(lambda t: t.startswith("return "), "return")
    if not (i_pre < i_acq < i_send < i_ab < i_ret) or len(stmts) != 5:
        raise TranslateError(f"{where}: statement order / count changed: {[t[:50] for t in text]}")
    ab = stmts[i_ab]
    if not (isinstance(ab, ast.If) and not ab.orelse and len(ab.body) == 1 and _unp(ab.body[0]) == "self._abort_config()"
            and _unp(ab.test) in ("stop_on_failed and responses.failed", "responses.failed and stop_on_failed")):
        raise TranslateError(f"{where}: abort step is `{text[i_ab][:120]}`")
    send = _calls(stmts[i_send], lambda c: isinstance(c.func, ast.Attribute) and c.func.attr == "send_commands")[0]
    kw = _kw(send)
    want = {"commands": "configs", "failed_when_contains": "failed_when_contains", "stop_on_failed": "stop_on_failed", "eager": "eager",
            "eager_input": "eager_input"}
    for k, v in want.items():
        if kw.get(k) != v:
            raise TranslateError(f"{where}: super().send_commands gets {k}={kw.get(k)}")
    if "_abort_config" in _unp(_method("scrapli/driver/network/base_driver.py", "BaseNetworkDriver", "_post_send_configs")):
        raise TranslateError("_post_send_configs now calls _abort_config")
    return True


def shape_pre_send_configs():
    """order of `_pre_send_configs`: type check, generic-mode check, marker resolution (None / str / else), level
    validation / default, return"""
    where = "BaseNetworkDriver._pre_send_configs"
    fn = _method("scrapli/driver/network/base_driver.py", "BaseNetworkDriver", "_pre_send_configs")
    text = [_unp(st) for st in _body(fn)]
    keys = ["if not isinstance(configs, list):", "if self._generic_driver_mode is True:", "if failed_when_contains is None:",
            "if privilege_level:", "return (resolved_privilege_level, final_failed_when_contains)"]
    if len(text) != len(keys) or any(not t.startswith(k) for t, k in zip(text, keys)):
        raise TranslateError(f"{where}: statements are {[t.splitlines()[0] for t in text]}")
    f = text[2]
    for frag in ("final_failed_when_contains = self.failed_when_contains", "elif isinstance(failed_when_contains, str):",
                 "final_failed_when_contains = [failed_when_contains]", "else:\n    final_failed_when_contains = failed_when_contains"):
        if frag not in f:
            raise TranslateError(f"{where}: marker resolution lacks `{frag}`")
    if "raise ScrapliPrivilegeError" not in text[1] or "_validate_privilege_level_name(privilege_level_name=privilege_level)" not in text[3]:
        raise TranslateError(f"{where}: generic-mode / level validation changed")
    return True


def shape_send_input(rel, cls):
    """inside the channel lock: exactly one write of the input, then exactly one send_return; send_return writes
    the return char once"""
    where = f"{rel}:{cls}.send_input"
    fn = _method(rel, cls, "send_input")
    withs = [n for n in ast.walk(fn) if isinstance(n, (ast.With, ast.AsyncWith)) and "_channel_lock" in _unp(n.items[0].context_expr)]
    if len(withs) != 1:
        raise TranslateError(f"{where}: expected one channel-lock block")
    w = _calls(fn, lambda c: _is_self_attr(c.func, "write"))
    r = _calls(fn, lambda c: _is_self_attr(c.func, "send_return"))
    wi = _calls(withs[0], lambda c: _is_self_attr(c.func, "write"))
    ri = _calls(withs[0], lambda c: _is_self_attr(c.func, "send_return"))
    if len(w) != 1 or len(r) != 1 or len(wi) != 1 or len(ri) != 1:
        raise TranslateError(f"{where}: {len(w)} write / {len(r)} send_return calls")
    if _kw(w[0]) != {"channel_input": "channel_input"} or w[0].args or r[0].args or r[0].keywords:
        raise TranslateError(f"{where}: write/send_return arguments changed")
    top = withs[0].body
    iw = next(i for i, st in enumerate(top) if w[0] in list(ast.walk(st)))
    ir = next(i for i, st in enumerate(top) if r[0] in list(ast.walk(st)))
    if not (iw < ir) or not isinstance(top[iw], ast.Expr) or not isinstance(top[ir], ast.Expr):
        raise TranslateError(f"{where}: the input is no longer written unconditionally before the return")
    sr = _method("scrapli/channel/base_channel.py", "BaseChannel", "send_return")
    if [_unp(st) for st in _body(sr)] != ["self.write(channel_input=self._base_channel_args.comms_return_char)"]:
        raise TranslateError("BaseChannel.send_return no longer writes comms_return_char once")
    wr = _method("scrapli/channel/base_channel.py", "BaseChannel", "write")
    if _unp(_body(wr)[-1]) != "self.transport.write(channel_input=channel_input.encode())":
        raise TranslateError("BaseChannel.write no longer ends in transport.write(channel_input.encode())")
    return True


def shape_network_wrappers(rel, cls):
    """NetworkDriver.send_command(s) / *_from_file: acquire the default level first, default the markers, delegate"""
    for m, inner in (("send_command", "send_command"), ("send_commands", "send_commands"), ("send_commands_from_file", "send_commands_from_file")):
        where = f"{rel}:{cls}.{m}"
        text = [_unp(st) for st in _body(_method(rel, cls, m))]
        if not text or text[0] != "self._acquire_appropriate_privilege_level()":
            raise TranslateError(f"{where}: does not start with _acquire_appropriate_privilege_level()")
        if len(text) < 3 or text[1] != "if failed_when_contains is None:\n    failed_when_contains = self.failed_when_contains":
            raise TranslateError(f"{where}: marker defaulting changed")
        if sum(f"super().{inner}(" in t for t in text) != 1:
            raise TranslateError(f"{where}: does not delegate to super().{inner} exactly once")
    text = [_unp(st) for st in _body(_method(rel, cls, "send_config"))]
    if len(text) != 3 or "self._pre_send_config(config=config)" not in text[0] or "self.send_configs(" not in text[1] \
            or "configs=split_config" not in text[1] or text[2] != "return self._post_send_config(config=config, multi_response=multi_response)":
        raise TranslateError(f"{rel}:{cls}.send_config: shape changed")
    text = [_unp(st) for st in _body(_method(rel, cls, "send_configs_from_file"))]
    if len(text) != 2 or "self._pre_send_from_file(file=file" not in text[0] or "return self.send_configs(" not in text[1] or "configs=configs" not in text[1]:
        raise TranslateError(f"{rel}:{cls}.send_configs_from_file: shape changed")
    return True


def control_shapes():
    out = {}
    for stack, cls in (("sync", "GenericDriver"), ("async", "AsyncGenericDriver")):
        out[f"loopBreakElse{stack.capitalize()}"] = shape_send_commands(f"scrapli/driver/generic/{stack}_driver.py", cls)
    for stack, cls in (("sync", "NetworkDriver"), ("async", "AsyncNetworkDriver")):
        out[f"abortAfterLoop{stack.capitalize()}"] = shape_send_configs(f"scrapli/driver/network/{stack}_driver.py", cls)
        out[f"networkWrappers{stack.capitalize()}"] = shape_network_wrappers(f"scrapli/driver/network/{stack}_driver.py", cls)
    out["preSendConfigsOrder"] = shape_pre_send_configs()
    for stack, cls in (("sync", "Channel"), ("async", "AsyncChannel")):
        out[f"writeThenReturn{stack.capitalize()}"] = shape_send_input(f"scrapli/channel/{stack}_channel.py", cls)
    fn = _method("scrapli/driver/generic/base_driver.py", "BaseGenericDriver", "_pre_send_from_file")
    if "commands = f.read().splitlines()" not in _unp(fn) or "open(resolved_file, encoding='utf-8')" not in _unp(fn):
        raise TranslateError("_pre_send_from_file no longer reads the file in text mode and splits with splitlines()")
    out["fileReadSplitlines"] = True
    fn = _method("scrapli/driver/network/base_driver.py", "BaseNetworkDriver", "_pre_send_config")
    if "split_config = config.splitlines()" not in _unp(fn):
        raise TranslateError("_pre_send_config no longer uses splitlines()")
    out["configSplitlines"] = True
    return out


# ---------- module level tables
def _module_value(rel, name):
    for node in _parse(rel).body:
        if isinstance(node, ast.Assign) and len(node.targets) == 1 and isinstance(node.targets[0], ast.Name) and node.targets[0].id == name:
            return node.value
    raise TranslateError(f"{rel}: {name} not found")


def fwc_list(platform):
    rel = f"scrapli/driver/core/{platform}/base_driver.py"
    try:
        v = ast.literal_eval(_module_value(rel, "FAILED_WHEN_CONTAINS"))
    except ValueError as e:
        raise TranslateError(f"{rel}: FAILED_WHEN_CONTAINS is not a literal: {e}")
    if not (isinstance(v, list) and all(isinstance(x, str) for x in v)):
        raise TranslateError(f"{rel}: FAILED_WHEN_CONTAINS is not a list of str")
    # the driver must still install it as the default: `failed_when_contains = FAILED_WHEN_CONTAINS.copy()`
    for stack, cls in (("sync", DRIVER_CLASS[platform]), ("async", "Async" + DRIVER_CLASS[platform])):
        init = _method(f"scrapli/driver/core/{platform}/{stack}_driver.py", cls, "__init__")
        found = False
        for n in ast.walk(init):
            if isinstance(n, ast.If) and isinstance(n.test, ast.Compare) and isinstance(n.test.left, ast.Name) \
                    and n.test.left.id == "failed_when_contains" and isinstance(n.test.ops[0], ast.Is):
                for b in n.body:
                    if isinstance(b, ast.Assign) and "FAILED_WHEN_CONTAINS" in ast.dump(b.value):
                        found = True
        if not found:
            raise TranslateError(f"{cls}.__init__ no longer defaults failed_when_contains to FAILED_WHEN_CONTAINS")
    return v


def privs_patterns(platform):
    """[(name, pattern)] of the platform's PRIVS table, in source order"""
    rel = f"scrapli/driver/core/{platform}/base_driver.py"
    v = _module_value(rel, "PRIVS")
    if not isinstance(v, ast.Dict):
        raise TranslateError(f"{rel}: PRIVS is not a dict literal")
    out = []
    for k, call in zip(v.keys, v.values):
        name = _const_str(k, rel)
        if not (isinstance(call, ast.Call) and getattr(call.func, "id", "") == "PrivilegeLevel"):
            raise TranslateError(f"{rel}: PRIVS[{name}] is not a PrivilegeLevel(...) call")
        kws = {kw.arg: kw.value for kw in call.keywords}
        try:
            pat = ast.literal_eval(kws["pattern"])
            nm = ast.literal_eval(kws["name"])
        except Exception as e:
            raise TranslateError(f"{rel}: PRIVS[{name}] pattern/name not literal: {e}")
        if nm != name:
            raise TranslateError(f"{rel}: PRIVS key {name!r} != level name {nm!r}")
        out.append((name, pat))
    return out


def session_template(platform, cls):
    """literal text before / after the (optional) interpolated session name in the pattern that
    `_create_configuration_session` registers"""
    rel = f"scrapli/driver/core/{platform}/base_driver.py"
    fn = _method(rel, cls, "_create_configuration_session")
    pat = None
    for n in ast.walk(fn):
        if isinstance(n, ast.Assign) and len(n.targets) == 1 and isinstance(n.targets[0], ast.Name) and n.targets[0].id == "pattern":
            pat = n.value
    if pat is None:
        raise TranslateError(f"{rel}: {cls}._create_configuration_session: no `pattern = ...`")
    # the registered level must use that variable as its pattern
    if not any(isinstance(n, ast.keyword) and n.arg == "pattern" and isinstance(n.value, ast.Name) and n.value.id == "pattern"
               for n in ast.walk(fn)):
        raise TranslateError(f"{rel}: {cls}._create_configuration_session: PrivilegeLevel(pattern=pattern) not found")
    if isinstance(pat, ast.Constant) and isinstance(pat.value, str):
        return pat.value, ""
    if isinstance(pat, ast.JoinedStr):
        parts = pat.values
        fv = [p for p in parts if isinstance(p, ast.FormattedValue)]
        if len(fv) != 1:
            raise TranslateError(f"{rel}: session pattern f-string with {len(fv)} interpolations")
        i = parts.index(fv[0])
        pre = "".join(_const_str(p, rel) for p in parts[:i])
        post = "".join(_const_str(p, rel) for p in parts[i + 1:])
        return pre, post
    raise TranslateError(f"{rel}: session pattern is neither a literal nor an f-string")


SEND_METHODS = {
    "send_commands": ("stop_on_failed", "eager", "eager_input", "failed_when_contains"),
    "send_commands_from_file": ("stop_on_failed", "eager", "eager_input", "failed_when_contains"),
    "send_configs": ("stop_on_failed", "eager", "eager_input", "failed_when_contains", "privilege_level"),
    "send_config": ("stop_on_failed", "eager", "eager_input", "failed_when_contains", "privilege_level"),
    "send_configs_from_file": ("stop_on_failed", "eager", "eager_input", "failed_when_contains", "privilege_level"),
    "send_command": ("eager_input", "failed_when_contains"),
    "_send_command": ("eager", "eager_input", "failed_when_contains"),
}
SEND_CLASSES = [("scrapli/driver/generic/sync_driver.py", "GenericDriver"), ("scrapli/driver/generic/async_driver.py", "AsyncGenericDriver"),
                ("scrapli/driver/network/sync_driver.py", "NetworkDriver"), ("scrapli/driver/network/async_driver.py", "AsyncNetworkDriver")]


def signature_defaults():
    seen = {}
    for rel, cls in SEND_CLASSES:
        for m, params in SEND_METHODS.items():
            fn = _method(rel, cls, m, required=False)
            if fn is None:
                if "Generic" in cls and m in ("send_commands", "send_commands_from_file", "send_command", "_send_command"):
                    raise TranslateError(f"{rel}: {cls}.{m} missing")
                if "Network" in cls and m != "_send_command":
                    raise TranslateError(f"{rel}: {cls}.{m} missing")
                continue
            d = _defaults(fn)
            for p in params:
                if p not in d:
                    raise TranslateError(f"{rel}: {cls}.{m} has no default for {p}")
                seen.setdefault(p, {})[f"{cls}.{m}"] = d[p]
    out = {}
    for p, where in seen.items():
        vals = {repr(v) for v in where.values()}
        if len(vals) != 1:
            raise TranslateError(f"default of {p} differs between public signatures: {where}")
        out[p] = next(iter(where.values()))
    return out


def return_char_default():
    rels = [("scrapli/driver/base/sync_driver.py", "Driver"), ("scrapli/driver/base/async_driver.py", "AsyncDriver"),
            ("scrapli/driver/base/base_driver.py", "BaseDriver"), *SEND_CLASSES]
    for p in PLATFORMS:
        rels += [(f"scrapli/driver/core/{p}/sync_driver.py", DRIVER_CLASS[p]), (f"scrapli/driver/core/{p}/async_driver.py", "Async" + DRIVER_CLASS[p])]
    vals = {}
    for rel, cls in rels:
        if not (REPO / rel).exists():
            raise TranslateError(f"{rel} missing")
        fn = _method(rel, cls, "__init__", required=False)
        if fn is None:
            continue
        d = _defaults(fn)
        if "comms_return_char" in d:
            vals[cls] = d["comms_return_char"]
    if not vals or len({repr(v) for v in vals.values()}) != 1:
        raise TranslateError(f"comms_return_char defaults differ or missing: {vals}")
    v = next(iter(vals.values()))
    if not isinstance(v, str):
        raise TranslateError(f"comms_return_char default is not a str: {v!r}")
    return v


def configs_default_level():
    """the literal `_pre_send_configs` resolves an empty privilege_level to"""
    fn = _method("scrapli/driver/network/base_driver.py", "BaseNetworkDriver", "_pre_send_configs")
    for n in ast.walk(fn):
        if isinstance(n, ast.If) and isinstance(n.test, ast.Name) and n.test.id == "privilege_level" and len(n.orelse) == 1:
            a = n.orelse[0]
            if isinstance(a, ast.Assign) and isinstance(a.targets[0], ast.Name) and a.targets[0].id == "resolved_privilege_level":
                return _const_str(a.value, "_pre_send_configs")
    raise TranslateError("_pre_send_configs: `else: resolved_privilege_level = <literal>` not found")


def line_separators():
    """CPython's str.splitlines() boundaries, probed from the interpreter that runs scrapli"""
    seps = [chr(c) for c in range(0x110000) if not (0xD800 <= c <= 0xDFFF) and len(("a" + chr(c) + "b").splitlines()) == 2]
    if "\n" not in seps or "\r" not in seps or "a\r\nb".splitlines() != ["a", "b"]:
        raise TranslateError("unexpected str.splitlines behaviour")
    return seps


def generate():
    b = HEADER.format(src="scrapli/driver/{generic,network,core/*}/*.py (tools/gen/c13.py)")
    b += "import ScrapliModel.SendTypes\nnamespace Scrapli.Gen.Send\nopen Scrapli.Send\n\n"
    rc = return_char_default()
    b += f"/-- default comms_return_char of every driver constructor: {_cmt(rc)} -/\ndef returnCharDefault : List Char := {lstr(rc)}\n"
    sd = signature_defaults()
    for p, nm in (("stop_on_failed", "stopOnFailedDefault"), ("eager", "eagerDefault"), ("eager_input", "eagerInputDefault")):
        if not isinstance(sd[p], bool):
            raise TranslateError(f"default of {p} is not a bool: {sd[p]!r}")
        b += f"def {nm} : Bool := {'true' if sd[p] else 'false'}\n"
    if sd["failed_when_contains"] is not None:
        raise TranslateError(f"default failed_when_contains is {sd['failed_when_contains']!r}, the model assumes None")
    b += "/-- `failed_when_contains=None` in every public signature -/\ndef fwcDefaultIsNone : Bool := true\n"
    if not isinstance(sd["privilege_level"], str):
        raise TranslateError("default privilege_level is not a str")
    b += f"def privilegeLevelDefault : List Char := {lstr(sd['privilege_level'])}\n"
    lvl = configs_default_level()
    b += f"/-- `_pre_send_configs`: empty privilege_level resolves to {_cmt(lvl)} -/\ndef configsDefaultLevel : List Char := {lstr(lvl)}\n"
    seps = line_separators()
    b += "/-- CPython str.splitlines() boundaries (code points): " + " ".join(f"U+{ord(c):04X}" for c in seps) + " -/\n"
    b += f"def lineSeps : List Char := {lstr(''.join(seps))}\n\n"
    for p in PLATFORMS:
        v = fwc_list(p)
        b += f"/-- {p} FAILED_WHEN_CONTAINS = {_cmt(v)} -/\ndef fwc{SHORT[p].capitalize()} : List (List Char) := {lstrs(v)}\n"
    b += "\n"
    for p in PLATFORMS:
        for stack, cls in (("sync", DRIVER_CLASS[p]), ("async", "Async" + DRIVER_CLASS[p])):
            plan = tolerant_abort_plan(f"scrapli/driver/core/{p}/{stack}_driver.py", cls)
            b += f"def abort{SHORT[p].capitalize()}{stack.capitalize()} : AbortPlan := {plan}\n"
    b += "\n"
    for p, cls in (("cisco_nxos", "NXOSDriverBase"), ("arista_eos", "EOSDriverBase")):
        pp = privs_patterns(p)
        b += f"/-- {p} PRIVS: (name, pattern) -/\ndef privs{SHORT[p].capitalize()} : List (List Char × List Char) := [" + \
             ", ".join(f"({lstr(n)}, {lstr(pt)})" for n, pt in pp) + "]\n"
        pre, post = session_template(p, cls)
        b += f"/-- {p} session pattern template: {_cmt(pre)} ++ <escaped name> ++ {_cmt(post)} -/\n"
        b += f"def sessionPre{SHORT[p].capitalize()} : List Char := {lstr(pre)}\ndef sessionPost{SHORT[p].capitalize()} : List Char := {lstr(post)}\n"
    b += "\n/-- control-structure shapes asserted on the AST (TranslateError otherwise): for / break / else loop of\n    send_commands, abort step of send_configs, order of _pre_send_configs, write-then-return of send_input,\n    acquire-first wrappers, splitlines in the file / send_config paths -/\n"
    shapes = control_shapes()
    for k, v in shapes.items():
        b += f"def shape{k[0].upper()}{k[1:]} : Bool := {'true' if v else 'false'}\n"
    b += "def controlShapes : List Bool := [" + ", ".join(f"shape{k[0].upper()}{k[1:]}" for k in shapes) + "]\n"
    b += "\nend Scrapli.Gen.Send\n"
    return [("ScrapliModel/Gen/SendConsts.lean", b)]


if __name__ == "__main__":
    for rel, content in generate():
        print(content)
