"""translator piece for C17: everything that is *data* in the connection-parameter resolution:
constructor defaults, default ports, the transports that consult the ssh config, the telnet test,
magic strings, fall-back paths, each core transport's PluginTransportArgs field names, and the literal
argv fragments of SystemTransport._build_open_cmd (extracted by calling it on sentinel values)."""
import ast, inspect

from translate import HEADER, TranslateError, _parse

DRV = "scrapli/driver/base/base_driver.py"
SYS = "scrapli/transport/plugins/system/transport.py"
OUT = "ScrapliModel/Gen/ResolveConsts.lean"
# driver attributes the model knows how to copy into plugin args (Field in Resolve.lean)
KNOWN_FIELDS = ("auth_username", "auth_password", "auth_private_key", "auth_private_key_passphrase",
                "auth_strict_key", "ssh_config_file", "ssh_known_hosts_file")


def chars(s):
    """Lean `List Char` literal made of explicit characters (kernel-reducible, no String primitives)"""
    if not isinstance(s, str):
        raise TranslateError(f"expected str, got {s!r}")
    out = []
    for ch in s:
        o = ord(ch)
        if 0xD800 <= o <= 0xDFFF:
            raise TranslateError("surrogate in literal")
        if ch == "'":
            out.append("'\\''")
        elif ch == "\\":
            out.append("'\\\\'")
        elif 32 < o < 127:
            out.append(f"'{ch}'")
        else:
            out.append(f"Char.ofNat {o}")
    return "[" + ", ".join(out) + "]"


def _func(tree, cls, name):
    for node in ast.walk(tree):
        if isinstance(node, ast.ClassDef) and node.name == cls:
            for n in node.body:
                if isinstance(n, (ast.FunctionDef, ast.AsyncFunctionDef)) and n.name == name:
                    return n
    raise TranslateError(f"{cls}.{name} not found")


def _init_defaults(fn):
    a = fn.args
    names = [x.arg for x in a.args]
    defaults = [None] * (len(names) - len(a.defaults)) + list(a.defaults)
    out = {}
    for n, d in zip(names, defaults):
        if d is not None:
            try:
                out[n] = ast.literal_eval(d)
            except Exception:
                out[n] = "<expr>"
    return names, out


def _default_ports(init):
    """`if port is None: port = A; if "<s>" in transport: port = B` -> (A, s, B)"""
    for st in init.body:
        if isinstance(st, ast.If) and isinstance(st.test, ast.Compare) and isinstance(st.test.left, ast.Name) \
                and st.test.left.id == "port" and isinstance(st.test.ops[0], ast.Is) \
                and isinstance(st.test.comparators[0], ast.Constant) and st.test.comparators[0].value is None:
            body = st.body
            if len(body) == 2 and isinstance(body[0], ast.Assign) and isinstance(body[1], ast.If) and not st.orelse:
                a = ast.literal_eval(body[0].value)
                t = body[1].test
                if isinstance(t, ast.Compare) and isinstance(t.ops[0], ast.In) and isinstance(t.left, ast.Constant) \
                        and isinstance(t.comparators[0], ast.Name) and t.comparators[0].id == "transport" \
                        and len(body[1].body) == 1 and isinstance(body[1].body[0], ast.Assign) and not body[1].orelse:
                    return a, t.left.value, ast.literal_eval(body[1].body[0].value)
    raise TranslateError(f"{DRV}: default-port block has an unexpected shape")


def _cfg_consulting(init):
    """`if self.transport_name in (<names>): self._update_ssh_args_from_ssh_config()`"""
    for st in ast.walk(init):
        if isinstance(st, ast.If) and isinstance(st.test, ast.Compare) and isinstance(st.test.ops[0], ast.In):
            calls = [n for n in ast.walk(st) if isinstance(n, ast.Call) and isinstance(n.func, ast.Attribute)
                     and n.func.attr == "_update_ssh_args_from_ssh_config"]
            if calls and not st.orelse:
                left = st.test.left
                if not (isinstance(left, ast.Attribute) and left.attr == "transport_name"):
                    raise TranslateError("ssh-config folding is not selected by self.transport_name")
                return list(ast.literal_eval(st.test.comparators[0]))
    raise TranslateError(f"{DRV}: call of _update_ssh_args_from_ssh_config not found in __init__")


def _telnet_test_in_file_args(fn):
    """the substring whose presence makes _setup_ssh_file_args return ("", "")"""
    st = next((s for s in fn.body if isinstance(s, ast.If)), None)
    if st is not None and isinstance(st.test, ast.Compare) and isinstance(st.test.ops[0], ast.In) \
            and isinstance(st.test.left, ast.Constant) and isinstance(st.body[-1], ast.Return) \
            and ast.literal_eval(st.body[-1].value) == ("", ""):
        return st.test.left.value
    raise TranslateError(f"{DRV}: _setup_ssh_file_args telnet short-cut has an unexpected shape")


def _resolver(method):
    """what `_resolve_ssh_config` / `_resolve_ssh_known_hosts` DO, observed by running the real method with the
    file-existence tests recorded (no AST shape is assumed, so helpers / loops / early returns may be arranged freely):
    -> (the one transport name for which "" gives a marker string, that marker, the two fall-back paths in order).
    Raises TranslateError when the behaviour is not "marker for (\"\", system); else the first existing of
    (argument, fall-back 1, fall-back 2) after ~ expansion; else \"\"" — the shape the model has."""
    import os
    import pathlib
    from unittest import mock
    from scrapli.driver.base.base_driver import BaseDriver
    from scrapli.transport import CORE_TRANSPORTS
    from scrapli.transport.plugins.system.transport import SystemTransport

    home, arg = "/c17-probe-h0me", "/c17-probe-arg/some_file"
    fn = getattr(BaseDriver(host="h"), method)
    probes, existing = [], set()

    def rec(path):
        path = os.fspath(path)
        if not probes or probes[-1] != path:
            probes.append(path)
        return existing == {"*"} or path in existing

    def call(a, t, exist=()):
        probes.clear()
        existing.clear()
        existing.update(exist)
        with mock.patch.object(pathlib.Path, "is_file", lambda self: rec(str(self))), \
                mock.patch.object(pathlib.Path, "exists", lambda self, **kw: rec(str(self))), \
                mock.patch("os.path.isfile", rec), mock.patch("os.path.exists", rec), \
                mock.patch.dict(os.environ, {"HOME": home}):
            r = fn(a, transport=t)
        if not isinstance(r, str):
            raise TranslateError(f"{DRV}: {method}({a!r}, {t!r}) returned {r!r}")
        return r, list(probes)

    markers = {t: call("", t)[0] for t in CORE_TRANSPORTS}
    sysnames = [t for t, r in markers.items() if r != ""]
    if len(sysnames) != 1:
        raise TranslateError(f"{DRV}: {method}('') gives a marker for {sysnames}, expected exactly one transport")
    sysname, magic = sysnames[0], markers[sysnames[0]]
    if magic not in [v for k, v in vars(SystemTransport).items() if isinstance(v, str)]:
        raise TranslateError(f"{DRV}: {method}: marker {magic!r} is not a SystemTransport constant")
    other = next(t for t in CORE_TRANSPORTS if t != sysname and "telnet" not in t)
    r0, order = call(arg, other)
    if r0 != "" or len(order) != 3 or order[0] != arg:
        raise TranslateError(f"{DRV}: {method}: with nothing on disk expected '' after probing (argument, 2 fall-backs), "
                             f"got {r0!r} after {order}")
    for t in (other, sysname):                     # an explicit path never gives the marker, same candidates for all
        for exist, want in ([(set(), "")] + [({order[k]}, order[k]) for k in range(3)] +
                            [({"*"}, order[0]), ({order[1], order[2]}, order[1])]):
            r, pr = call(arg, t, exist)
            if r != want or pr != order[:len(pr)]:
                raise TranslateError(f"{DRV}: {method}({arg!r}, {t!r}) with files {sorted(exist)}: got {r!r} probing {pr}, "
                                     f"expected {want!r} in order {order}")
    # the empty argument (True) on a non-system transport is never a file: the fall-backs decide
    r, _ = call("", other, {order[1]})
    if r != order[1]:
        raise TranslateError(f"{DRV}: {method}('', {other!r}) does not fall back to {order[1]!r}: {r!r}")
    paths = ["~" + q[len(home):] if q.startswith(home + "/") else q for q in order[1:]]
    return sysname, magic, paths


def _plugin_fields(name):
    rel = f"scrapli/transport/plugins/{name}/transport.py"
    tree = _parse(rel)
    fields = None
    for node in tree.body:
        if isinstance(node, ast.ClassDef) and node.name == "PluginTransportArgs":
            fields = [n.target.id for n in node.body if isinstance(n, ast.AnnAssign) and isinstance(n.target, ast.Name)]
    if fields is None:
        raise TranslateError(f"{rel}: PluginTransportArgs not found")
    # every attribute the transport reads from its plugin args must be a field
    reads = {n.attr for n in ast.walk(tree) if isinstance(n, ast.Attribute) and isinstance(n.value, ast.Attribute)
             and n.value.attr == "plugin_transport_args"}
    if not reads <= set(fields):
        raise TranslateError(f"{rel}: reads plugin args {sorted(reads - set(fields))} that are not dataclass fields")
    for f in fields:
        if f not in KNOWN_FIELDS:
            raise TranslateError(f"{rel}: plugin arg field {f!r} is not a driver attribute the model knows")
    return fields


def _argv_fragments(magic_cfg, magic_kh):
    """call the real _build_open_cmd on sentinel values and read the literal fragments off the result"""
    from scrapli.transport.base import BaseTransportArgs
    from scrapli.transport.plugins.system.transport import PluginTransportArgs, SystemTransport

    def build(strict, kh, cfg, key="K@key", user="U@user", extra=()):
        b = BaseTransportArgs(transport_options={"open_cmd": list(extra)} if extra else {}, host="H@host", port=7,
                              timeout_socket=3.9, timeout_transport=4.2)
        t = SystemTransport(b, PluginTransportArgs(auth_username=user, auth_private_key=key, auth_strict_key=strict,
                                                  ssh_config_file=cfg, ssh_known_hosts_file=kh))
        t._build_open_cmd()
        return list(t.open_cmd)

    A = build(False, "KH@f", "")
    B = build(True, "KH@f", "CF@f")
    if len(A) != 18 or len(B) != 18:
        raise TranslateError(f"_build_open_cmd produced an unexpected number of words: {A} / {B}")
    f = {}
    if A[1] != "H@host" or A[3] != "7" or A[9] != "K@key" or A[11] != "U@user" or B[17] != "CF@f":
        raise TranslateError(f"_build_open_cmd: sentinels not at the expected positions: {A} / {B}")
    f["argvSsh"], f["optP"], f["optO"], f["optI"], f["optL"], f["optF"] = A[0], A[2], A[4], A[8], A[10], A[16]
    if not (A[5].endswith("3") and A[7].endswith("4")):
        raise TranslateError("ConnectTimeout/ServerAliveInterval words do not end in int(timeout)")
    f["connectTimeoutPfx"], f["serverAlivePfx"] = A[5][:-1], A[7][:-1]
    f["strictNo"], f["khDevNull"], f["devNull"] = A[13], A[15], A[17]
    f["strictYes"] = B[13]
    if not B[15].endswith("KH@f"):
        raise TranslateError("known hosts option does not end with the file name")
    f["khPfx"] = B[15][: -len("KH@f")]
    # consistency of the repeated option words, and of the prefix common to both runs
    if not (A[4] == A[6] == A[12] == A[14] == B[12] == B[14] == f["optO"] and B[16] == f["optF"] and A[:12] == B[:12]):
        raise TranslateError(f"_build_open_cmd: option words are not consistent: {A} / {B}")
    # the branches that add nothing, and the extras
    want = A[:8] + [f["optO"], f["strictYes"]]
    if build(True, magic_kh, magic_cfg, key="", user="") != want:
        raise TranslateError("_build_open_cmd: magic strings / empty key / empty user do not suppress their arguments")
    if build(True, "", "", key="", user="", extra=("x", "y")) != want + [f["optF"], f["devNull"], "x", "y"]:
        raise TranslateError("_build_open_cmd: empty known hosts / config / extra args behave unexpectedly")
    return f


def _src(node):
    return ast.unparse(node).replace(" ", "")


def _dial_sites():
    """where each transport hands host / port / user / key to the library or the OS: must be the
    BaseTransportArgs / plugin args the model calls `dialed` (checked on the AST, emitted for the record)"""
    H, P = "self._base_transport_args.host", "self._base_transport_args.port"
    out = []

    def kwargs_of(rel, fn, callee):
        tree = _parse(rel)
        for node in ast.walk(tree):
            if isinstance(node, (ast.FunctionDef, ast.AsyncFunctionDef)) and node.name == fn:
                for c in ast.walk(node):
                    if isinstance(c, ast.Call) and _src(c.func).endswith(callee):
                        return {k.arg: _src(k.value) for k in c.keywords}
        raise TranslateError(f"{rel}: call of {callee} in {fn} not found")
    for name in ("paramiko", "ssh2", "telnet"):
        rel = f"scrapli/transport/plugins/{name}/transport.py"
        kw = kwargs_of(rel, "open", "Socket")
        if kw.get("host") != H or kw.get("port") != P:
            raise TranslateError(f"{rel}: Socket(...) is not opened with the base transport args host/port: {kw}")
        out.append((name, "Socket(host, port)"))
    rel = "scrapli/transport/plugins/asynctelnet/transport.py"
    kw = kwargs_of(rel, "open", "open_connection")
    if kw.get("host") != H or kw.get("port") != P:
        raise TranslateError(f"{rel}: asyncio.open_connection is not called with the base transport args host/port: {kw}")
    out.append(("asynctelnet", "asyncio.open_connection(host, port)"))
    # asyncssh: the dict literals common_args / auth_args
    rel = "scrapli/transport/plugins/asyncssh/transport.py"
    want = {"host": H, "port": P, "username": "self.plugin_transport_args.auth_username",
            "config": "self.plugin_transport_args.ssh_config_file",
            "client_keys": "self.plugin_transport_args.auth_private_key"}
    found = {}
    for node in ast.walk(_parse(rel)):
        if isinstance(node, ast.Dict):
            for k, v in zip(node.keys, node.values):
                if isinstance(k, ast.Constant) and k.value in want:
                    found[k.value] = _src(v)
    if found != want:
        raise TranslateError(f"{rel}: connect() arguments are not the base/plugin transport args: {found}")
    out.append(("asyncssh", "connect(host, port, username, config, client_keys)"))
    # paramiko / ssh2 authentication use the plugin args
    for name, fn, callee, kwn in (("paramiko", "_authenticate_password", "auth_password", "username"),
                                  ("paramiko", "_authenticate_public_key", "auth_publickey", "username")):
        kw = kwargs_of(f"scrapli/transport/plugins/{name}/transport.py", fn, callee)
        if kw.get(kwn) != "self.plugin_transport_args.auth_username":
            raise TranslateError(f"{name}.{fn}: user name does not come from the plugin args: {kw}")
    kw = kwargs_of("scrapli/transport/plugins/paramiko/transport.py", "_authenticate_public_key", "RSAKey")
    if kw.get("filename") != "self.plugin_transport_args.auth_private_key":
        raise TranslateError(f"paramiko: key file does not come from the plugin args: {kw}")
    out.append(("paramiko", "auth_publickey(username, RSAKey(filename)), auth_password(username)"))
    # ssh2: every userauth_* call names the plugin args' user first, the key file call the plugin args' key second
    rel = "scrapli/transport/plugins/ssh2/transport.py"
    calls = [c for c in ast.walk(_parse(rel)) if isinstance(c, ast.Call) and isinstance(c.func, ast.Attribute)
             and c.func.attr.startswith("userauth_") and c.func.attr != "userauth_authenticated"]
    if not calls:
        raise TranslateError(f"{rel}: no userauth_* call found")
    for c in calls:
        args = [_src(x) for x in c.args] + [_src(k.value) for k in c.keywords if k.arg == "username"]
        if "self.plugin_transport_args.auth_username" not in args[:1] + args[len(c.args):]:
            raise TranslateError(f"{rel}: {c.func.attr} does not authenticate as the plugin args' user: {args}")
        if "publickey" in c.func.attr and not any(x.startswith("self.plugin_transport_args.auth_private_key") for x in args):
            raise TranslateError(f"{rel}: {c.func.attr} does not use the plugin args' key: {args}")
    out.append(("ssh2", ", ".join(sorted({c.func.attr for c in calls})) + "(username[, key])"))
    # the socket connects to what it was constructed with
    rel = "scrapli/transport/base/base_socket.py"
    tree = _parse(rel)
    init = _func(tree, "Socket", "__init__")
    stores = {_src(n.targets[0]): _src(n.value) for n in ast.walk(init) if isinstance(n, ast.Assign)}
    if stores.get("self.host") != "host" or stores.get("self.port") != "port":
        raise TranslateError(f"{rel}: Socket.__init__ does not store host/port as given")
    conn = [_src(c) for c in ast.walk(_func(tree, "Socket", "_connect")) if isinstance(c, ast.Call) and _src(c.func).endswith(".connect")]
    if conn != ["self.sock.connect((self.host,self.port))"]:
        raise TranslateError(f"{rel}: socket connect call is {conn}")
    out.append(("base_socket", "sock.connect((self.host, self.port))"))
    # every other mention of host / port inside the transports must be the base transport args (logging, errors)
    return out


LAST = {}


def _update_table():
    """the decision table of `_update_ssh_args_from_ssh_config`, PROBED: the real method is called on a real driver for all
    2^6 combinations of (config Port none/2222, port given (830) / omitted (22), config User ''/carl, auth_username ''/bob,
    config IdentityFile none//cfg/key, auth_private_key ''//own/key) with `ssh_config_factory` replaced by a stub that
    hands out the entry -> rows ((inputs), (driver.port, base transport args port, auth_username, auth_private_key))"""
    import itertools
    import types
    from unittest import mock
    import scrapli.driver.base.base_driver as bd
    rows = []
    for cp, given, cu, u, ci, k in itertools.product((None, 2222), (False, True), ("", "carl"), ("", "bob"),
                                                     (None, "/cfg/key"), ("", "/own/key")):
        d = bd.BaseDriver(host="h", transport="paramiko", auth_username=u, **({"port": 830} if given else {}))
        init = 830 if given else 22
        if d.port != init or d._base_transport_args.port != init:
            raise TranslateError(f"{DRV}: constructor without ssh config gives port {d.port}/{d._base_transport_args.port}, expected {init}")
        d.auth_private_key = k
        d.ssh_config_file = "/c"
        entry = types.SimpleNamespace(port=cp, user=cu, identity_file=ci, hostname=None)
        stub = types.SimpleNamespace(lookup=lambda host, _e=entry: _e)
        with mock.patch.object(bd, "ssh_config_factory", lambda ssh_config_file: stub):
            d._update_ssh_args_from_ssh_config()
        if (entry.port, entry.user, entry.identity_file) != (cp, cu, ci):
            raise TranslateError(f"{DRV}: _update_ssh_args_from_ssh_config writes into the entry object it was handed: {vars(entry)}")
        out = (d.port, d._base_transport_args.port, d.auth_username, d.auth_private_key)
        if not all(isinstance(x, int) for x in out[:2]) or not all(isinstance(x, str) for x in out[2:]):
            raise TranslateError(f"{DRV}: _update_ssh_args_from_ssh_config left non int/str values: {out}")
        rows.append(((cp, given, cu, u, ci or "", k), out))
    table = dict(rows)
    flags = {"updCfgPortDialed": table[(2222, False, "", "", "", "")][1] == 2222,
             "updExplicitPortWins": table[(2222, True, "", "", "", "")][0] == 830}
    return rows, flags


def generate():
    from scrapli.transport import ASYNCIO_TRANSPORTS, CORE_TRANSPORTS
    from scrapli.driver.base.base_driver import BaseDriver
    from scrapli.transport.plugins.system.transport import SystemTransport

    tree = _parse(DRV)
    init = _func(tree, "BaseDriver", "__init__")
    names, dflt = _init_defaults(init)
    sig = inspect.signature(BaseDriver.__init__)
    for n in ("port", "auth_username", "auth_password", "auth_private_key", "auth_private_key_passphrase",
              "auth_strict_key", "ssh_config_file", "ssh_known_hosts_file", "transport", "timeout_socket", "timeout_transport"):
        if n not in dflt or sig.parameters[n].default != dflt[n]:
            raise TranslateError(f"{DRV}: constructor default of {n} not literal / differs from the imported class")
    if dflt["port"] is not None or dflt["ssh_config_file"] is not False or dflt["ssh_known_hosts_file"] is not False:
        raise TranslateError("constructor defaults of port / ssh files are not None / False")
    for n in ("auth_username", "auth_password", "auth_private_key", "auth_private_key_passphrase"):
        if dflt[n] != "":
            raise TranslateError(f"default of {n} is not the empty string")
    p_ssh, telnet_sub, p_telnet = _default_ports(init)
    consulting = _cfg_consulting(init)
    core = list(CORE_TRANSPORTS)
    if not set(consulting) <= set(core) or dflt["transport"] not in core:
        raise TranslateError("ssh-config consulting transports / default transport are not core transports")
    sub2 = _telnet_test_in_file_args(_func(tree, "BaseDriver", "_setup_ssh_file_args"))
    if sub2 != telnet_sub:
        raise TranslateError("default-port block and _setup_ssh_file_args test different telnet substrings")
    sys1, magic_cfg, cfg_paths = _resolver("_resolve_ssh_config")
    sys2, magic_kh, kh_paths = _resolver("_resolve_ssh_known_hosts")
    if sys1 != sys2 or sys1 not in core:
        raise TranslateError("the two resolvers treat different transports as the system transport")
    if magic_cfg == magic_kh:
        raise TranslateError("ssh config and known hosts markers are the same string")
    # _setup_host must strip with no argument (Python whitespace)
    sh = _func(tree, "BaseDriver", "_setup_host")
    strips = [n for n in ast.walk(sh) if isinstance(n, ast.Call) and isinstance(n.func, ast.Attribute) and n.func.attr == "strip"]
    if not strips or any(c.args or c.keywords for c in strips):
        raise TranslateError("_setup_host does not use host.strip() without arguments")
    ws = [c for c in range(0x110000) if chr(c).isspace()]
    frag = _argv_fragments(magic_cfg, magic_kh)
    sites = _dial_sites()
    upd_rows, upd_flags = _update_table()
    LAST.clear()
    LAST.update(upd_flags)
    fields = {n: _plugin_fields(n) for n in core}
    # the driver must have every field as an attribute after __init__ (assigned through self.<f> = / tuple targets)
    assigned = set()
    for n in ast.walk(init):
        if isinstance(n, ast.Attribute) and isinstance(n.ctx, ast.Store) and isinstance(n.value, ast.Name) and n.value.id == "self":
            assigned.add(n.attr)
    for t, fs in fields.items():
        if not set(fs) <= assigned:
            raise TranslateError(f"plugin args of {t} need driver attributes never assigned in __init__: {set(fs) - assigned}")

    L = [HEADER.format(src=f"{DRV}, scrapli/transport/__init__.py and the core transports' PluginTransportArgs / _build_open_cmd"),
         "namespace Scrapli.Gen.Resolve\n"]
    L.append(f"def coreTransports : List (List Char) := [{', '.join(chars(n) for n in core)}]\n")
    L.append(f"def asyncioTransports : List (List Char) := [{', '.join(chars(n) for n in ASYNCIO_TRANSPORTS)}]\n")
    L.append(f"/-- core transport names containing {telnet_sub!r} (the test of base_driver.py `__init__` and `_setup_ssh_file_args`) -/\n")
    L.append(f"def telnetLike : List (List Char) := [{', '.join(chars(n) for n in core if telnet_sub in n)}]\n")
    L.append(f"def cfgConsulting : List (List Char) := [{', '.join(chars(n) for n in consulting)}]\n")
    L.append(f"def systemName : List Char := {chars(sys1)}\n")
    L.append(f"def defaultTransport : List Char := {chars(dflt['transport'])}\n")
    L.append(f"def defaultPortSsh : Nat := {int(p_ssh)}\ndef defaultPortTelnet : Nat := {int(p_telnet)}\n")
    L.append(f"def defaultStrict : Bool := {'true' if dflt['auth_strict_key'] is True else 'false'}\n")
    L.append(f"def defaultTimeoutSocket : Nat := {int(dflt['timeout_socket'])}\ndef defaultTimeoutTransport : Nat := {int(dflt['timeout_transport'])}\n")
    L.append(f"def magicCfg : List Char := {chars(magic_cfg)}\ndef magicKh : List Char := {chars(magic_kh)}\n")
    L.append(f"def userCfgPath : List Char := {chars(cfg_paths[0])}\ndef sysCfgPath : List Char := {chars(cfg_paths[1])}\n")
    L.append(f"def userKhPath : List Char := {chars(kh_paths[0])}\ndef sysKhPath : List Char := {chars(kh_paths[1])}\n")
    L.append("/-- PluginTransportArgs dataclass field names per core transport, in declaration order -/\n")
    L.append("def pluginFields : List (List Char × List (List Char)) := [\n" + ",\n".join(
        f"  ({chars(t)}, [{', '.join(chars(x) for x in fields[t])}])" for t in core) + "]\n")
    L.append("/-- literal words of `_build_open_cmd`, read off its result on sentinel values -/\n")
    for k in ("argvSsh", "optP", "optO", "optI", "optL", "optF", "connectTimeoutPfx", "serverAlivePfx", "strictNo",
              "strictYes", "khDevNull", "khPfx", "devNull"):
        L.append(f"def {k} : List Char := {chars(frag[k])}\n")
    L.append("/-- where the transports hand the parameters to the library / OS (AST-checked to be the base / plugin transport args) -/\n")
    L.append("def dialSites : List (String × String) := [" + ", ".join(f'("{a}", "{b}")' for a, b in sites) + "]\n")
    L.append("/-- PROBED decision table of `_update_ssh_args_from_ssh_config` (real method, stubbed ssh config entry): ((config Port, port "
             "given (830) or omitted (22), config User, auth_username, config IdentityFile, auth_private_key), (driver.port, base "
             "transport args port, auth_username, auth_private_key)) -/\n")
    L.append("def updateTable : List ((Option Nat × Bool × List Char × List Char × List Char × List Char) × (Nat × Nat × List Char × List Char)) := [\n"
             + ",\n".join(f"  (({'none' if i[0] is None else 'some ' + str(i[0])}, {'true' if i[1] else 'false'}, {chars(i[2])}, {chars(i[3])}, "
                          f"{chars(i[4])}, {chars(i[5])}), ({o[0]}, {o[1]}, {chars(o[2])}, {chars(o[3])}))" for i, o in upd_rows) + "]\n")
    L.append("/-- read off two rows of the table: does a config Port reach the base transport args / does an explicit port win -/\n")
    L.append(f"def updCfgPortDialed : Bool := {'true' if upd_flags['updCfgPortDialed'] else 'false'}\n")
    L.append(f"def updExplicitPortWins : Bool := {'true' if upd_flags['updExplicitPortWins'] else 'false'}\n")
    L.append("/-- code points c with chr(c).isspace() in the running CPython (what `str.strip()` removes) -/\n")
    L.append(f"def pyWhitespace : List Nat := {ws}\n")
    L.append("end Scrapli.Gen.Resolve\n")
    return [(OUT, "".join(L))]
