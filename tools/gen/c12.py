"""translator piece for C12: the flow graph of all of scrapli (nodes = parameters / locals with access
paths, merged attributes, returns; edges = assignments, argument -> parameter, return -> call result,
interpolation, containers), its sources / sinks / sanitisers, and the constants of the two flag-guarded
logging sites that the hand model in ScrapliModel/Flow.lean is instantiated with.
Rules and approximations: design/C12.md.  generate() -> [(lean path, content)]; build() -> Graph object
(also used by tools/props/c12.py for the dynamic validation of the extraction)."""
import ast
from collections import defaultdict, deque

from translate import HEADER, TranslateError
from vlib.common import REPO
from gen.c12_flow import Analyzer, SECRET_NAMES, EVENTS



class FlowGraph:
    def __init__(self, repo=None):
        self.repo = str(repo or REPO)
        an = Analyzer(self.repo)
        self.an = an
        kinds = an.kinds
        adj = defaultdict(set)
        for a, b in an.edges:
            adj[a].add(b)
        nodes = set(an.nodes)
        srcs = sorted(n for n in nodes if kinds.get(n) == "source")
        # numbering: sources, then breadth-first from the sources (sanitisers ignored), then the rest by name
        order, seen = [], set()
        q = deque(srcs)
        seen.update(srcs)
        while q:
            x = q.popleft()
            order.append(x)
            for y in sorted(adj.get(x, ())):
                if y not in seen:
                    seen.add(y)
                    q.append(y)
        order += sorted(nodes - seen)
        self.names = order
        self.id = {n: i for i, n in enumerate(order)}
        self.adj = [sorted(self.id[b] for b in adj.get(n, ())) for n in order]
        self.kind = [kinds.get(n, "plain") for n in order]
        self.sources = [i for i, k in enumerate(self.kind) if k == "source"]
        self.sinks = [i for i, k in enumerate(self.kind) if k == "sink"]
        self.sanitisers = [i for i, k in enumerate(self.kind) if k == "sanitiser"]
        self.advisory = [i for i, k in enumerate(self.kind) if k == "advisory"]
        self.sites = {self.id[n]: s for n, s in an.sites.items()}
        self.nedges = sum(len(a) for a in self.adj)
        if not self.sources or not self.sinks or not self.sanitisers:
            raise TranslateError(f"degenerate graph: {len(self.sources)} sources, {len(self.sinks)} sinks, "
                                 f"{len(self.sanitisers)} sanitisers")
        self.consts = log_constants(an.ix)
        # in-Lean meaning of the node numbers: sources per secret role, sinks per kind
        def named(i, var):
            n = self.names[i]
            return n == f"a:{var}" or (n.startswith("v:") and n.endswith(":" + var))
        self.role_sources = {
            "PW": [i for i in self.sources if named(i, "auth_password")],
            "PP": [i for i in self.sources if named(i, "auth_private_key_passphrase")],
            "SEC": [i for i in self.sources if named(i, "auth_secondary")],
            "HID": [i for i in self.sources if self.names[i].endswith(f":{EVENTS}[*][0]")],
        }
        covered = sorted(x for v in self.role_sources.values() for x in v)
        if covered != sorted(self.sources) or any(not v for v in self.role_sources.values()):
            raise TranslateError("sources are not exactly the union of the four secret roles / a role has no source")
        self.kind_sinks = {k: [i for i in self.sinks if self.sites[i]["kind"] == k] for k in ("log", "raise", "repr")}
        if sorted(x for v in self.kind_sinks.values() for x in v) != sorted(self.sinks) or any(not v for v in self.kind_sinks.values()):
            raise TranslateError("sinks are not exactly log + raise + repr sinks / a kind has no sink")
        labels = {self.names[i].rsplit(":", 1)[1] for i in self.kind_sinks["repr"]}
        if not {"BaseDriver.__repr__", "BaseDriver.__str__"} <= labels:
            raise TranslateError(f"BaseDriver.__repr__/__str__ are not both gating sinks (repr sinks: {sorted(labels)})")
        self.decisions = reviewed_decisions(an)

    # ---- python-side reachability (independent of the Lean one; used for reporting paths and cross-check)
    def reach(self, starts, avoid_sanitisers=True):
        par = {s: None for s in starts}
        q = deque(starts)
        san = set(self.sanitisers) if avoid_sanitisers else set()
        while q:
            x = q.popleft()
            for y in self.adj[x]:
                if y not in par and y not in san:
                    par[y] = x
                    q.append(y)
        return par

    def path(self, par, n):
        out = []
        while n is not None:
            out.append(self.names[n])
            n = par[n]
        return out[::-1]

    def nodes_named(self, var=None, attr=None, func_suffix=None):
        """ids of variable nodes `v:<fq>[@ctx]:<var>` (whole value) and attribute nodes `a:<attr>`"""
        out = []
        for i, n in enumerate(self.names):
            if attr is not None and n == f"a:{attr}":
                out.append(i)
            if var is not None and n.startswith("v:") and n.endswith(":" + var):
                if func_suffix is None or n[2:].rsplit(":", 1)[0].split("@")[0].endswith(func_suffix):
                    out.append(i)
        return out

    def sink_sites(self, kind, file, line):
        """sink node ids whose source range covers file:line"""
        return [i for i, s in self.sites.items() if s["kind"] == kind and s["file"] == file and s["line"] <= line <= s["end"]]


# ---------------------------------------------------------------- constants of the hand-modelled logging sites
def _find_method(ix, rel_suffix, cls, name):
    for f in ix.funcs:
        if f.mod.rel.endswith(rel_suffix) and f.cls is not None and f.cls.name == cls and f.name == name and f.parent is None:
            return f
    raise TranslateError(f"{rel_suffix}: {cls}.{name} not found")


def _is_logger_call(e, method):
    return (isinstance(e, ast.Expr) and isinstance(e.value, ast.Call) and isinstance(e.value.func, ast.Attribute)
            and e.value.func.attr == method and isinstance(e.value.func.value, ast.Attribute) and e.value.func.value.attr == "logger")


def log_constants(ix):
    w = _find_method(ix, "channel/base_channel.py", "BaseChannel", "write")
    ifs = [n for n in w.node.body if isinstance(n, ast.If)]
    if not (len(ifs) == 1 and isinstance(ifs[0].test, ast.Name) and ifs[0].test.id == "redacted"
            and len(ifs[0].body) == 1 and len(ifs[0].orelse) == 1
            and _is_logger_call(ifs[0].body[0], "debug") and _is_logger_call(ifs[0].orelse[0], "debug")):
        raise TranslateError("BaseChannel.write: `if redacted: logger.debug(..) else: logger.debug(..)` not found in this shape")
    yes, no = ifs[0].body[0].value, ifs[0].orelse[0].value
    if not (len(yes.args) == 1 and isinstance(yes.args[0], ast.Constant) and isinstance(yes.args[0].value, str) and not yes.keywords):
        raise TranslateError("BaseChannel.write: redacted branch does not log one constant string")
    if not (len(no.args) == 2 and isinstance(no.args[0], ast.Constant) and isinstance(no.args[1], ast.Name)
            and no.args[1].id == "channel_input" and not no.keywords):
        raise TranslateError("BaseChannel.write: plain branch is not logger.debug(<fmt>, channel_input)")
    out = {"writeRedactedMsg": yes.args[0].value, "writePlainFmt": no.args[0].value}
    per = []
    for rel, cls in (("channel/sync_channel.py", "Channel"), ("channel/async_channel.py", "AsyncChannel")):
        f = _find_method(ix, rel, cls, "send_inputs_interact")
        token = fmt = tvar = None
        wr = False
        for n in ast.walk(f.node):
            if (isinstance(n, ast.Assign) and len(n.targets) == 1 and isinstance(n.targets[0], ast.Name)
                    and isinstance(n.value, ast.IfExp)):
                v = n.value
                if (isinstance(v.test, ast.UnaryOp) and isinstance(v.test.op, ast.Not) and isinstance(v.test.operand, ast.Name)
                        and v.test.operand.id == "hidden_input" and isinstance(v.body, ast.Name) and v.body.id == "channel_input"
                        and isinstance(v.orelse, ast.Constant) and isinstance(v.orelse.value, str)):
                    token, tvar = v.orelse.value, n.targets[0].id
        for n in ast.walk(f.node):
            if isinstance(n, ast.Call) and isinstance(n.func, ast.Attribute) and n.func.attr == "info" \
                    and isinstance(n.func.value, ast.Attribute) and n.func.value.attr == "logger":
                a = n.args
                if (len(a) == 4 and isinstance(a[0], ast.Constant) and tvar is not None and [getattr(x, "id", None) for x in a[1:]]
                        == [tvar, "channel_response", "hidden_input"]):
                    fmt = a[0].value
            if isinstance(n, ast.Call) and isinstance(n.func, ast.Attribute) and n.func.attr == "write" \
                    and isinstance(n.func.value, ast.Name) and n.func.value.id == "self":
                kw = {k.arg: k.value for k in n.keywords}
                r = kw.get("redacted")
                if (not n.args and isinstance(kw.get("channel_input"), ast.Name) and kw["channel_input"].id == "channel_input"
                        and isinstance(r, ast.Call) and isinstance(r.func, ast.Name) and r.func.id == "bool"
                        and len(r.args) == 1 and isinstance(r.args[0], ast.Name) and r.args[0].id == "hidden_input"):
                    wr = True
        if token is None or fmt is None or not wr:
            raise TranslateError(f"{cls}.send_inputs_interact: redaction statements not found in the modelled shape "
                                 f"(token={token!r} fmt={fmt!r} write={wr})")
        per.append((token, fmt))
    if per[0] != per[1]:
        raise TranslateError(f"sync and asyncio send_inputs_interact log differently: {per}")
    out["redactedToken"], out["interactFmt"] = per[0]
    return out


# ---------------------------------------------------------------- places where the extraction DROPS taint by assumption
EXPECTED = __file__.rsplit("/", 1)[0] + "/c12_expected.json"


def reviewed_decisions(an):
    """attributes treated as opaque handles, exception handlers treated as receiving library-authored text, log
    calls whose receiver is not called *logger*: each is a reviewed decision, listed in gen/c12_expected.json; a change
    of the set is a TranslateError until the file is updated by hand"""
    import json, os
    attrs = set(an.ix.attr_tags) | set(an.ix.attr_ann)
    cur = {"handle_attributes": sorted(a for a in attrs if an.ix.is_handle_attr(a)),
           "narrow_exception_handlers": sorted(an.narrow_handlers),
           "log_sinks_with_unnamed_receiver": sorted(x.rsplit(":", 1)[0] for x in an.unnamed_log_sinks)}
    if os.environ.get("C12_WRITE_EXPECTED"):
        json.dump(cur, open(EXPECTED, "w"), indent=1)
    try:
        exp = json.load(open(EXPECTED))
    except OSError:
        raise TranslateError("gen/c12_expected.json missing (run once with C12_WRITE_EXPECTED=1 and review it)")
    for k in ("handle_attributes", "narrow_exception_handlers"):
        new = sorted(set(cur[k]) - set(exp.get(k, [])))
        if new:
            raise TranslateError(f"new taint-dropping assumption ({k}): {new[:5]} - review it and add it to gen/c12_expected.json")
    return cur


# ---------------------------------------------------------------- Lean emission
def lean_str(s):
    out = ['"']
    for ch in s:
        o = ord(ch)
        if ch == '"':
            out.append('\\"')
        elif ch == "\\":
            out.append("\\\\")
        elif ch == "\n":
            out.append("\\n")
        elif ch == "\t":
            out.append("\\t")
        elif o < 32 or o == 127:
            out.append(f"\\x{o:02x}")
        else:
            out.append(ch)
    out.append('"')
    return "".join(out)


def _natlist(l):
    return "[" + ",".join(str(x) for x in l) + "]"


_CACHE = {}


def build(repo=None):
    key = str(repo or REPO)
    if key not in _CACHE:
        _CACHE[key] = FlowGraph(key)
    return _CACHE[key]


def generate():
    g = build()
    src = "the AST of every module under scrapli/ (tools/gen/c12.py)"
    body = [HEADER.format(src=src), "import ScrapliModel.Flow\n", "namespace Scrapli.Gen.Flow\nopen Scrapli.Flow\n",
            f"-- {len(g.names)} nodes, {g.nedges} edges, {len(g.sources)} sources, {len(g.sinks)} sinks, "
            f"{len(g.sanitisers)} sanitisers, {len(g.advisory)} advisory sinks\n",
            "set_option maxRecDepth 100000\n"]
    CH = 200   # rows per definition: one huge list literal overflows the elaborator's recursion depth
    chunks = [g.adj[i:i + CH] for i in range(0, len(g.adj), CH)]
    for i, ch in enumerate(chunks):
        body.append(f"def adj{i} : List (List Nat) := [\n" + ",\n".join(_natlist(a) for a in ch) + "]\n")
    # right-nested: looking up a small index only walks the first chunk
    body.append("def adj : List (List Nat) := " + " ++ (".join(f"adj{i}" for i in range(len(chunks))) + ")" * (len(chunks) - 1) + "\n")
    body.append(f"def nNodes : Nat := {len(g.adj)}\n")
    body.append(f"def sources : List Nat := {_natlist(g.sources)}\n")
    body.append(f"def sinks : List Nat := {_natlist(g.sinks)}\n")
    body.append(f"def sanitisers : List Nat := {_natlist(g.sanitisers)}\n")
    body.append(f"def advisorySinks : List Nat := {_natlist(g.advisory)}\n")
    for r, ids in g.role_sources.items():
        body.append(f"def sources{r} : List Nat := {_natlist(ids)}\n")
    for k, ids in g.kind_sinks.items():
        body.append(f"def sinks{k.capitalize()} : List Nat := {_natlist(ids)}\n")
    body.append("def graph : Graph := { adj := adj, sources := sources, sinks := sinks, sanitisers := sanitisers }\n")
    body.append("/-- the same graph with the non-driver repr/str (Response, SSHConfig, …) as sinks: advisory -/\n")
    body.append("def advisoryGraph : Graph := { graph with sinks := advisorySinks }\n")
    for k in ("redactedToken", "interactFmt", "writeRedactedMsg", "writePlainFmt"):
        body.append(f"def {k} : String := {lean_str(g.consts[k])}\n")
    body.append("end Scrapli.Gen.Flow\n")
    names = [HEADER.format(src=src), "namespace Scrapli.Gen.FlowNames\nset_option maxRecDepth 100000\n"]
    nch = [g.names[i:i + CH] for i in range(0, len(g.names), CH)]
    for i, ch in enumerate(nch):
        names.append(f"def names{i} : List String := [\n" + ",\n".join(lean_str(n) for n in ch) + "]\n")
    names.append("def names : Array String := (" + " ++ ".join(f"names{i}" for i in range(len(nch))) + ").toArray\n")
    names.append("end Scrapli.Gen.FlowNames\n")
    # certificates (untrusted: computed here, CHECKED by the kernel): the set reachable from the sources without
    # entering a sanitiser, and one walk source -> sink in the graph with the sanitisers ignored
    par = g.reach(g.sources)
    closed = sorted(par)
    par2 = g.reach(g.sources, avoid_sanitisers=False)
    hit = sorted(t for t in par2 if g.kind[t] == "sink")
    walk = []
    if hit:
        t = min(hit, key=lambda x: len(g.path(par2, x)))
        n = t
        while n is not None:
            walk.append(n)
            n = par2[n]
        walk.reverse()
    cert = [HEADER.format(src=src + "; certificates computed by the translator, checked in ScrapliProps/C12.lean"),
            "namespace Scrapli.Gen.FlowCert\nset_option maxRecDepth 100000\n",
            f"def closedSet : List Nat := {_natlist(closed)}\n",
            f"def witnessStart : Nat := {walk[0] if walk else 0}\n",
            f"def witnessWalk : List Nat := {_natlist(walk[1:])}\n",
            f"def witnessEnd : Nat := {walk[-1] if walk else 0}\n",
            "end Scrapli.Gen.FlowCert\n"]
    return [("ScrapliModel/Gen/FlowGraph.lean", "".join(body)), ("ScrapliModel/Gen/FlowNames.lean", "".join(names)),
            ("ScrapliModel/Gen/FlowCert.lean", "".join(cert))]
