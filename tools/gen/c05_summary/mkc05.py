# one-off generator of the STATIC file lean/ScrapliProps/C05.lean (run by hand after the set of suites/modes changes: /venv/bin/python tools/gen/c05_summary/mkc05.py)
import sys, json; sys.path.insert(0,'/verif/tools')
st=json.load(open('/verif/lean/.lake/c05-certs.json'))["obligations"]
suites={}
for n,i in st.items():
    suites.setdefault(i["suite"],{}).setdefault(i["mode_index"],(i["mode"],{}))[1][i["kind"]]=(n,i)
main=["iosxe","iosxr","nxos","nxosS","eos","eosS","junos"]
title={"iosxe":"Cisco IOS-XE","iosxr":"Cisco IOS-XR","nxos":"Cisco NX-OS","nxosS":"Cisco NX-OS after register_configuration_session (two sessions)",
 "eos":"Arista EOS","eosS":"Arista EOS after register_configuration_session (three sessions, two sharing their first six characters)","junos":"Juniper Junos (grammar restricted by the predicate of finding F12)"}
samples={("iosxe",0):"rtr1>",("iosxe",1):"rtr1#",("iosxe",2):"rtr1(config-if)#",("iosxe",3):"rtr1(tcl)#",
 ("iosxr",0):"RP/0/RP0/CPU0:xr1#",("iosxr",1):"RP/0/RSP0/CPU0:xr1(config-if)#",
 ("nxos",0):"n9k(maint-mode)> ",("nxos",1):"n9k# ",("nxos",2):"n9k(config-if)# ",("nxos",3):"n9k(maint-mode)(config-tcl)# ",
 ("nxosS",0):"n9k> ",("nxosS",1):"n9k# ",("nxosS",2):"n9k(config-if)# ",("nxosS",3):"n9k-tcl# ",("nxosS",4):"n9k(config-s-acl)# ",
 ("eos",0):"leaf1>",("eos",1):"leaf1#",("eos",2):"leaf1(config-if-et1)#",
 ("eosS",0):"leaf1>",("eosS",1):"leaf1#",("eosS",2):"leaf1(config-s)#",("eosS",3):"leaf1(config-s-confs--if)#",("eosS",4):"leaf1(config-s-c.F+g)#",
 ("junos",0):"{master:0}\\nadmin@mx1> ",("junos",1):"{master:0}[edit]\\nadmin@mx1# ",("junos",2):"admin@mx1:~ % ",("junos",3):"root@mx1:~ # "}
PARTIALS={("junos",1):"F12 open: prompt without `root`; unrestricted verdict: C05Full.junosFull_configuration_full_refuted",("junos",2):"F12 open: prompt without `root`; unrestricted verdict: C05Full.junosFull_shell_full_refuted",("nxos",1):"F24 open: hostname without `-tcl`; unrestricted verdict: C05Full.nxosFull_privilege_exec_full_refuted",("nxos",2):"F24 open: hostname without `config-`; unrestricted verdict: C05Full.nxosFull_configuration_full_refuted",("nxosS",1):"F24 open: hostname without `-tcl` (see nxosFull)",("nxosS",2):"F24 open: hostname without `config-`; also sub-mode not starting with `s` (F25, fixed: unrestricted sub-modes PROVED in C05Full.nxosSFull_configuration_full)",("eosS",3):"hostname without `_` (F26, fixed: unrestricted grammar PROVED in C05Full.eosSFull_session0_full); name set must satisfy SessionNames.unrelated (F27/F28 open)",("eosS",4):"hostname without `_` (F26, fixed: unrestricted grammar PROVED in C05Full.eosSFull_session1_full); name set must satisfy SessionNames.unrelated (F27/F28 open)"}
mods=sorted(n for n,i in st.items() if not i['suite'].endswith('Full'))
out=["import ScrapliProps.C05Lemmas","import ScrapliModel.Bytes","import ScrapliModel.Spec.SessionNames","import ScrapliModel.C05Suite_eosP"]+[f"import ScrapliProps.C05.{m}" for m in mods]
out.append(open('/verif/tools/gen/c05_summary/c05_head.txt').read())
for sn in main:
    out.append(f"\n/-! ### {title[sn]} -/\n")
    modes=suites[sn]
    for i in sorted(modes):
        mode,k=modes[i]
        tn=f"{sn}_{k['det'][0][len(sn)+1:-4]}"+("_partial" if (sn,i) in PARTIALS else "")
        out.append(f"/-- {sn}, mode `{mode}`" + (f" — PARTIAL: grammar restricted ({PARTIALS[(sn,i)]})" if (sn,i) in PARTIALS else "") + " -/")
        out.append(f"theorem {tn} : ModeOK {sn}.table (nthMode {sn}.modes {i}) :=\n  modeOK_of_empty _ _ Ob.{k['det'][0]}.empty Ob.{k['own'][0]}.empty Ob.{k['for'][0]}.empty")
        out.append(f"example : rmatch (nthMode {sn}.modes {i}).grammar (ofString \"{samples[(sn,i)]}\") = true := by decide +kernel\n")
    n=len(modes)
    out.append(f"theorem {sn}_nmodes : {sn}.modes.length = {n} := by decide +kernel")
    out.append(f"/-- the share groups named by the specification exist in the generated table (no vacuous inclusion) -/")
    out.append(f"theorem {sn}_groups_present : {sn}.modes.all (groupPresent {sn}.table) = true := by decide +kernel")
    out.append(f"/-- `update_regenerates`: the pattern the channel holds is (modulo ACI of `|`) the alternation of this table -/")
    out.append(f"theorem {sn}_detect_is_join : ∀ w, detects {sn}.table w = true ↔ ∃ l ∈ {sn}.table.levels, Lang l.search w :=\n  detect_join _ (by decide +kernel)")
    out.append(f"/-- **C05 for {sn}**: every mode of the specification" + (" (modes marked PARTIAL: for the restricted grammar)" if any(a==sn for a,_ in PARTIALS) else "") + " -/")
    cases="\n".join(f"  | {i}, _ => exact {sn}_{modes[i][1]['det'][0][len(sn)+1:-4]}"+("_partial" if (sn,i) in PARTIALS else "") for i in sorted(modes))
    out.append(f"theorem {sn}_all : ∀ m ∈ {sn}.modes, ModeOK {sn}.table m := by\n  apply forall_modes\n  intro i hi\n  rw [{sn}_nmodes] at hi\n  match i, hi with\n{cases}\n  | k + {n}, h => omega\n")
out.append(open('/verif/tools/gen/c05_summary/c05_tail.txt').read())
open('/verif/lean/ScrapliProps/C05.lean','w').write("\n".join(out))
