"""translator piece for C15: Telnet protocol constants, reply limits, and -- read off the AST of both transports -- the reply
table of `_handle_control_chars_response`, whether a completed command is counted, and the comparison that ends negotiation mode"""
import ast
from translate import HEADER, REPO, TranslateError, _module_consts, _self_attr_const

FILES = {"sync": ("scrapli/transport/plugins/telnet/transport.py", "TelnetTransport"),
         "async": ("scrapli/transport/plugins/asynctelnet/transport.py", "AsynctelnetTransport")}


def _cls(rel, name):
    for n in ast.parse((REPO / rel).read_text()).body:
        if isinstance(n, ast.ClassDef) and n.name == name:
            return n
    raise TranslateError(f"{rel}: class {name} not found")


def _method(cls, name):
    for n in cls.body:
        if isinstance(n, (ast.FunctionDef, ast.AsyncFunctionDef)) and n.name == name:
            return n
    return None


def _name(n):
    return n.id if isinstance(n, ast.Name) else None


def _reply_rows(rel, cname, consts):
    """rows (cmd, special option | None, answer verb) in source order, from the if/elif chain of the `len(control_buf) == 2` branch"""
    f = _method(_cls(rel, cname), "_handle_control_chars_response")
    if f is None:
        raise TranslateError(f"{rel}: _handle_control_chars_response not found")
    branch = None
    for n in ast.walk(f):
        if isinstance(n, ast.If) and ast.unparse(n.test).replace(" ", "") == "len(control_buf)==2":
            branch = n
    if branch is None:
        raise TranslateError(f"{rel}: no `len(control_buf) == 2` branch")
    chain = [s for s in branch.body if isinstance(s, ast.If)]
    if len(chain) != 1:
        raise TranslateError(f"{rel}: expected exactly one if/elif reply chain, found {len(chain)}")
    rows, node = [], chain[0]

    def answer(body):
        calls = [s.value for s in body if isinstance(s, ast.Expr) and isinstance(s.value, ast.Call)]
        if len(calls) != 1 or len(body) != 1:
            raise TranslateError(f"{rel}: a reply branch must be a single write call: {ast.unparse(body)[:80]}")
        arg = calls[0].args[0] if calls[0].args else None
        # IAC + VERB + c
        if not (isinstance(arg, ast.BinOp) and isinstance(arg.left, ast.BinOp) and _name(arg.left.left) == "IAC" and _name(arg.right) == "c"):
            raise TranslateError(f"{rel}: reply is not `IAC + <verb> + c`: {ast.unparse(calls[0])}")
        v = _name(arg.left.right)
        if v not in consts:
            raise TranslateError(f"{rel}: unknown verb {v}")
        return v

    def tests(t):
        """list of (cmd name, special option name | None)"""
        src = ast.unparse(t).replace(" ", "").replace("(", "").replace(")", "")
        if isinstance(t, ast.BoolOp) and isinstance(t.op, ast.And) and len(t.values) == 2:
            a, b = (ast.unparse(v).replace(" ", "").replace("(", "").replace(")", "") for v in t.values)
            if a.startswith("cmd==") and b.startswith("c=="):
                return [(a[5:], b[3:])]
        if isinstance(t, ast.Compare) and _name(t.left) == "cmd" and len(t.ops) == 1:
            if isinstance(t.ops[0], ast.Eq):
                return [(_name(t.comparators[0]), None)]
            if isinstance(t.ops[0], ast.In) and isinstance(t.comparators[0], ast.Tuple):
                return [(_name(e), None) for e in t.comparators[0].elts]
        raise TranslateError(f"{rel}: reply test of an unknown shape: {src}")

    while True:
        ans = answer(node.body)
        for cmd, special in tests(node.test):
            if cmd not in consts or (special is not None and special not in consts):
                raise TranslateError(f"{rel}: unknown constant in reply test {cmd}/{special}")
            rows.append((cmd, special, ans))
        if len(node.orelse) == 1 and isinstance(node.orelse[0], ast.If):
            node = node.orelse[0]
        elif not node.orelse:
            break
        else:
            raise TranslateError(f"{rel}: reply chain ends in an else branch")
    # whether a completed command is counted: a call in that branch to a method of the class that increments the counter
    cls = _cls(rel, cname)
    counts = False
    for s in ast.walk(branch):
        if isinstance(s, ast.Call) and isinstance(s.func, ast.Attribute) and _name(s.func.value) == "self":
            m = _method(cls, s.func.attr)
            if m is not None and any(isinstance(x, ast.AugAssign) and isinstance(x.op, ast.Add) and ast.unparse(x.target) == "self._control_char_sent_counter"
                                     for x in ast.walk(m)):
                counts = True
        if isinstance(s, ast.AugAssign) and ast.unparse(s.target) == "self._control_char_sent_counter":
            counts = True
    # the comparison(s) that keep the transport in negotiation mode
    cmps = set()
    for n in ast.walk(cls):
        if isinstance(n, ast.If) and isinstance(n.test, ast.Compare) and ast.unparse(n.test.left) == "self._control_char_sent_counter" \
                and ast.unparse(n.test.comparators[0]) == "self._control_char_sent_limit" and any(
                    isinstance(c, ast.Call) and ast.unparse(c.func) == "self._handle_control_chars" for b in n.body for c in ast.walk(b)):
            cmps.add(type(n.test.ops[0]).__name__)
    if len(cmps) != 1:
        raise TranslateError(f"{rel}: negotiation-mode guard `counter <op> limit` not found or not uniform: {sorted(cmps)}")
    return rows, counts, cmps.pop()


def generate():
    rel = "scrapli/transport/base/telnet_common.py"
    c = _module_consts(rel)
    names = ["NULL", "IAC", "DONT", "DO", "WONT", "WILL", "SUPPRESS_GO_AHEAD"]
    body = HEADER.format(src=rel + " and the two Telnet transports") + "namespace Scrapli.Gen.Telnet\n"
    for n in names:
        v = c.get(n)
        if not (isinstance(v, bytes) and len(v) == 1):
            raise TranslateError(f"{rel}: {n} is not a single byte: {v!r}")
        body += f"def {n} : UInt8 := {v[0]}\n"
    sl = _self_attr_const("scrapli/transport/plugins/telnet/transport.py", "TelnetTransport", "_control_char_sent_limit")
    al = _self_attr_const("scrapli/transport/plugins/asynctelnet/transport.py", "AsynctelnetTransport", "_control_char_sent_limit")
    body += f"def syncLimit : Nat := {int(sl)}\ndef asyncLimit : Nat := {int(al)}\n"
    body += ("/-- the if/elif reply chain of `_handle_control_chars_response`, in source order: (command verb, the one option it is\n"
             "    special-cased for | none = any option, verb of the answer) -/\n")
    for stack in ("sync", "async"):
        rows, counts, cmp_ = _reply_rows(*FILES[stack], set(names))
        lean_rows = ", ".join(f"({a}, {'some ' + s if s else 'none'}, {v})" for a, s, v in rows)
        body += f"def {stack}ReplyTable : List (UInt8 × Option UInt8 × UInt8) := [{lean_rows}]\n"
        body += f"/-- a completed command increments `_control_char_sent_counter` in this transport -/\ndef {stack}Counts : Bool := {'true' if counts else 'false'}\n"
        body += f"/-- the comparison `counter <op> limit` that keeps the transport handling control characters -/\ndef {stack}LimitCmp : String := \"{cmp_}\"\n"
    body += "end Scrapli.Gen.Telnet\n"
    return [("ScrapliModel/Gen/TelnetConsts.lean", body)]
