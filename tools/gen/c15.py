"""translator piece for C15: Telnet protocol constants and reply limits"""
from translate import HEADER, TranslateError, _module_consts, _self_attr_const


def generate():
    rel = "scrapli/transport/base/telnet_common.py"
    c = _module_consts(rel)
    names = ["NULL", "IAC", "DONT", "DO", "WONT", "WILL", "SUPPRESS_GO_AHEAD"]
    body = HEADER.format(src=rel + " and the two Telnet transports") + "namespace Scrapli.Gen.Telnet\n"
    for n in names:
        v = c.get(n)
        if not (isinstance(v, bytes) and len(v) == 1):
            raise TranslateError(f"{rel}: {n} is not a single byte: {v!r}")
        body += f"def {n} : UInt8 := {v[0]}\n"
    sl = _self_attr_const("scrapli/transport/plugins/telnet/transport.py", "TelnetTransport", "_control_char_sent_limit")
    al = _self_attr_const("scrapli/transport/plugins/asynctelnet/transport.py", "AsynctelnetTransport", "_control_char_sent_limit")
    body += f"def syncLimit : Nat := {int(sl)}\ndef asyncLimit : Nat := {int(al)}\nend Scrapli.Gen.Telnet\n"
    return [("ScrapliModel/Gen/TelnetConsts.lean", body)]


