"""translator piece for C15: Telnet protocol constants, reply limits, the reply table of `_handle_control_chars_response` and whether a
completed command is counted -- both MEASURED on live transport objects (every verb x every option) and cross-checked against the AST
where the source has the familiar if/elif shape -- and, from the AST, the comparison that ends negotiation mode"""
import ast
from translate import HEADER, REPO, TranslateError, _module_consts, _self_attr_const

FILES = {"sync": ("scrapli/transport/plugins/telnet/transport.py", "TelnetTransport"),
         "async": ("scrapli/transport/plugins/asynctelnet/transport.py", "AsynctelnetTransport")}


def _cls(rel, name):
    for n in ast.parse((REPO / rel).read_text()).body:
        if isinstance(n, ast.ClassDef) and n.name == name:
            return n
    raise TranslateError(f"{rel}: class {name} not found")


def _method(cls, name):
    for n in cls.body:
        if isinstance(n, (ast.FunctionDef, ast.AsyncFunctionDef)) and n.name == name:
            return n
    return None


def _name(n):
    return n.id if isinstance(n, ast.Name) else None


def _reply_rows(rel, cname, consts):
    """rows (cmd, special option | None, answer verb) in source order, from the if/elif chain of the `len(control_buf) == 2` branch"""
    f = _method(_cls(rel, cname), "_handle_control_chars_response")
    if f is None:
        raise TranslateError(f"{rel}: _handle_control_chars_response not found")
    branch = None
    for n in ast.walk(f):
        if isinstance(n, ast.If) and ast.unparse(n.test).replace(" ", "") == "len(control_buf)==2":
            branch = n
    if branch is None:
        raise TranslateError(f"{rel}: no `len(control_buf) == 2` branch")
    chain = [s for s in branch.body if isinstance(s, ast.If)]
    if len(chain) != 1:
        raise TranslateError(f"{rel}: expected exactly one if/elif reply chain, found {len(chain)}")
    rows, node = [], chain[0]

    def answer(body):
        calls = [s.value for s in body if isinstance(s, ast.Expr) and isinstance(s.value, ast.Call)]
        if len(calls) != 1 or len(body) != 1:
            raise TranslateError(f"{rel}: a reply branch must be a single write call: {ast.unparse(body)[:80]}")
        arg = calls[0].args[0] if calls[0].args else None
        # IAC + VERB + c
        if not (isinstance(arg, ast.BinOp) and isinstance(arg.left, ast.BinOp) and _name(arg.left.left) == "IAC" and _name(arg.right) == "c"):
            raise TranslateError(f"{rel}: reply is not `IAC + <verb> + c`: {ast.unparse(calls[0])}")
        v = _name(arg.left.right)
        if v not in consts:
            raise TranslateError(f"{rel}: unknown verb {v}")
        return v

    def tests(t):
        """list of (cmd name, special option name | None)"""
        src = ast.unparse(t).replace(" ", "").replace("(", "").replace(")", "")
        if isinstance(t, ast.BoolOp) and isinstance(t.op, ast.And) and len(t.values) == 2:
            a, b = (ast.unparse(v).replace(" ", "").replace("(", "").replace(")", "") for v in t.values)
            if a.startswith("cmd==") and b.startswith("c=="):
                return [(a[5:], b[3:])]
        if isinstance(t, ast.Compare) and _name(t.left) == "cmd" and len(t.ops) == 1:
            if isinstance(t.ops[0], ast.Eq):
                return [(_name(t.comparators[0]), None)]
            if isinstance(t.ops[0], ast.In) and isinstance(t.comparators[0], ast.Tuple):
                return [(_name(e), None) for e in t.comparators[0].elts]
        raise TranslateError(f"{rel}: reply test of an unknown shape: {src}")

    while True:
        ans = answer(node.body)
        for cmd, special in tests(node.test):
            if cmd not in consts or (special is not None and special not in consts):
                raise TranslateError(f"{rel}: unknown constant in reply test {cmd}/{special}")
            rows.append((cmd, special, ans))
        if len(node.orelse) == 1 and isinstance(node.orelse[0], ast.If):
            node = node.orelse[0]
        elif not node.orelse:
            break
        else:
            raise TranslateError(f"{rel}: reply chain ends in an else branch")
    # whether a completed command is counted: a call in that branch to a method of the class that increments the counter
    cls = _cls(rel, cname)
    counts = False
    for s in ast.walk(branch):
        if isinstance(s, ast.Call) and isinstance(s.func, ast.Attribute) and _name(s.func.value) == "self":
            m = _method(cls, s.func.attr)
            if m is not None and any(isinstance(x, ast.AugAssign) and isinstance(x.op, ast.Add) and ast.unparse(x.target) == "self._control_char_sent_counter"
                                     for x in ast.walk(m)):
                counts = True
        if isinstance(s, ast.AugAssign) and ast.unparse(s.target) == "self._control_char_sent_counter":
            counts = True
    return rows, counts, _limit_cmp(rel, cname)


def _limit_cmp(rel, cname):
    """the comparison(s) that keep the transport in negotiation mode"""
    cls = _cls(rel, cname)
    cmps = set()
    for n in ast.walk(cls):
        if isinstance(n, ast.If) and isinstance(n.test, ast.Compare) and ast.unparse(n.test.left) == "self._control_char_sent_counter" \
                and ast.unparse(n.test.comparators[0]) == "self._control_char_sent_limit" and any(
                    isinstance(c, ast.Call) and ast.unparse(c.func) == "self._handle_control_chars" for b in n.body for c in ast.walk(b)):
            cmps.add(type(n.test.ops[0]).__name__)
    if len(cmps) != 1:
        raise TranslateError(f"{rel}: negotiation-mode guard `counter <op> limit` not found or not uniform: {sorted(cmps)}")
    return cmps.pop()


def _measured_rows(stack, c):
    """the reply behaviour of `_handle_control_chars_response` MEASURED on a live transport object over a recording socket/writer: every
    command verb x every option byte.  Returns (rows in first-match order, whether a completed command is counted).  Independent of how
    the method is written; anything the table format cannot express (a reply that is not IAC+verb+option, replies for some options of a
    verb only) raises TranslateError."""
    from vlib.common import use_repo
    use_repo()
    from scrapli.transport.base import BaseTransportArgs
    targs = BaseTransportArgs(transport_options={}, host="h", port=23, timeout_socket=1, timeout_transport=0, logging_uid="")
    sent = []

    class _Raw:
        def send(self, b):
            sent.append(bytes(b))
            return len(b)

        sendall = send

        def settimeout(self, t):
            pass

        def gettimeout(self):
            return 1

    class _Sock:
        sock = _Raw()

        def isalive(self):
            return True

        def __bool__(self):
            return True

    class _Writer:
        def write(self, b):
            sent.append(bytes(b))

    if stack == "sync":
        from scrapli.transport.plugins.telnet.transport import PluginTransportArgs, TelnetTransport
        t = TelnetTransport(targs, PluginTransportArgs())
        t.socket = _Sock()
    else:
        from scrapli.transport.plugins.asynctelnet.transport import AsynctelnetTransport, PluginTransportArgs
        t = AsynctelnetTransport(targs, PluginTransportArgs())
        t.stdin = _Writer()
    by_name = {c[n][0]: n for n in ("DO", "DONT", "WILL", "WONT")}
    special_names = {c["SUPPRESS_GO_AHEAD"][0]: "SUPPRESS_GO_AHEAD"}
    rows, counted = [], set()
    for cmd in ("DO", "DONT", "WILL", "WONT"):
        answers = {}
        for opt in range(256):
            del sent[:]
            before = t._control_char_sent_counter
            try:
                left = t._handle_control_chars_response(control_buf=c["IAC"] + c[cmd], c=bytes([opt]))
            except Exception as exc:     # noqa: BLE001
                raise TranslateError(f"{stack} telnet: _handle_control_chars_response(IAC {cmd}, {opt}) raised {exc!r}")
            if left != b"":
                raise TranslateError(f"{stack} telnet: a completed command IAC {cmd} {opt} leaves control_buf {left!r}")
            counted.add(t._control_char_sent_counter - before)
            t._control_char_sent_counter = 0
            out = b"".join(sent)
            if out == b"":
                answers[opt] = None
            elif len(out) == 3 and out[:1] == c["IAC"] and out[2] == opt and out[1] in by_name:
                answers[opt] = by_name[out[1]]
            else:
                raise TranslateError(f"{stack} telnet: the reply to IAC {cmd} {opt} is not IAC <verb> <option>: {out!r}")
        vals = list(answers.values())
        if all(v is None for v in vals):
            continue
        if any(v is None for v in vals):
            raise TranslateError(f"{stack} telnet: {cmd} is answered for some options only")
        default = max(set(vals), key=vals.count)
        for opt, v in answers.items():
            if v != default:
                if opt not in special_names:
                    raise TranslateError(f"{stack} telnet: {cmd} {opt} is special-cased ({v}) but the option has no name in telnet_common")
                rows.append((cmd, special_names[opt], v))
        rows.append((cmd, None, default))
    if counted - {0, 1} or len(counted) != 1:
        raise TranslateError(f"{stack} telnet: a completed command changes the counter by {sorted(counted)}")
    return rows, counted == {1}


def generate():
    rel = "scrapli/transport/base/telnet_common.py"
    c = _module_consts(rel)
    names = ["NULL", "IAC", "DONT", "DO", "WONT", "WILL", "SUPPRESS_GO_AHEAD"]
    body = HEADER.format(src=rel + " and the two Telnet transports") + "namespace Scrapli.Gen.Telnet\n"
    for n in names:
        v = c.get(n)
        if not (isinstance(v, bytes) and len(v) == 1):
            raise TranslateError(f"{rel}: {n} is not a single byte: {v!r}")
        body += f"def {n} : UInt8 := {v[0]}\n"
    sl = _self_attr_const("scrapli/transport/plugins/telnet/transport.py", "TelnetTransport", "_control_char_sent_limit")
    al = _self_attr_const("scrapli/transport/plugins/asynctelnet/transport.py", "AsynctelnetTransport", "_control_char_sent_limit")
    body += f"def syncLimit : Nat := {int(sl)}\ndef asyncLimit : Nat := {int(al)}\n"
    body += ("/-- the if/elif reply chain of `_handle_control_chars_response`, in source order: (command verb, the one option it is\n"
             "    special-cased for | none = any option, verb of the answer) -/\n")
    for stack in ("sync", "async"):
        rows, counts = _measured_rows(stack, c)
        try:
            # the same facts read off the AST: a cross-check where the source has the familiar shape, the comparison of the negotiation guard
            arows, acounts, cmp_ = _reply_rows(*FILES[stack], set(names))
            if (arows, acounts) != (rows, counts):
                raise TranslateError(f"{stack} telnet: the reply table read off the AST {arows}/{acounts} differs from the measured one {rows}/{counts}")
        except TranslateError as exc:
            if "differs from the measured" in str(exc):
                raise
            cmp_ = _limit_cmp(*FILES[stack])
        lean_rows = ", ".join(f"({a}, {'some ' + s if s else 'none'}, {v})" for a, s, v in rows)
        body += f"def {stack}ReplyTable : List (UInt8 × Option UInt8 × UInt8) := [{lean_rows}]\n"
        body += f"/-- a completed command increments `_control_char_sent_counter` in this transport -/\ndef {stack}Counts : Bool := {'true' if counts else 'false'}\n"
        body += f"/-- the comparison `counter <op> limit` that keeps the transport handling control characters -/\ndef {stack}LimitCmp : String := \"{cmp_}\"\n"
    body += "end Scrapli.Gen.Telnet\n"
    return [("ScrapliModel/Gen/TelnetConsts.lean", body)]
