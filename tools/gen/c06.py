"""translator piece for C06 (sync/asyncio parity).  Regenerated on every run from BOTH ASTs of each twin
module pair of /repo's working tree:

  * syncTable / asyncTable : for every class pair, the base classes and every PUBLIC method (no leading
    underscore, plus __init__ and the context-manager methods) with its parameter list — name, kind,
    default (canonical `ast.unparse`) — and per module pair the module-level functions (on_open / on_close
    hooks).  Async names are mapped onto their sync twins (class names via the pair table,
    __aenter__/__aexit__ -> __enter__/__exit__) so that the two tables are comparable entry by entry.
  * knownDiffs : the parity entries of OPEN findings (findings/C06.json + known_findings.json); the
    theorem is stated modulo exactly these.
  * twinDiffs : the twin function pairs whose NORMALISED bodies differ (async/await stripped, class names
    mapped, docstrings / annotations / logger calls dropped, asyncio.Lock<->Lock, asyncio.sleep<->time.sleep,
    asynccontextmanager<->contextmanager) with a hash of the differing pair; auditedTwinDiffs : the audited
    set from corpus/C06/audited_twin_diffs.json.
  * the three default in-channel authentication patterns (the concrete predicates of the auth model are
    written for these exact strings).
"""
import ast, copy, hashlib, json
from pathlib import Path

from translate import HEADER, TranslateError
from vlib.common import REPO, VERIF

CORE = "scrapli/driver/core/"
# (pair key, sync file, async file, [(sync class, async class)])
PAIRS = [
    ("channel", "scrapli/channel/sync_channel.py", "scrapli/channel/async_channel.py", [("Channel", "AsyncChannel")]),
    ("driver_base", "scrapli/driver/base/sync_driver.py", "scrapli/driver/base/async_driver.py", [("Driver", "AsyncDriver")]),
    ("driver_generic", "scrapli/driver/generic/sync_driver.py", "scrapli/driver/generic/async_driver.py", [("GenericDriver", "AsyncGenericDriver")]),
    ("driver_network", "scrapli/driver/network/sync_driver.py", "scrapli/driver/network/async_driver.py", [("NetworkDriver", "AsyncNetworkDriver")]),
    ("cisco_iosxe", CORE + "cisco_iosxe/sync_driver.py", CORE + "cisco_iosxe/async_driver.py", [("IOSXEDriver", "AsyncIOSXEDriver")]),
    ("cisco_iosxr", CORE + "cisco_iosxr/sync_driver.py", CORE + "cisco_iosxr/async_driver.py", [("IOSXRDriver", "AsyncIOSXRDriver")]),
    ("cisco_nxos", CORE + "cisco_nxos/sync_driver.py", CORE + "cisco_nxos/async_driver.py", [("NXOSDriver", "AsyncNXOSDriver")]),
    ("arista_eos", CORE + "arista_eos/sync_driver.py", CORE + "arista_eos/async_driver.py", [("EOSDriver", "AsyncEOSDriver")]),
    ("juniper_junos", CORE + "juniper_junos/sync_driver.py", CORE + "juniper_junos/async_driver.py", [("JunosDriver", "AsyncJunosDriver")]),
    ("transport_base", "scrapli/transport/base/sync_transport.py", "scrapli/transport/base/async_transport.py", [("Transport", "AsyncTransport")]),
    ("transport_telnet", "scrapli/transport/plugins/telnet/transport.py", "scrapli/transport/plugins/asynctelnet/transport.py",
     [("TelnetTransport", "AsynctelnetTransport"), ("PluginTransportArgs", "PluginTransportArgs")]),
]
CLASS_MAP = {a: s for _, _, _, cl in PAIRS for s, a in cl if a != s}       # async class name -> sync class name
DUNDER_MAP = {"__aenter__": "__enter__", "__aexit__": "__exit__"}
DUNDER_PUBLIC = {"__init__", "__enter__", "__exit__", "__aenter__", "__aexit__", "__call__", "__bool__", "__repr__", "__str__"}
# names whose async spelling is mapped onto the sync one in the structural comparison
NAME_MAP = {**CLASS_MAP, "asynccontextmanager": "contextmanager", "AsyncIterator": "Iterator"}


def _src(rel):
    p = REPO / rel
    try:
        return ast.parse(p.read_text())
    except (OSError, SyntaxError) as e:
        raise TranslateError(f"{rel}: {e!r}")


def is_public(name):
    return not name.startswith("_") or name in DUNDER_PUBLIC


# ---------------------------------------------------------------- parity table
def params_of(fn):
    """[(name, kind, default or None)] in declaration order; kinds: posonly pos varargs kwonly varkw"""
    a = fn.args
    out = []
    pos = [(x, "posonly") for x in a.posonlyargs] + [(x, "pos") for x in a.args]
    defaults = [None] * (len(pos) - len(a.defaults)) + list(a.defaults)
    for (x, k), d in zip(pos, defaults):
        out.append((x.arg, k, None if d is None else ast.unparse(d)))
    if a.vararg:
        out.append((a.vararg.arg, "varargs", None))
    for x, d in zip(a.kwonlyargs, a.kw_defaults):
        out.append((x.arg, "kwonly", None if d is None else ast.unparse(d)))
    if a.kwarg:
        out.append((a.kwarg.arg, "varkw", None))
    return out


def _map_name(n):
    return NAME_MAP.get(n, n)


def _base_name(b):
    return ".".join(_map_name(p) for p in ast.unparse(b).split("."))


def extract_tables():
    """-> (sync_table, async_table, raw) ; table = [(key, real name, [bases], [(method, real method name, params)])]"""
    st, at = [], []
    for key, srel, arel, classes in PAIRS:
        for side, rel, tbl in (("sync", srel, st), ("async", arel, at)):
            mod = _src(rel)
            funcs = [n for n in mod.body if isinstance(n, (ast.FunctionDef, ast.AsyncFunctionDef)) and is_public(n.name)]
            tbl.append((f"module:{key}", rel, [], [(f.name, f.name, params_of(f)) for f in funcs]))
            cls_nodes = {n.name: n for n in mod.body if isinstance(n, ast.ClassDef)}
            for sname, aname in classes:
                real = sname if side == "sync" else aname
                c = cls_nodes.get(real)
                if c is None:
                    if side == "sync":
                        raise TranslateError(f"{rel}: class {real} not found")
                    continue   # a missing async class is a parity mismatch, reported by the table comparison
                meths = []
                for n in c.body:
                    if isinstance(n, (ast.FunctionDef, ast.AsyncFunctionDef)) and is_public(n.name):
                        meths.append((DUNDER_MAP.get(n.name, n.name), n.name, params_of(n)))
                tbl.append((f"{key}:{sname}", real, [_base_name(b) for b in c.bases], meths))
            # any further public class of the sync module must have a same-named twin
            for n in mod.body:
                if isinstance(n, ast.ClassDef) and is_public(n.name) and n.name not in [x[0 if side == "sync" else 1] for x in classes]:
                    meths = [(DUNDER_MAP.get(m.name, m.name), m.name, params_of(m)) for m in n.body
                             if isinstance(m, (ast.FunctionDef, ast.AsyncFunctionDef)) and is_public(m.name)]
                    tbl.append((f"{key}:{_map_name(n.name)}", n.name, [_base_name(b) for b in n.bases], meths))
    return st, at


# ---------------------------------------------------------------- structural twin comparison
class _Norm(ast.NodeTransformer):
    """normal form of one function: what remains must be equal in a sync/async twin pair"""

    def visit_AsyncFunctionDef(self, n):
        return self.visit_FunctionDef(ast.FunctionDef(name=n.name, args=n.args, body=n.body, decorator_list=n.decorator_list,
                                                      returns=None, type_comment=None, **({"type_params": []} if hasattr(n, "type_params") else {})))

    def visit_FunctionDef(self, n):
        n = copy.copy(n)
        n.name = DUNDER_MAP.get(n.name, n.name)
        n.returns = None
        body = list(n.body)
        if body and isinstance(body[0], ast.Expr) and isinstance(body[0].value, ast.Constant) and isinstance(body[0].value.value, str):
            body = body[1:]                                    # docstring
        n.body = body
        self.generic_visit(n)
        n.body = [b for b in n.body if b is not None] or [ast.Pass()]
        return n

    def visit_arg(self, n):
        return ast.arg(arg=n.arg, annotation=None)

    def visit_AnnAssign(self, n):
        if n.value is None:
            return None
        return self.generic_visit(ast.Assign(targets=[n.target], value=n.value))

    def visit_Await(self, n):
        return self.visit(n.value)

    def visit_AsyncWith(self, n):
        return self.generic_visit(ast.With(items=n.items, body=n.body))

    def visit_AsyncFor(self, n):
        return self.generic_visit(ast.For(target=n.target, iter=n.iter, body=n.body, orelse=n.orelse))

    def visit_Expr(self, n):
        v = n.value.value if isinstance(n.value, ast.Await) else n.value
        if isinstance(v, ast.Call) and isinstance(v.func, ast.Attribute) and isinstance(v.func.value, ast.Attribute) \
                and v.func.value.attr == "logger":
            return None                                         # <x>.logger.<level>(...) : log text only
        return self.generic_visit(n)

    def visit_Name(self, n):
        return ast.Name(id=_map_name(n.id), ctx=n.ctx)

    def visit_Constant(self, n):
        if isinstance(n.value, str) and n.value in CLASS_MAP:   # forward references "AsyncDriver"
            return ast.Constant(value=CLASS_MAP[n.value])
        return n

    def visit_Attribute(self, n):
        n = self.generic_visit(n)
        if isinstance(n.value, ast.Name) and n.value.id == "asyncio":
            if n.attr == "Lock":
                return ast.Name(id="Lock", ctx=n.ctx)
            if n.attr == "sleep":
                return ast.Attribute(value=ast.Name(id="time", ctx=ast.Load()), attr="sleep", ctx=n.ctx)
        return n

    def generic_visit(self, node):
        node = super().generic_visit(node)
        for f in ("body", "orelse", "finalbody"):
            v = getattr(node, f, None)
            if isinstance(v, list) and not v and f == "body" and not isinstance(node, ast.Module):
                setattr(node, f, [ast.Pass()])
        return node


def norm_dump(fn):
    n = _Norm().visit(copy.deepcopy(fn))
    return ast.dump(n, annotate_fields=False, include_attributes=False)


def _functions(rel, classes, side):
    """{(owner key, normalised name): node} for module functions and all methods of the paired classes"""
    mod = _src(rel)
    out = {}
    for n in mod.body:
        if isinstance(n, (ast.FunctionDef, ast.AsyncFunctionDef)):
            out[("module", n.name)] = n
        if isinstance(n, ast.ClassDef):
            owner = None
            for s, a in classes:
                if n.name == (s if side == "sync" else a):
                    owner = s
            if owner is None:
                owner = _map_name(n.name)
            for m in n.body:
                if isinstance(m, (ast.FunctionDef, ast.AsyncFunctionDef)):
                    out[(owner, DUNDER_MAP.get(m.name, m.name))] = m
    return out


def norm_lines(fn):
    n = ast.fix_missing_locations(_Norm().visit(copy.deepcopy(fn)))
    return [l.strip() for l in ast.unparse(n).splitlines() if l.strip()]


def hunks(ls, la):
    """the differing hunks only (no context): equal edits made to BOTH twins elsewhere in the function leave them unchanged"""
    import difflib
    out = []
    for tag, i1, i2, j1, j2 in difflib.SequenceMatcher(a=ls, b=la, autojunk=False).get_opcodes():
        if tag != "equal":
            out.append((ls[i1:i2], la[j1:j2]))
    return out


def twin_diffs():
    """[(pair key, owner, function, kind, hash)] for twin functions that differ after normalisation;
    kind: body | sync-only | async-only.  The hash of a `body` entry covers the differing hunks."""
    out = []
    for key, srel, arel, classes in PAIRS:
        fs, fa = _functions(srel, classes, "sync"), _functions(arel, classes, "async")
        for k in sorted(set(fs) | set(fa)):
            if k in fs and k in fa:
                if norm_dump(fs[k]) != norm_dump(fa[k]):
                    hk = hunks(norm_lines(fs[k]), norm_lines(fa[k]))
                    h = hashlib.blake2b(json.dumps(hk).encode(), digest_size=8).hexdigest()
                    out.append((key, k[0], k[1], "body", h))
            else:
                node = fs.get(k) or fa.get(k)
                h = hashlib.blake2b(norm_dump(node).encode(), digest_size=8).hexdigest()
                out.append((key, k[0], k[1], "sync-only" if k in fs else "async-only", h))
    return out


def twin_sources(key, owner, fname):
    """normalised, unparsed sources of one twin pair (for reports and the design document)"""
    for k, srel, arel, classes in PAIRS:
        if k == key:
            fs, fa = _functions(srel, classes, "sync"), _functions(arel, classes, "async")
            f = lambda d: ast.unparse(ast.fix_missing_locations(_Norm().visit(copy.deepcopy(d[(owner, fname)])))) if (owner, fname) in d else None
            return f(fs), f(fa)
    return None, None


# ---------------------------------------------------------------- findings / audited set
def open_parity_entries():
    """(class key, method, param, field) of every OPEN C06 finding that names a parity-table entry"""
    out, seen = [], set()
    for f in (VERIF / "known_findings.json", VERIF / "findings" / "C06.json"):     # the merged file wins (it may say "fixed")
        if not f.exists():
            continue
        data = json.load(open(f))
        for x in (data["findings"] if isinstance(data, dict) else data):
            if x.get("property") != "C06" or x["id"] in seen:
                continue
            seen.add(x["id"])
            if x.get("status") == "open" and x.get("parity_entry"):
                e = x["parity_entry"]
                out.append((e["class"], e["method"], e["param"], e["field"]))
    return out


def audited():
    f = VERIF / "corpus" / "C06" / "audited_twin_diffs.json"
    if not f.exists():
        return []
    return [(x["pair"], x["owner"], x["function"], x["kind"], x["hash"]) for x in json.load(open(f))]


def auth_patterns():
    """defaults of BaseChannelArgs (scrapli/channel/base_channel.py): the strings the auth predicates model"""
    mod = _src("scrapli/channel/base_channel.py")
    got = {}
    for n in mod.body:
        if isinstance(n, ast.ClassDef) and n.name == "BaseChannelArgs":
            for s in n.body:
                if isinstance(s, ast.AnnAssign) and isinstance(s.target, ast.Name) and s.value is not None:
                    try:
                        got[s.target.id] = ast.literal_eval(s.value)
                    except Exception:
                        pass
    need = ["auth_telnet_login_pattern", "auth_password_pattern", "comms_prompt_pattern"]
    for k in need:
        if not isinstance(got.get(k), str):
            raise TranslateError(f"base_channel.py: BaseChannelArgs.{k} default not a string literal")
    return {k: got[k] for k in need}


# ---------------------------------------------------------------- Lean rendering
def q(s):
    return '"' + s.replace("\\", "\\\\").replace('"', '\\"').replace("\n", "\\n") + '"'


KIND = {"posonly": ".posOnly", "pos": ".pos", "varargs": ".varArgs", "kwonly": ".kwOnly", "varkw": ".varKw"}


def render_table(name, tbl):
    s = f"def {name} : Table := [\n"
    rows = []
    for key, real, bases, meths in tbl:
        ms = []
        for mname, _real, ps in meths:
            pl = ", ".join(f"⟨{q(n)}, {KIND[k]}, {'none' if d is None else 'some ' + q(d)}⟩" for n, k, d in ps)
            ms.append(f"    ⟨{q(mname)}, [{pl}]⟩")
        rows.append(f"  ⟨{q(key)}, {q(real)}, [{', '.join(q(b) for b in bases)}], [\n" + ",\n".join(ms) + "]⟩")
    return s + ",\n".join(rows) + "]\n"


def render_tuples(name, ty, rows):
    body = ",\n".join("  (" + ", ".join(q(x) for x in r) + ")" for r in rows)
    return f"def {name} : List ({ty}) := [\n{body}]\n" if rows else f"def {name} : List ({ty}) := []\n"


def generate():
    st, at = extract_tables()
    if sum(len(c[3]) for c in st) < 40:
        raise TranslateError("parity extraction found implausibly few sync methods")
    body = HEADER.format(src="the sync/async twin modules (channel, drivers, core platforms, telnet transports), findings/C06.json, corpus/C06/audited_twin_diffs.json")
    body += "import ScrapliModel.Parity\nnamespace Scrapli.Gen.Parity\nopen Scrapli.Parity\n\n"
    body += render_table("syncTable", st) + "\n" + render_table("asyncTable", at) + "\n"
    body += "/-- parity entries of OPEN findings: (class key, method, parameter, field) -/\n"
    body += render_tuples("knownDiffs", "String × String × String × String", open_parity_entries()) + "\n"
    body += "/-- twin functions whose normalised bodies differ: (pair, owner, function, kind, hash) -/\n"
    body += render_tuples("twinDiffs", "String × String × String × String × String", twin_diffs()) + "\n"
    body += render_tuples("auditedTwinDiffs", "String × String × String × String × String", audited()) + "\n"
    pats = auth_patterns()
    body += f"def telnetLoginPattern : String := {q(pats['auth_telnet_login_pattern'])}\n"
    body += f"def passwordPattern : String := {q(pats['auth_password_pattern'])}\n"
    body += f"def channelPromptPattern : String := {q(pats['comms_prompt_pattern'])}\n"
    body += "end Scrapli.Gen.Parity\n"
    return [("ScrapliModel/Gen/Parity.lean", body)]
