"""translator piece for C06 (sync/asyncio parity).  Regenerated on every run from BOTH ASTs of each twin
module pair of /repo's working tree:

  * syncTable / asyncTable : for every class pair, the base classes and every PUBLIC method (no leading
    underscore, plus __init__ and the context-manager methods) with its parameter list — name, kind,
    default (canonical `ast.unparse`) — and per module pair the module-level functions (on_open / on_close
    hooks).  Async names are mapped onto their sync twins (class names via the pair table,
    __aenter__/__aexit__ -> __enter__/__exit__) so that the two tables are comparable entry by entry.
  * knownDiffs : the parity entries of OPEN findings (findings/C06.json + known_findings.json); the
    theorem is stated modulo exactly these.
  * twinDiffs : the twin function pairs whose NORMALISED bodies differ (async/await stripped, class names
    mapped, docstrings / annotations / logger calls dropped, asyncio.Lock<->Lock, asyncio.sleep<->time.sleep,
    asynccontextmanager<->contextmanager) with a hash of the differing pair; auditedTwinDiffs : the audited
    set from corpus/C06/audited_twin_diffs.json.
  * the three default in-channel authentication patterns (the concrete predicates of the auth model are
    written for these exact strings).
"""
import ast, copy, hashlib, json
from pathlib import Path

from translate import HEADER, TranslateError
from vlib.common import REPO, VERIF

CORE = "scrapli/driver/core/"
# (pair key, sync file, async file, [(sync class, async class)])
PAIRS = [
    ("channel", "scrapli/channel/sync_channel.py", "scrapli/channel/async_channel.py", [("Channel", "AsyncChannel")]),
    ("driver_base", "scrapli/driver/base/sync_driver.py", "scrapli/driver/base/async_driver.py", [("Driver", "AsyncDriver")]),
    ("driver_generic", "scrapli/driver/generic/sync_driver.py", "scrapli/driver/generic/async_driver.py", [("GenericDriver", "AsyncGenericDriver")]),
    ("driver_network", "scrapli/driver/network/sync_driver.py", "scrapli/driver/network/async_driver.py", [("NetworkDriver", "AsyncNetworkDriver")]),
    ("cisco_iosxe", CORE + "cisco_iosxe/sync_driver.py", CORE + "cisco_iosxe/async_driver.py", [("IOSXEDriver", "AsyncIOSXEDriver")]),
    ("cisco_iosxr", CORE + "cisco_iosxr/sync_driver.py", CORE + "cisco_iosxr/async_driver.py", [("IOSXRDriver", "AsyncIOSXRDriver")]),
    ("cisco_nxos", CORE + "cisco_nxos/sync_driver.py", CORE + "cisco_nxos/async_driver.py", [("NXOSDriver", "AsyncNXOSDriver")]),
    ("arista_eos", CORE + "arista_eos/sync_driver.py", CORE + "arista_eos/async_driver.py", [("EOSDriver", "AsyncEOSDriver")]),
    ("juniper_junos", CORE + "juniper_junos/sync_driver.py", CORE + "juniper_junos/async_driver.py", [("JunosDriver", "AsyncJunosDriver")]),
    ("transport_base", "scrapli/transport/base/sync_transport.py", "scrapli/transport/base/async_transport.py", [("Transport", "AsyncTransport")]),
    ("transport_telnet", "scrapli/transport/plugins/telnet/transport.py", "scrapli/transport/plugins/asynctelnet/transport.py",
     [("TelnetTransport", "AsynctelnetTransport"), ("PluginTransportArgs", "PluginTransportArgs")]),
]
CLASS_MAP = {a: s for _, _, _, cl in PAIRS for s, a in cl if a != s}       # async class name -> sync class name
DUNDER_MAP = {"__aenter__": "__enter__", "__aexit__": "__exit__"}
DUNDER_PUBLIC = {"__init__", "__enter__", "__exit__", "__aenter__", "__aexit__", "__call__", "__bool__", "__repr__", "__str__"}
# names whose async spelling is mapped onto the sync one in the structural comparison
NAME_MAP = {**CLASS_MAP, "asynccontextmanager": "contextmanager", "AsyncIterator": "Iterator"}


def _src(rel):
    p = REPO / rel
    try:
        return ast.parse(p.read_text())
    except (OSError, SyntaxError) as e:
        raise TranslateError(f"{rel}: {e!r}")


def is_public(name):
    return not name.startswith("_") or name in DUNDER_PUBLIC


# ---------------------------------------------------------------- parity table
def params_of(fn):
    """[(name, kind, default or None)] in declaration order; kinds: posonly pos varargs kwonly varkw"""
    a = fn.args
    out = []
    pos = [(x, "posonly") for x in a.posonlyargs] + [(x, "pos") for x in a.args]
    defaults = [None] * (len(pos) - len(a.defaults)) + list(a.defaults)
    for (x, k), d in zip(pos, defaults):
        out.append((x.arg, k, None if d is None else ast.unparse(d)))
    if a.vararg:
        out.append((a.vararg.arg, "varargs", None))
    for x, d in zip(a.kwonlyargs, a.kw_defaults):
        out.append((x.arg, "kwonly", None if d is None else ast.unparse(d)))
    if a.kwarg:
        out.append((a.kwarg.arg, "varkw", None))
    return out


def _map_name(n):
    return NAME_MAP.get(n, n)


def _base_name(b):
    return ".".join(_map_name(p) for p in ast.unparse(b).split("."))


def extract_tables():
    """-> (sync_table, async_table, raw) ; table = [(key, real name, [bases], [(method, real method name, params)])]"""
    st, at = [], []
    for key, srel, arel, classes in PAIRS:
        for side, rel, tbl in (("sync", srel, st), ("async", arel, at)):
            mod = _src(rel)
            funcs = [n for n in mod.body if isinstance(n, (ast.FunctionDef, ast.AsyncFunctionDef)) and is_public(n.name)]
            tbl.append((f"module:{key}", rel, [], [(f.name, f.name, params_of(f), isinstance(f, ast.AsyncFunctionDef)) for f in funcs]))
            cls_nodes = {n.name: n for n in mod.body if isinstance(n, ast.ClassDef)}
            for sname, aname in classes:
                real = sname if side == "sync" else aname
                c = cls_nodes.get(real)
                if c is None:
                    if side == "sync":
                        raise TranslateError(f"{rel}: class {real} not found")
                    continue   # a missing async class is a parity mismatch, reported by the table comparison
                meths = []
                for n in c.body:
                    if isinstance(n, (ast.FunctionDef, ast.AsyncFunctionDef)) and is_public(n.name):
                        meths.append((DUNDER_MAP.get(n.name, n.name), n.name, params_of(n), isinstance(n, ast.AsyncFunctionDef)))
                tbl.append((f"{key}:{sname}", real, [_base_name(b) for b in c.bases], meths))
            # any further public class of the sync module must have a same-named twin
            for n in mod.body:
                if isinstance(n, ast.ClassDef) and is_public(n.name) and n.name not in [x[0 if side == "sync" else 1] for x in classes]:
                    meths = [(DUNDER_MAP.get(m.name, m.name), m.name, params_of(m), isinstance(m, ast.AsyncFunctionDef)) for m in n.body
                             if isinstance(m, (ast.FunctionDef, ast.AsyncFunctionDef)) and is_public(m.name)]
                    tbl.append((f"{key}:{_map_name(n.name)}", n.name, [_base_name(b) for b in n.bases], meths))
    return st, at


# ---------------------------------------------------------------- structural twin comparison
class _Norm(ast.NodeTransformer):
    """normal form of one function: what remains must be equal in a sync/async twin pair"""

    def visit_AsyncFunctionDef(self, n):
        return self.visit_FunctionDef(ast.FunctionDef(name=n.name, args=n.args, body=n.body, decorator_list=n.decorator_list,
                                                      returns=None, type_comment=None, **({"type_params": []} if hasattr(n, "type_params") else {})))

    def visit_FunctionDef(self, n):
        n = copy.copy(n)
        n.name = DUNDER_MAP.get(n.name, n.name)
        n.returns = None
        body = list(n.body)
        if body and isinstance(body[0], ast.Expr) and isinstance(body[0].value, ast.Constant) and isinstance(body[0].value.value, str):
            body = body[1:]                                    # docstring
        n.body = body
        self.generic_visit(n)
        n.body = [b for b in n.body if b is not None] or [ast.Pass()]
        return n

    def visit_arg(self, n):
        return ast.arg(arg=n.arg, annotation=None)

    def visit_AnnAssign(self, n):
        if n.value is None:
            return None
        return self.generic_visit(ast.Assign(targets=[n.target], value=n.value))

    def visit_Await(self, n):
        return self.visit(n.value)

    def visit_AsyncWith(self, n):
        return self.generic_visit(ast.With(items=n.items, body=n.body))

    def visit_AsyncFor(self, n):
        return self.generic_visit(ast.For(target=n.target, iter=n.iter, body=n.body, orelse=n.orelse))

    def visit_Expr(self, n):
        v = n.value.value if isinstance(n.value, ast.Await) else n.value
        if isinstance(v, ast.Call) and isinstance(v.func, ast.Attribute) and isinstance(v.func.value, ast.Attribute) \
                and v.func.value.attr == "logger":
            return None                                         # <x>.logger.<level>(...) : log text only
        return self.generic_visit(n)

    def visit_ImportFrom(self, n):
        return ast.ImportFrom(module=n.module, names=sorted((ast.alias(name=_map_name(a.name), asname=a.asname) for a in n.names), key=lambda a: a.name),
                              level=n.level)

    def visit_ClassDef(self, n):
        n = self.generic_visit(n)
        n.name = _map_name(n.name)
        return n

    def visit_Name(self, n):
        return ast.Name(id=_map_name(n.id), ctx=n.ctx)

    def visit_Constant(self, n):
        if isinstance(n.value, str) and n.value in CLASS_MAP:   # forward references "AsyncDriver"
            return ast.Constant(value=CLASS_MAP[n.value])
        return n

    def visit_Attribute(self, n):
        n = self.generic_visit(n)
        if isinstance(n.value, ast.Name) and n.value.id == "asyncio":
            if n.attr == "Lock":
                return ast.Name(id="Lock", ctx=n.ctx)
            if n.attr == "sleep":
                return ast.Attribute(value=ast.Name(id="time", ctx=ast.Load()), attr="sleep", ctx=n.ctx)
        return n

    def generic_visit(self, node):
        node = super().generic_visit(node)
        for f in ("body", "orelse", "finalbody"):
            v = getattr(node, f, None)
            if isinstance(v, list) and not v and f == "body" and not isinstance(node, ast.Module):
                setattr(node, f, [ast.Pass()])
        return node


def norm_dump(fn):
    n = _Norm().visit(copy.deepcopy(fn))
    return ast.dump(n, annotate_fields=False, include_attributes=False)


def _functions(rel, classes, side):
    """{(owner key, normalised name): node} for module functions and all methods of the paired classes"""
    mod = _src(rel)
    out = {}
    for n in mod.body:
        if isinstance(n, (ast.FunctionDef, ast.AsyncFunctionDef)):
            out[("module", n.name)] = n
        if isinstance(n, ast.ClassDef):
            owner = None
            for s, a in classes:
                if n.name == (s if side == "sync" else a):
                    owner = s
            if owner is None:
                owner = _map_name(n.name)
            for m in n.body:
                if isinstance(m, (ast.FunctionDef, ast.AsyncFunctionDef)):
                    out[(owner, DUNDER_MAP.get(m.name, m.name))] = m
    return out


def norm_lines(fn):
    n = ast.fix_missing_locations(_Norm().visit(copy.deepcopy(fn)))
    return [l.strip() for l in ast.unparse(n).splitlines() if l.strip()]


def hunks(ls, la):
    """the differing hunks only (no context): equal edits made to BOTH twins elsewhere in the function leave them unchanged"""
    import difflib
    out = []
    for tag, i1, i2, j1, j2 in difflib.SequenceMatcher(a=ls, b=la, autojunk=False).get_opcodes():
        if tag != "equal":
            out.append((ls[i1:i2], la[j1:j2]))
    return out


def twin_diffs():
    """[(pair key, owner, function, kind, hash)] for twin functions that differ after normalisation;
    kind: body | sync-only | async-only.  The hash of a `body` entry covers the differing hunks."""
    out = []
    for key, srel, arel, classes in PAIRS:
        fs, fa = _functions(srel, classes, "sync"), _functions(arel, classes, "async")
        for k in sorted(set(fs) | set(fa)):
            if k in fs and k in fa:
                if norm_dump(fs[k]) != norm_dump(fa[k]):
                    hk = hunks(norm_lines(fs[k]), norm_lines(fa[k]))
                    h = hashlib.blake2b(json.dumps(hk).encode(), digest_size=8).hexdigest()
                    out.append((key, k[0], k[1], "body", h))
            else:
                node = fs.get(k) or fa.get(k)
                h = hashlib.blake2b(norm_dump(node).encode(), digest_size=8).hexdigest()
                out.append((key, k[0], k[1], "sync-only" if k in fs else "async-only", h))
    return out + shell_diffs()


def _shell(mod, classes, side):
    """everything OUTSIDE function bodies of one twin file as a pseudo function: imports (sorted), module / class level statements,
    class headers, and for every def its decorators (bodies and signatures are compared per function)"""
    mod = copy.deepcopy(mod)
    cmap = {a: s for s, a in classes}

    def strip(body):
        out = []
        for n in body:
            if isinstance(n, ast.Expr) and isinstance(n.value, ast.Constant) and isinstance(n.value.value, str):
                continue                                    # docstrings
            if isinstance(n, (ast.FunctionDef, ast.AsyncFunctionDef)):
                out.append(ast.Expr(ast.Call(ast.Name("DEF", ast.Load()), [ast.Constant(DUNDER_MAP.get(n.name, n.name))] + list(n.decorator_list), [])))
            elif isinstance(n, ast.ClassDef):
                n.body = strip(n.body) or [ast.Pass()]
                out.append(n)
            else:
                out.append(n)
        return out
    mod.body = strip(mod.body)
    n = ast.fix_missing_locations(_Norm().visit(mod))
    lines = [l.strip() for l in ast.unparse(n).splitlines() if l.strip()]
    imports = sorted(l for l in lines if l.startswith(("import ", "from ")))
    return imports + [l for l in lines if not l.startswith(("import ", "from "))]


def twin_pairs_compared():
    """number of twin function pairs present on both sides (non-vacuity of the pin)"""
    n = 0
    for key, srel, arel, classes in PAIRS:
        fs, fa = _functions(srel, classes, "sync"), _functions(arel, classes, "async")
        n += len(set(fs) & set(fa)) + 1                      # + the module shell
    return n


def shell_diffs():
    out = []
    for key, srel, arel, classes in PAIRS:
        ls, la = _shell(_src(srel), classes, "sync"), _shell(_src(arel), classes, "async")
        if ls != la:
            h = hashlib.blake2b(json.dumps(hunks(ls, la)).encode(), digest_size=8).hexdigest()
            out.append((key, "module", "<outside-functions>", "body", h))
    return out


def shell_sources(key):
    for k, srel, arel, classes in PAIRS:
        if k == key:
            return "\n".join(_shell(_src(srel), classes, "sync")), "\n".join(_shell(_src(arel), classes, "async"))
    return None, None


# ---------------------------------------------------------------- await discipline (what the normaliser of the pin erases)
EXTERNAL_ASYNC = {"asyncio.sleep", "asyncio.wait_for", "self.stdout.read"}          # coroutine functions outside the twin files
EXTERNAL_DEFERRED = {"asyncio.open_connection", "callback.run", "matched_callback.run"}                  # coroutine created here, awaited through a name / wait_for
HOOKS = {"self.on_open", "self.on_close"}                                            # user hooks of the asyncio drivers are coroutine functions
ASYNC_CMS = {"self._channel_lock()", "self.channel_lock"}                            # the only async context managers


def _async_defs():
    """per family the names defined with `async def` in the async twin files"""
    fam = {"driver": set(), "channel": set(), "transport": set()}
    for key, _srel, arel, _classes in PAIRS:
        f = "channel" if key == "channel" else "transport" if key.startswith("transport") else "driver"
        for n in ast.walk(_src(arel)):
            if isinstance(n, ast.AsyncFunctionDef) and not any(ast.unparse(d) == "asynccontextmanager" for d in n.decorator_list):
                fam[f].add(n.name)                          # (an @asynccontextmanager generator is called plainly and entered with `async with`)
    return fam


def await_mismatches():
    """[(pair, function, expression, kind)]: a call to a coroutine function that is not awaited (kind unawaited), an `await` of something that
    is not one (await-of-plain), a plain `with` on an async context manager / `async with` on anything else (with-kind), `await` in a sync file"""
    fam = _async_defs()
    if not (fam["driver"] and fam["channel"] and fam["transport"]):
        raise TranslateError("await discipline: no async defs found in a twin family")
    out = []

    def is_async_callee(txt, family):
        if txt in EXTERNAL_ASYNC or txt in HOOKS:
            return True
        if txt in EXTERNAL_DEFERRED:
            return None
        recv, _, meth = txt.rpartition(".")
        if recv in ("self", "super()", "conn"):
            return meth in fam[family]
        if recv in ("self.channel", "conn.channel"):
            return meth in fam["channel"]
        if recv in ("self.transport", "conn.transport"):
            return meth in fam["transport"]
        if recv == "" and family == "driver":
            return txt in fam["driver"] and False            # bare names: module level hooks are never called directly
        return False

    for key, srel, arel, _classes in PAIRS:
        family = "channel" if key == "channel" else "transport" if key.startswith("transport") else "driver"
        for n in ast.walk(_src(srel)):
            if isinstance(n, (ast.Await, ast.AsyncWith, ast.AsyncFor, ast.AsyncFunctionDef)):
                out.append((key, "<sync file>", type(n).__name__, "async-construct-in-sync-file"))
        mod = _src(arel)
        for fn in ast.walk(mod):
            if not isinstance(fn, (ast.FunctionDef, ast.AsyncFunctionDef)):
                continue
            awaited, waitfor_args, deferred_names = set(), set(), set()
            for n in ast.walk(fn):
                if isinstance(n, ast.Await):
                    awaited.add(id(n.value))
                if isinstance(n, ast.Call) and ast.unparse(n.func) == "asyncio.wait_for" and n.args:
                    waitfor_args.add(id(n.args[0]))
                if isinstance(n, ast.Assign) and isinstance(n.value, ast.Call) and ast.unparse(n.value.func) in EXTERNAL_DEFERRED:
                    deferred_names.update(t.id for t in n.targets if isinstance(t, ast.Name))
            for n in ast.walk(fn):
                if isinstance(n, ast.Call):
                    txt = ast.unparse(n.func)
                    a = is_async_callee(txt, family)
                    if a is True and id(n) not in awaited and id(n) not in waitfor_args:
                        out.append((key, fn.name, txt, "unawaited"))
                    if a is False and id(n) in awaited:
                        out.append((key, fn.name, txt, "await-of-plain"))
                if isinstance(n, ast.Await) and not isinstance(n.value, ast.Call):
                    if not (isinstance(n.value, ast.Name) and n.value.id in deferred_names):
                        out.append((key, fn.name, ast.unparse(n.value), "await-of-plain"))
                if isinstance(n, ast.With):
                    for it in n.items:
                        if ast.unparse(it.context_expr) in ASYNC_CMS:
                            out.append((key, fn.name, ast.unparse(it.context_expr), "with-kind"))
                if isinstance(n, ast.AsyncWith):
                    for it in n.items:
                        if ast.unparse(it.context_expr) not in ASYNC_CMS:
                            out.append((key, fn.name, ast.unparse(it.context_expr), "with-kind"))
                if isinstance(n, ast.AsyncFor):
                    out.append((key, fn.name, ast.unparse(n.iter), "async-for"))
            if isinstance(fn, ast.FunctionDef) and any(isinstance(x, (ast.Await, ast.AsyncWith)) for x in ast.walk(fn)
                                                       if not isinstance(x, ast.AsyncFunctionDef)):
                pass                                          # a syntax error in Python; nothing to report
    return sorted(set(out))


def awaits_seen():
    """number of await expressions in the async twin files (non-vacuity)"""
    return sum(1 for _k, _s, arel, _c in PAIRS for n in ast.walk(_src(arel)) if isinstance(n, ast.Await))


def twin_sources(key, owner, fname):
    """normalised, unparsed sources of one twin pair (for reports and the design document)"""
    for k, srel, arel, classes in PAIRS:
        if k == key:
            fs, fa = _functions(srel, classes, "sync"), _functions(arel, classes, "async")
            f = lambda d: ast.unparse(ast.fix_missing_locations(_Norm().visit(copy.deepcopy(d[(owner, fname)])))) if (owner, fname) in d else None
            return f(fs), f(fa)
    return None, None


# ---------------------------------------------------------------- findings / audited set
def open_parity_entries():
    """(class key, method, param, field) of every OPEN C06 finding that names a parity-table entry"""
    out, seen = [], set()
    for f in (VERIF / "known_findings.json", VERIF / "findings" / "C06.json"):     # the merged file wins (it may say "fixed")
        if not f.exists():
            continue
        data = json.load(open(f))
        for x in (data["findings"] if isinstance(data, dict) else data):
            if x.get("property") != "C06" or x["id"] in seen:
                continue
            seen.add(x["id"])
            if x.get("status") == "open" and x.get("parity_entry"):
                e = x["parity_entry"]
                out.append((e["class"], e["method"], e["param"], e["field"]))
    return out


def finding_status():
    st = {}
    for f in (VERIF / "findings" / "C06.json", VERIF / "known_findings.json"):     # the merged file wins
        if f.exists():
            data = json.load(open(f))
            for x in (data["findings"] if isinstance(data, dict) else data):
                if x.get("property") == "C06":
                    st[x["id"]] = x.get("status")
    return st


def audited():
    """the audited set; an entry that records the text of a DEFECT (`finding` field) counts only while that finding is open —
    once it is fixed, going back to the defective text is un-audited again"""
    f = VERIF / "corpus" / "C06" / "audited_twin_diffs.json"
    if not f.exists():
        return []
    st = finding_status()
    return [(x["pair"], x["owner"], x["function"], x["kind"], x["hash"]) for x in json.load(open(f))
            if not x.get("finding") or st.get(x["finding"]) == "open"]


def plain_async_methods():
    """audited list of public methods of the ASYNC classes that are plain functions (everything else must be `async def`)"""
    f = VERIF / "corpus" / "C06" / "audited_plain_async_methods.json"
    if not f.exists():
        raise TranslateError("corpus/C06/audited_plain_async_methods.json missing")
    return [(x["class"], x["method"]) for x in json.load(open(f))]


def auth_patterns():
    """defaults of BaseChannelArgs (scrapli/channel/base_channel.py): the strings the auth predicates model"""
    mod = _src("scrapli/channel/base_channel.py")
    got = {}
    for n in mod.body:
        if isinstance(n, ast.ClassDef) and n.name == "BaseChannelArgs":
            for s in n.body:
                if isinstance(s, ast.AnnAssign) and isinstance(s.target, ast.Name) and s.value is not None:
                    try:
                        got[s.target.id] = ast.literal_eval(s.value)
                    except Exception:
                        pass
    need = ["auth_telnet_login_pattern", "auth_password_pattern", "comms_prompt_pattern"]
    for k in need:
        if not isinstance(got.get(k), str):
            raise TranslateError(f"base_channel.py: BaseChannelArgs.{k} default not a string literal")
    return {k: got[k] for k in need}


# ---------------------------------------------------------------- Lean rendering
def q(s):
    return '"' + s.replace("\\", "\\\\").replace('"', '\\"').replace("\n", "\\n") + '"'


KIND = {"posonly": ".posOnly", "pos": ".pos", "varargs": ".varArgs", "kwonly": ".kwOnly", "varkw": ".varKw"}


def render_table(name, tbl):
    s = f"def {name} : Table := [\n"
    rows = []
    for key, real, bases, meths in tbl:
        ms = []
        for mname, _real, ps, is_async in meths:
            pl = ", ".join(f"⟨{q(n)}, {KIND[k]}, {'none' if d is None else 'some ' + q(d)}⟩" for n, k, d in ps)
            ms.append(f"    ⟨{q(mname)}, [{pl}], {'true' if is_async else 'false'}⟩")
        rows.append(f"  ⟨{q(key)}, {q(real)}, [{', '.join(q(b) for b in bases)}], [\n" + ",\n".join(ms) + "]⟩")
    return s + ",\n".join(rows) + "]\n"


def render_tuples(name, ty, rows):
    body = ",\n".join("  (" + ", ".join(q(x) for x in r) + ")" for r in rows)
    return f"def {name} : List ({ty}) := [\n{body}]\n" if rows else f"def {name} : List ({ty}) := []\n"


def generate():
    st, at = extract_tables()
    if sum(len(c[3]) for c in st) < 40:
        raise TranslateError("parity extraction found implausibly few sync methods")
    body = HEADER.format(src="the sync/async twin modules (channel, drivers, core platforms, telnet transports), findings/C06.json, corpus/C06/audited_twin_diffs.json")
    body += "import ScrapliModel.Parity\nnamespace Scrapli.Gen.Parity\nopen Scrapli.Parity\n\n"
    body += render_table("syncTable", st) + "\n" + render_table("asyncTable", at) + "\n"
    body += "/-- parity entries of OPEN findings: (class key, method, parameter, field) -/\n"
    body += render_tuples("knownDiffs", "String × String × String × String", open_parity_entries()) + "\n"
    body += "/-- twin functions whose normalised bodies differ: (pair, owner, function, kind, hash) -/\n"
    body += render_tuples("twinDiffs", "String × String × String × String × String", twin_diffs()) + "\n"
    body += render_tuples("auditedTwinDiffs", "String × String × String × String × String", audited()) + "\n"
    npairs = twin_pairs_compared()
    if npairs < 70:
        raise TranslateError(f"twin comparison saw only {npairs} function pairs")
    body += f"/-- twin function pairs (present on both sides, + one module shell per file pair) that were compared -/\ndef twinPairsCompared : Nat := {npairs}\n\n"
    body += "/-- violations of the await discipline in the async twin files: (pair, function, expression, kind) -/\n"
    body += render_tuples("awaitMismatches", "String × String × String × String", await_mismatches()) + "\n"
    body += f"def awaitsSeen : Nat := {awaits_seen()}\n\n"
    body += "/-- audited: public methods of the ASYNC classes that are plain functions (class key, method) -/\n"
    body += render_tuples("plainAsyncMethods", "String × String", plain_async_methods()) + "\n"
    pats = auth_patterns()
    body += f"def telnetLoginPattern : String := {q(pats['auth_telnet_login_pattern'])}\n"
    body += f"def passwordPattern : String := {q(pats['auth_password_pattern'])}\n"
    body += f"def channelPromptPattern : String := {q(pats['comms_prompt_pattern'])}\n"
    body += "end Scrapli.Gen.Parity\n"
    return [("ScrapliModel/Gen/Parity.lean", body)]
