"""translator piece for C10 (strict host-key checking protects credentials).

Regenerates lean/ScrapliModel/Gen/HostKeyGen.lean from /repo's working tree:
 * the default of `auth_strict_key` in every driver / factory signature and every ssh transport's
   PluginTransportArgs; whether the factory drops `None`s, whether every forwarding call passes the
   parameter unchanged, whether `_setup_auth` type-checks it;
 * from the AST of each ssh transport's `open()`: the ORDER of the calls to start_client / handshake /
   connect, `_verify_key`, `_verify_key_value`, `_authenticate`, `_open_channel` / `open_session`,
   each with "stands inside `if …auth_strict_key:`", whether `_verify_key` compares the key value,
   and whether `known_hosts=` handed to `asyncssh.connect` carries something when strict;
 * the literal `-o` fragments (and their order) of SystemTransport._build_open_cmd, the test that
   selects the non-strict branch, and the two magic strings.
Raises TranslateError when the source has a shape it cannot translate."""
import ast
from translate import HEADER, TranslateError, _parse

TRANSPORTS = {
    "paramiko": ("scrapli/transport/plugins/paramiko/transport.py", "ParamikoTransport"),
    "ssh2": ("scrapli/transport/plugins/ssh2/transport.py", "Ssh2Transport"),
    "asyncssh": ("scrapli/transport/plugins/asyncssh/transport.py", "AsyncsshTransport"),
}
SYSTEM = ("scrapli/transport/plugins/system/transport.py", "SystemTransport")
PARAM = "auth_strict_key"


def lstr(s):
    return '"' + s.replace("\\", "\\\\").replace('"', '\\"') + '"'


def lbool(b):
    return "true" if b else "false"


def lopt(v):
    return "none" if v is None else f"(some {lbool(v)})"


# ---------------------------------------------------------------- defaults
def _defaults_in(rel):
    """[(qualified name, default)] for every function of the module with a defaulted `auth_strict_key`"""
    out = []

    def visit(node, prefix):
        for ch in ast.iter_child_nodes(node):
            if isinstance(ch, ast.ClassDef):
                visit(ch, prefix + [ch.name])
            elif isinstance(ch, (ast.FunctionDef, ast.AsyncFunctionDef)):
                a = ch.args
                pos = a.posonlyargs + a.args
                pairs = list(zip(pos[len(pos) - len(a.defaults):], a.defaults)) + \
                    [(k, d) for k, d in zip(a.kwonlyargs, a.kw_defaults) if d is not None]
                for arg, d in pairs:
                    if arg.arg == PARAM:
                        if not (isinstance(d, ast.Constant) and d.value in (True, False, None)):
                            raise TranslateError(f"{rel}: default of {PARAM} in {ch.name} is not True/False/None")
                        out.append((f"{rel}:{'.'.join(prefix + [ch.name])}", d.value))
                visit(ch, prefix + [ch.name])
    visit(_parse(rel), [])
    return out


def _driver_files():
    from vlib.common import REPO
    return sorted(str(p.relative_to(REPO)) for p in (REPO / "scrapli" / "driver").rglob("*.py"))


def _forwarding(rels):
    """(number of places passing auth_strict_key on, number that pass something else than the parameter).
    Also refuses (TranslateError) any rebinding of the parameter on the way: a store to a NAME `auth_strict_key`
    anywhere, a store to an attribute `.auth_strict_key` other than the one unpacking `_setup_auth(...)`, and a
    `_setup_auth` that does not return the parameter itself."""
    n = bad = 0
    for rel in rels:
        tree = _parse(rel)
        for node in ast.walk(tree):
            if isinstance(node, ast.Name) and node.id == PARAM and isinstance(node.ctx, (ast.Store, ast.Del)):
                raise TranslateError(f"{rel}:{node.lineno}: {PARAM} is rebound before it is passed on")
            if isinstance(node, (ast.Assign, ast.AnnAssign, ast.AugAssign)):
                tg = node.targets if isinstance(node, ast.Assign) else [node.target]
                flat = [x for t in tg for x in (t.elts if isinstance(t, (ast.Tuple, ast.List)) else [t])]
                if any(isinstance(x, ast.Attribute) and x.attr == PARAM for x in flat):
                    v = node.value
                    ok = (isinstance(v, ast.Call) and isinstance(v.func, ast.Attribute) and v.func.attr == "_setup_auth") or \
                         (isinstance(v, ast.Name) and v.id == PARAM)
                    if not ok:
                        raise TranslateError(f"{rel}:{node.lineno}: .{PARAM} assigned from something else than the parameter / _setup_auth()")
            if isinstance(node, (ast.FunctionDef, ast.AsyncFunctionDef)) and node.name == "_setup_auth":
                rets = [r for r in ast.walk(node) if isinstance(r, ast.Return)]
                if not rets or not all(r.value is not None and any(isinstance(x, ast.Name) and x.id == PARAM for x in ast.walk(r.value))
                                       for r in rets):
                    raise TranslateError(f"{rel}: _setup_auth does not return the {PARAM} it was given")
        for node in ast.walk(tree):
            if isinstance(node, ast.Call):
                for kw in node.keywords:
                    if kw.arg == PARAM:
                        n += 1
                        if not (isinstance(kw.value, ast.Name) and kw.value.id == PARAM):
                            bad += 1
            if isinstance(node, ast.Dict):
                for k, v in zip(node.keys, node.values):
                    if isinstance(k, ast.Constant) and k.value == PARAM:
                        n += 1
                        if not (isinstance(v, ast.Name) and v.id == PARAM):
                            bad += 1
    return n, bad


def _func(tree, name, cls=None):
    for node in ast.walk(tree):
        if cls and isinstance(node, ast.ClassDef) and node.name == cls:
            for ch in node.body:
                if isinstance(ch, (ast.FunctionDef, ast.AsyncFunctionDef)) and ch.name == name:
                    return ch
        if not cls and isinstance(node, (ast.FunctionDef, ast.AsyncFunctionDef)) and node.name == name:
            return node
    return None


def _factory_drops_none():
    f = _func(_parse("scrapli/factory.py"), "_build_provided_kwargs_dict")
    if f is None:
        raise TranslateError("scrapli/factory.py: _build_provided_kwargs_dict not found")
    for node in ast.walk(f):
        if isinstance(node, ast.DictComp):
            for g in node.generators:
                for cond in g.ifs:
                    if (isinstance(cond, ast.Compare) and len(cond.ops) == 1 and isinstance(cond.ops[0], ast.IsNot)
                            and isinstance(cond.comparators[0], ast.Constant) and cond.comparators[0].value is None):
                        return True
    return False


def _type_checked():
    f = _func(_parse("scrapli/driver/base/base_driver.py"), "_setup_auth")
    if f is None:
        raise TranslateError("base_driver.py: _setup_auth not found")
    for node in ast.walk(f):
        if isinstance(node, ast.If) and isinstance(node.test, ast.UnaryOp) and isinstance(node.test.op, ast.Not):
            c = node.test.operand
            if (isinstance(c, ast.Call) and getattr(c.func, "id", "") == "isinstance" and len(c.args) == 2
                    and getattr(c.args[0], "id", "") == PARAM and getattr(c.args[1], "id", "") == "bool"
                    and any(isinstance(s, ast.Raise) for s in node.body)):
                return True
    return False


def _plugin_default(rel):
    for node in ast.walk(_parse(rel)):
        if isinstance(node, ast.ClassDef) and node.name == "PluginTransportArgs":
            for ch in node.body:
                if isinstance(ch, ast.AnnAssign) and getattr(ch.target, "id", "") == PARAM:
                    if ch.value is None:
                        return None
                    if isinstance(ch.value, ast.Constant) and ch.value.value in (True, False):
                        return ch.value.value
                    raise TranslateError(f"{rel}: PluginTransportArgs.{PARAM} default not a bool literal")
    raise TranslateError(f"{rel}: PluginTransportArgs.{PARAM} not found")


# ---------------------------------------------------------------- open() call order
def _mentions_strict(test):
    return any(isinstance(n, ast.Attribute) and n.attr == PARAM for n in ast.walk(test))


def _positive_strict(test):
    """`if <...>.auth_strict_key:` or `... is True` / `== True`"""
    if isinstance(test, ast.Attribute) and test.attr == PARAM:
        return True
    if (isinstance(test, ast.Compare) and len(test.ops) == 1 and isinstance(test.ops[0], (ast.Is, ast.Eq))
            and isinstance(test.left, ast.Attribute) and test.left.attr == PARAM
            and isinstance(test.comparators[0], ast.Constant) and test.comparators[0].value is True):
        return True
    return False


def _compares_key_value(func):
    """does the method compare `<lookup result>["public_key"]` with something"""
    if func is None:
        return False
    for node in ast.walk(func):
        if isinstance(node, ast.Compare):
            for side in [node.left, *node.comparators]:
                if (isinstance(side, ast.Subscript) and isinstance(side.slice, ast.Constant)
                        and side.slice.value == "public_key"):
                    return True
    return False


def _raises_when_absent(func):
    """`if not <lookup result>: raise ScrapliAuthenticationFailed`"""
    if func is None:
        return False
    for node in ast.walk(func):
        if isinstance(node, ast.If) and isinstance(node.test, ast.UnaryOp) and isinstance(node.test.op, ast.Not):
            for s in node.body:
                if isinstance(s, ast.Raise) and s.exc is not None and "ScrapliAuthenticationFailed" in ast.dump(s.exc):
                    return True
    return False


def _ends_in_raise(body):
    """does every way through this statement list end in `raise` (or a value-carrying `return`)?"""
    if not body:
        return False
    last = body[-1]
    if isinstance(last, ast.Raise):
        return True
    if isinstance(last, ast.Return):
        return last.value is not None and not (isinstance(last.value, ast.Constant) and last.value.value is None)
    if isinstance(last, ast.If):
        return bool(last.orelse) and _ends_in_raise(last.body) and _ends_in_raise(last.orelse)
    if isinstance(last, ast.Try):
        main = _ends_in_raise(last.orelse) if last.orelse else _ends_in_raise(last.body)
        return (_ends_in_raise(last.finalbody) or
                (main and all(_ends_in_raise(h.body) for h in last.handlers)))
    if isinstance(last, ast.With):
        return _ends_in_raise(last.body)
    return False


def _may_yield_nothing(tree, cls, value, rel):
    """the expression assigned to `…["known_hosts"]` in the strict branch: can it evaluate to None
    (so that connect() gets known_hosts=None after all)?  Supported shapes: a call of a method of the
    class (then: EVERY path of that method that does not return a value must raise — no `return`,
    `return None`, swallowed exception or falling off the end), or a tuple / list / call of something
    else (taken as a value).  Conditional expressions, names, constants: not translated."""
    if isinstance(value, ast.Call) and isinstance(value.func, ast.Attribute) and isinstance(value.func.value, ast.Name) \
            and value.func.value.id == "self":
        m = _func(tree, value.func.attr, cls)
        if m is None:
            raise TranslateError(f"{rel}: method {value.func.attr} handed to known_hosts not found in {cls}")
        for n in ast.walk(m):
            if isinstance(n, ast.Return) and (n.value is None or (isinstance(n.value, ast.Constant) and n.value.value is None)):
                return True
            if isinstance(n, (ast.IfExp,)) and any(isinstance(x, ast.Constant) and x.value is None for x in (n.body, n.orelse)):
                return True
        # a try whose handlers do not all end in raise lets the exception of the key import be swallowed
        for n in ast.walk(m):
            if isinstance(n, ast.Try) and not all(_ends_in_raise(h.body) for h in n.handlers):
                return True
            if isinstance(n, ast.With) and any("suppress" in ast.dump(i.context_expr) for i in n.items):
                return True
        return not _ends_in_raise(m.body)
    if isinstance(value, (ast.Tuple, ast.List, ast.Call)):
        return False
    raise TranslateError(f"{rel}:{value.lineno}: value handed to known_hosts has a shape that is not translated")


def _open_paths(name):
    """every path through `open()` (function entry to normal exit), each as the list of the calls of interest it
    makes in order, with "inside `if …auth_strict_key:`" flags.  Tests other than the one on auth_strict_key are
    taken as free (either branch can be taken — whatever state an earlier attempt left behind), so a verification
    that is skipped on SOME path to `_authenticate` / `connect` shows up as a path of its own (dominator check:
    the theorems demand `safeOrder` of EVERY path).  Paths that end in `raise` are exits, not paths to a credential
    call, and are dropped."""
    rel, cls = TRANSPORTS[name]
    tree = _parse(rel)
    fopen = _func(tree, "open", cls)
    if fopen is None:
        raise TranslateError(f"{rel}: {cls}.open not found")
    vk, vkv = _func(tree, "_verify_key", cls), _func(tree, "_verify_key_value", cls)

    def classify(call):
        f = call.func
        attr = f.attr if isinstance(f, ast.Attribute) else (f.id if isinstance(f, ast.Name) else None)
        on_self = isinstance(f, ast.Attribute) and isinstance(f.value, ast.Name) and f.value.id == "self"
        if attr in ("start_client", "handshake"):
            return "handshake"
        if attr == "_verify_key" and on_self:
            if not _raises_when_absent(vk):
                raise TranslateError(f"{rel}: _verify_key does not raise ScrapliAuthenticationFailed for an absent host")
            return "verifyKey" if _compares_key_value(vk) else "verifyPresent"
        if attr == "_verify_key_value" and on_self:
            if not _compares_key_value(vkv):
                raise TranslateError(f"{rel}: _verify_key_value does not compare the public key")
            return "verifyValue"
        if attr == "_authenticate" and on_self:
            return "authenticate"
        if (attr == "_open_channel" and on_self) or attr == "open_session":
            return "openChannel"
        if attr == "connect" and not on_self:
            return "connect"
        return None

    def interest(node):
        for n in ast.walk(node):
            if isinstance(n, ast.Call) and classify(n):
                return n
            if isinstance(n, (ast.Assign, ast.AnnAssign)):
                for t in (n.targets if isinstance(n, ast.Assign) else [n.target]):
                    if isinstance(t, ast.Subscript) and isinstance(t.slice, ast.Constant) and t.slice.value == "known_hosts":
                        return n
        return None

    pinned_dicts, first_binding = set(), {}
    for n in ast.walk(fopen):
        if isinstance(n, (ast.Assign, ast.AnnAssign)):
            for t in (n.targets if isinstance(n, ast.Assign) else [n.target]):
                if isinstance(t, ast.Subscript) and isinstance(t.slice, ast.Constant) and t.slice.value == "known_hosts" \
                        and isinstance(t.value, ast.Name):
                    pinned_dicts.add(t.value.id)
                elif isinstance(t, ast.Subscript) and isinstance(t.slice, ast.Constant) and t.slice.value == "known_hosts":
                    raise TranslateError(f"{rel}:{n.lineno}: known_hosts stored into something that is not a plain variable")
    for n in ast.walk(fopen):
        if isinstance(n, (ast.Assign, ast.AnnAssign)):
            for t in (n.targets if isinstance(n, ast.Assign) else [n.target]):
                if isinstance(t, ast.Name) and t.id in pinned_dicts and t.id not in first_binding:
                    first_binding[t.id] = n
    kh_literal_none = None
    for n in ast.walk(fopen):
        if isinstance(n, ast.Dict):
            for k, v in zip(n.keys, n.values):
                if isinstance(k, ast.Constant) and k.value == "known_hosts":
                    kh_literal_none = isinstance(v, ast.Constant) and v.value is None
        if isinstance(n, ast.keyword) and n.arg == "known_hosts":
            kh_literal_none = isinstance(n.value, ast.Constant) and n.value.value is None
        if isinstance(n, (ast.IfExp, ast.BoolOp, ast.ListComp, ast.GeneratorExp, ast.Lambda, ast.DictComp, ast.SetComp)) and interest(n) is not None \
                and any(isinstance(x, ast.Call) and classify(x) for x in ast.walk(n)):
            raise TranslateError(f"{rel}:{n.lineno}: call of interest inside a conditional expression: shape not translated")

    def simple(node, guarded):
        """events of one straight-line statement in evaluation (= source position) order: calls of interest, the pin
        (`X["known_hosts"] = <not None>`), and EVERYTHING that can change X["known_hosts"] afterwards: `= None` (unpin),
        `X.update(<something from transport_options>)` (user override), any other update / pop / del / clear / setdefault /
        rebinding / `|=` of a dict that gets pinned somewhere in open() (not translated)"""
        ev = []
        for n in ast.walk(node):
            if isinstance(n, ast.Call):
                k = classify(n)
                if k:
                    ev.append(((n.lineno, n.col_offset), ("call", k, guarded)))
                f = n.func
                if isinstance(f, ast.Attribute) and isinstance(f.value, ast.Name) and f.value.id in pinned_dicts:
                    if f.attr == "update":
                        user = any(isinstance(x, ast.Attribute) and x.attr == "transport_options" for a in n.args for x in ast.walk(a))
                        ev.append(((n.end_lineno, n.end_col_offset), ("mut", "user-update" if user else "other-update", guarded)))
                    elif f.attr in ("pop", "clear", "setdefault", "popitem", "__setitem__", "__delitem__"):
                        ev.append(((n.end_lineno, n.end_col_offset), ("mut", f.attr, guarded)))
            if isinstance(n, (ast.Assign, ast.AnnAssign, ast.AugAssign)):
                for t in (n.targets if isinstance(n, ast.Assign) else [n.target]):
                    if isinstance(t, ast.Subscript) and isinstance(t.slice, ast.Constant) and t.slice.value == "known_hosts" \
                            and not isinstance(n, ast.AugAssign):
                        v = n.value
                        if not (isinstance(v, ast.Constant) and v.value is None):
                            ev.append(((n.end_lineno, n.end_col_offset), ("pin", ast.dump(v), guarded, v)))
                        else:
                            ev.append(((n.end_lineno, n.end_col_offset), ("mut", "unpin", guarded)))
                    elif isinstance(t, ast.Name) and t.id in pinned_dicts and not isinstance(n, ast.AnnAssign) and n is not first_binding.get(t.id):
                        ev.append(((n.end_lineno, n.end_col_offset), ("mut", "rebinding", guarded)))
            if isinstance(n, ast.AnnAssign) and isinstance(n.target, ast.Name) and n.target.id in pinned_dicts \
                    and n is not first_binding.get(n.target.id):
                ev.append(((n.end_lineno, n.end_col_offset), ("mut", "rebinding", guarded)))
            if isinstance(n, ast.Delete):
                for t in n.targets:
                    if (isinstance(t, ast.Subscript) and isinstance(t.value, ast.Name) and t.value.id in pinned_dicts) or \
                            (isinstance(t, ast.Name) and t.id in pinned_dicts):
                        ev.append(((n.end_lineno, n.end_col_offset), ("mut", "del", guarded)))
        ev.sort(key=lambda x: x[0])
        return [e for _, e in ev]

    def key(path):
        return tuple(tuple(x[:3]) for x in path[0]), path[1]

    def dedupe(paths):
        seen, out = set(), []
        for pth in paths:
            if key(pth) not in seen:
                seen.add(key(pth))
                out.append(pth)
        if len(out) > 64:
            raise TranslateError(f"{rel}: more than 64 paths through open()")
        return out

    def seq(stmts, guarded):
        res = [([], True)]
        for st in stmts:
            new = []
            for ev, alive in res:
                if alive is not True:
                    new.append((ev, alive))
                    continue
                for ev2, alive2 in stmt(st, guarded):
                    new.append((ev + ev2, alive2))
            res = dedupe(new)
        return res

    def stmt(st, guarded):
        if isinstance(st, ast.If):
            if _mentions_strict(st.test):
                if not _positive_strict(st.test):
                    raise TranslateError(f"{rel}:{st.lineno}: unsupported test on {PARAM} in open()")
                if any(interest(x) is not None for x in st.orelse):
                    raise TranslateError(f"{rel}:{st.lineno}: call of interest in the else branch of a strict test")
                body = seq(st.body, True)
                if any(alive is not True for _, alive in body):
                    raise TranslateError(f"{rel}:{st.lineno}: strict branch that leaves open(): shape not translated")
                return body
            return dedupe(seq(st.body, guarded) + seq(st.orelse, guarded))
        if isinstance(st, ast.Try):
            for h in st.handlers:
                if interest(h) is not None:
                    raise TranslateError(f"{rel}:{h.lineno}: call of interest inside an except handler")
                if not _ends_in_raise(h.body) and any(interest(x) is not None for x in st.body):
                    raise TranslateError(f"{rel}:{h.lineno}: except handler that continues after a call of interest: shape not translated")
            return seq(list(st.body) + list(st.orelse) + list(st.finalbody), guarded)
        if isinstance(st, (ast.With, ast.AsyncWith)):
            if any("suppress" in ast.dump(i.context_expr) for i in st.items) and any(interest(x) is not None for x in st.body):
                raise TranslateError(f"{rel}:{st.lineno}: call of interest under suppress(): shape not translated")
            return seq(st.body, guarded)
        if isinstance(st, (ast.For, ast.While, ast.AsyncFor)):
            if interest(st) is not None:
                raise TranslateError(f"{rel}:{st.lineno}: call of interest inside a loop")
            return [([], True)]
        if isinstance(st, ast.Raise):
            return [([], False)]
        if isinstance(st, ast.Return):
            return [(simple(st, guarded), "return")]
        if isinstance(st, (ast.FunctionDef, ast.AsyncFunctionDef, ast.ClassDef)):
            return [([], True)]
        if isinstance(st, ast.Match):
            if interest(st) is not None:
                raise TranslateError(f"{rel}:{st.lineno}: call of interest inside match: shape not translated")
            return [([], True)]
        return [(simple(st, guarded), True)]

    paths = []
    for ev, alive in seq(fopen.body, False):
        if alive is False:
            continue
        calls, pins, overridable = [], [], False
        for e in ev:
            if e[0] == "pin":
                pins.append(e)
                overridable = False          # a pin after the user's options re-asserts the expected key
                continue
            if e[0] == "mut":
                if not pins:
                    continue                 # nothing pinned yet: what happens to the dict before the pin cannot unpin
                if e[1] == "unpin":
                    pins = []
                elif e[1] == "user-update":
                    overridable = True
                else:
                    raise TranslateError(f"{rel}: `{e[1]}` of the dict carrying known_hosts between the pin and connect(): not translated")
                continue
            _, k, g = e
            if k == "connect":
                if kh_literal_none is None:
                    raise TranslateError(f"{rel}: cannot see what is passed as known_hosts to connect()")
                if kh_literal_none is False:
                    raise TranslateError(f"{rel}: known_hosts in the literal arguments of connect() is not None: shape not translated")
                if any(not pg for _, _, pg, _ in pins):
                    raise TranslateError(f"{rel}: known_hosts set outside the strict branch: shape not translated")
                fallback = any(_may_yield_nothing(tree, cls, v, rel) for _, _, _, v in pins)
                calls.append((f".connect {lbool(bool(pins))} {lbool(fallback)} {lbool(bool(pins) and overridable)}", g))
            else:
                calls.append(("." + k, g))
        if calls not in paths:
            paths.append(calls)
    if not paths or not any(paths):
        raise TranslateError(f"{rel}: no call of interest found in open()")
    return paths


# ---------------------------------------------------------------- system transport
def _const_strs(node):
    """the list literal of string constants / f-strings handed to open_cmd.extend([...]) -> python list or None;
    an f-string `f"PREFIX{...}"` is returned as ("f", PREFIX)"""
    if not (isinstance(node, ast.Expr) and isinstance(node.value, ast.Call)):
        return None
    c = node.value
    if not (isinstance(c.func, ast.Attribute) and c.func.attr == "extend" and len(c.args) == 1
            and isinstance(c.args[0], ast.List)):
        return None
    res = []
    for e in c.args[0].elts:
        if isinstance(e, ast.Constant) and isinstance(e.value, str):
            res.append(e.value)
        elif isinstance(e, ast.JoinedStr) and e.values and isinstance(e.values[0], ast.Constant) and len(e.values) == 2:
            res.append(("f", e.values[0].value))
        else:
            res.append(("expr", ""))
    return res


def _system():
    rel, cls = SYSTEM
    tree = _parse(rel)
    f = _func(tree, "_build_open_cmd", cls)
    if f is None:
        raise TranslateError(f"{rel}: _build_open_cmd not found")
    magic = {}
    for node in ast.walk(tree):
        if isinstance(node, ast.ClassDef) and node.name == cls:
            for ch in node.body:
                if isinstance(ch, (ast.Assign, ast.AnnAssign)):
                    t = ch.targets[0] if isinstance(ch, ast.Assign) else ch.target
                    if isinstance(t, ast.Name) and "MAGIC" in t.id and isinstance(ch.value, ast.Constant):
                        magic[t.id] = ch.value.value
    strict_if = None
    for node in ast.walk(f):
        if isinstance(node, ast.If) and _mentions_strict(node.test):
            if strict_if is not None:
                raise TranslateError(f"{rel}: more than one test on {PARAM} in _build_open_cmd")
            strict_if = node
    if strict_if is None:
        raise TranslateError(f"{rel}: no test on {PARAM} in _build_open_cmd")
    t = strict_if.test
    # which values take the NON-strict branch
    if (isinstance(t, ast.Compare) and len(t.ops) == 1 and isinstance(t.ops[0], ast.Is)
            and isinstance(t.comparators[0], ast.Constant) and t.comparators[0].value is False):
        when, off_body, on_body = "isFalse", strict_if.body, strict_if.orelse
    elif isinstance(t, ast.UnaryOp) and isinstance(t.op, ast.Not) and isinstance(t.operand, ast.Attribute):
        when, off_body, on_body = "falsy", strict_if.body, strict_if.orelse
    elif isinstance(t, ast.Attribute):
        when, off_body, on_body = "falsy", strict_if.orelse, strict_if.body
    else:
        raise TranslateError(f"{rel}:{strict_if.lineno}: unsupported test on {PARAM}")

    def frags(body, deep):
        out = []
        for s in body:
            nodes = ast.walk(s) if deep else [s]
            for n in nodes:
                r = _const_strs(n)
                if r:
                    out.append(r)
        return out
    off = frags(off_body, True)
    on_direct = frags(on_body, False)
    on_nested = [r for r in frags(on_body, True) if r not in on_direct]

    def optpair(r, what):
        if len(r) != 2 or r[0] != "-o" or not isinstance(r[1], str) or "=" not in r[1]:
            raise TranslateError(f"{rel}: {what}: not a literal ['-o', 'Key=value'] pair: {r!r}")
        k, v = r[1].split("=", 1)
        return k, v
    off_pairs = [optpair(r, "non-strict branch") for r in off]
    on_pairs = [optpair(r, "strict branch") for r in on_direct]
    kh_prefix = None
    for r in on_nested:
        if len(r) == 2 and r[0] == "-o" and isinstance(r[1], tuple) and r[1][0] == "f" and r[1][1].endswith("="):
            kh_prefix = r[1][1][:-1]
        else:
            raise TranslateError(f"{rel}: strict branch: unexpected nested fragment {r!r}")
    if kh_prefix is None:
        raise TranslateError(f"{rel}: strict branch: no `-o <Key>=<known hosts file>` fragment")
    # the two timeout options that precede
    pre = []
    for s in f.body:
        if s is strict_if:
            break
        for n in ast.walk(s):
            r = _const_strs(n)
            if r and len(r) == 2 and r[0] == "-o" and isinstance(r[1], tuple) and r[1][0] == "f":
                pre.append(r[1][1][:-1] if r[1][1].endswith("=") else r[1][1])
    for k in ("SSH_SYSTEM_KNOWN_HOSTS_FILE_MAGIC_STRING", "SSH_SYSTEM_CONFIG_MAGIC_STRING"):
        if k not in magic:
            raise TranslateError(f"{rel}: {k} not found")
    return dict(when=when, off=off_pairs, on=on_pairs, kh_key=kh_prefix, pre=pre, magic=magic)


# ---------------------------------------------------------------- emit
def generate():
    drv = []
    for rel in _driver_files():
        drv += _defaults_in(rel)
    fac = _defaults_in("scrapli/factory.py")
    if not any(n.endswith("BaseDriver.__init__") for n, _ in drv):
        raise TranslateError("BaseDriver.__init__ has no defaulted auth_strict_key")
    if not fac:
        raise TranslateError("factory has no defaulted auth_strict_key")
    nfw, badfw = _forwarding(_driver_files() + ["scrapli/factory.py"])
    plug = [(n, _plugin_default(TRANSPORTS[n][0] if n in TRANSPORTS else SYSTEM[0])) for n in ("system", "paramiko", "ssh2", "asyncssh")]
    sysd = _system()

    def pairs(l):
        return "[" + ", ".join(f"({lstr(a)}, {lstr(b)})" for a, b in l) + "]"
    b = HEADER.format(src="the driver/factory signatures, the ssh transports' open() and SystemTransport._build_open_cmd (tools/gen/c10.py)")
    b += "import ScrapliModel.HostKeyTypes\nnamespace Scrapli.Gen.HostKey\nopen Scrapli.HostKey\n\n"
    b += "/-- default of `auth_strict_key` in every driver signature that has one -/\n"
    b += "def driverDefaults : List (String × Option Bool) := [\n" + ",\n".join(f"  ({lstr(n)}, {lopt(v)})" for n, v in drv) + "]\n"
    b += "/-- … in the factories (`None` = not given: the driver's own default applies) -/\n"
    b += "def factoryDefaults : List (String × Option Bool) := [\n" + ",\n".join(f"  ({lstr(n)}, {lopt(v)})" for n, v in fac) + "]\n"
    b += "/-- … in each ssh transport's PluginTransportArgs dataclass -/\n"
    b += "def pluginDefaults : List (String × Option Bool) := [" + ", ".join(f"({lstr(n)}, {lopt(v)})" for n, v in plug) + "]\n"
    b += f"/-- `_build_provided_kwargs_dict` keeps only `value is not None` -/\ndef factoryDropsNone : Bool := {lbool(_factory_drops_none())}\n"
    b += f"/-- places that pass `auth_strict_key` on / of which pass something else than the parameter itself -/\ndef forwardingSites : Nat := {nfw}\ndef forwardingAltered : Nat := {badfw}\n"
    b += f"/-- `_setup_auth` raises unless `isinstance(auth_strict_key, bool)` -/\ndef typeChecked : Bool := {lbool(_type_checked())}\n\n"
    for n in ("paramiko", "ssh2", "asyncssh"):
        paths = _open_paths(n)
        rel = TRANSPORTS[n][0]

        def lst(calls):
            return "[" + ", ".join(f"({c}, {lbool(g)})" for c, g in calls) + "]"
        b += (f"/-- EVERY path through `open()` from entry to normal exit ({rel}): the calls it makes, in order; Bool = inside\n"
              f"    `if …auth_strict_key:`; tests on anything else (e.g. state left by an earlier attempt) are free -/\n")
        b += f"def {n}OpenPaths : List (List (Call × Bool)) := [\n  " + ",\n  ".join(lst(c) for c in paths) + "]\n"
        b += f"/-- the first of them (the only one when `open()` does not branch around a call of interest) -/\n"
        b += f"def {n}OpenCalls : List (Call × Bool) := {lst(paths[0])}\n"
    b += "\n/-- SystemTransport._build_open_cmd: which values of auth_strict_key take the non-strict branch -/\n"
    b += f"def sysNonStrictWhen : String := {lstr(sysd['when'])}\n"
    b += f"def sysPreOpts : List String := [{', '.join(lstr(x) for x in sysd['pre'])}]\n"
    b += f"def sysNonStrictOpts : List (String × String) := {pairs(sysd['off'])}\n"
    b += f"def sysStrictOpts : List (String × String) := {pairs(sysd['on'])}\n"
    b += f"def sysKnownHostsKey : String := {lstr(sysd['kh_key'])}\n"
    b += f"def magicKnownHosts : String := {lstr(sysd['magic']['SSH_SYSTEM_KNOWN_HOSTS_FILE_MAGIC_STRING'])}\n"
    b += f"def magicConfig : String := {lstr(sysd['magic']['SSH_SYSTEM_CONFIG_MAGIC_STRING'])}\n"
    b += "end Scrapli.Gen.HostKey\n"
    return [("ScrapliModel/Gen/HostKeyGen.lean", b)]
