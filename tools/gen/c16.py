"""translator piece for C16: everything that is *data* in scrapli/ssh_config.py

* HOST_ATTRS, the defaults of Host.__init__, the option keywords `_parse` recognises (with the Host
  attribute each one sets and the value regex it accepts -- the latter is used by the text generator);
* the Host-pattern -> regex translation of `_lookup_fuzzy_match`, obtained SEMANTICALLY: the expression
  assigned to `cleaned_host_pattern` is compiled and evaluated on every printable ASCII character (and
  checked to act character by character); each character is classified as wildcard-many `(.*)`,
  wildcard-one `(.)`, literal (unchanged non-special, or its own re.escape) or *regex metacharacter*
  (reaches re.compile unescaped although special);
* the regex function / flags used for matching, the `"*"` catch-all key;
* SSHKnownHosts: hashed-entry prefix, separators, number of `|` separated parts, digest.
Anything not recognised raises TranslateError."""
import ast, itertools, re, warnings

from translate import HEADER, TranslateError, _parse

REL = "scrapli/ssh_config.py"
OUT = "ScrapliModel/Gen/SSHConfigConsts.lean"
OUT_PARSE = "ScrapliModel/Gen/SSHParseConsts.lean"
DATA = {}  # filled by generate(); read by tools/props/c16.py

try:
    from re import _parser as _sre_parser
except ImportError:  # pragma: no cover
    import sre_parse as _sre_parser
SPECIAL = set(_sre_parser.SPECIAL_CHARS)


def chars(s):
    out = []
    for ch in s:
        o = ord(ch)
        if 0xD800 <= o <= 0xDFFF:
            raise TranslateError("surrogate in literal")
        out.append(char(ch))
    return "[" + ", ".join(out) + "]"


def char(ch):
    o = ord(ch)
    if ch == "'":
        return "'\\''"
    if ch == "\\":
        return "'\\\\'"
    if 32 < o < 127:
        return f"'{ch}'"
    return f"Char.ofNat {o}"


def lstr(s):
    return '"' + s.replace("\\", "\\\\").replace('"', '\\"') + '"'


def val(v):
    if v is None:
        return ".none"
    if isinstance(v, bool):
        raise TranslateError(f"bool default {v!r}")
    if isinstance(v, str):
        return f".str {chars(v)}"
    if isinstance(v, int) and v >= 0:
        return f".int {v}"
    raise TranslateError(f"cannot translate default {v!r}")


def _cls(tree, name):
    for n in tree.body:
        if isinstance(n, ast.ClassDef) and n.name == name:
            return n
    raise TranslateError(f"class {name} not found")


def _fn(cls, name):
    for n in cls.body:
        if isinstance(n, ast.FunctionDef) and n.name == name:
            return n
    raise TranslateError(f"{cls.name}.{name} not found")


def _host_attrs(tree):
    for n in tree.body:
        if isinstance(n, ast.Assign) and len(n.targets) == 1 and getattr(n.targets[0], "id", None) == "HOST_ATTRS":
            v = ast.literal_eval(n.value)
            if not (isinstance(v, tuple) and all(isinstance(x, str) for x in v) and len(set(v)) == len(v)):
                raise TranslateError(f"HOST_ATTRS is not a tuple of distinct str: {v!r}")
            return list(v)
    raise TranslateError("HOST_ATTRS not found")


def _host_defaults(tree):
    init = _fn(_cls(tree, "Host"), "__init__")
    out = {}
    for n in init.body:
        tgt = None
        if isinstance(n, ast.AnnAssign):
            tgt, value = n.target, n.value
        elif isinstance(n, ast.Assign) and len(n.targets) == 1:
            tgt, value = n.targets[0], n.value
        if tgt is not None and isinstance(tgt, ast.Attribute) and getattr(tgt.value, "id", None) == "self":
            try:
                out[tgt.attr] = ast.literal_eval(value)
            except Exception:
                raise TranslateError(f"Host.{tgt.attr}: default is not a literal")
    return out


def _parser_keywords(tree):
    """[(keyword lower, host attribute, value regex)] from SSHConfig._parse"""
    fn = _fn(_cls(tree, "SSHConfig"), "_parse")
    pat_of_var, search_var = {}, {}
    for n in ast.walk(fn):
        if isinstance(n, ast.Assign) and len(n.targets) == 1 and isinstance(n.targets[0], ast.Name) and isinstance(n.value, ast.Call):
            f = n.value.func
            if isinstance(f, ast.Attribute) and getattr(f.value, "id", None) == "re":
                args = list(n.value.args) + [k.value for k in n.value.keywords if k.arg in ("pattern", "string")]
                if f.attr == "compile" and args and isinstance(args[0], ast.Constant):
                    flags = [k.value for k in n.value.keywords if k.arg == "flags"]
                    fl = _eval_flags(flags[0]) if flags else 0
                    pat_of_var[n.targets[0].id] = (args[0].value, int(fl))
                elif f.attr == "search":
                    for a in args:
                        if isinstance(a, ast.Name) and a.id in pat_of_var:
                            search_var[n.targets[0].id] = a.id
    out = []
    for n in ast.walk(fn):
        if isinstance(n, ast.If) and isinstance(n.test, ast.Call) and getattr(n.test.func, "id", None) == "isinstance":
            var = getattr(n.test.args[0], "id", None)
            if var not in search_var:
                continue
            for b in n.body:
                if isinstance(b, ast.Assign) and isinstance(b.targets[0], ast.Attribute) and getattr(b.targets[0].value, "id", None) == "host":
                    pat, fl = pat_of_var[search_var[var]]
                    m = re.fullmatch(r"\^\\s\*([a-z]+)\[\\s=\]\+\((.*)\)\$", pat)
                    if not m or fl != int(re.I | re.M):
                        raise TranslateError(f"_parse: option pattern {pat!r} flags {fl} not of the form ^\\s*kw[\\s=]+(value)$ with I|M")
                    out.append((m.group(1), b.targets[0].attr, m.group(2)))
    if not out or out[0][0] != "host":
        raise TranslateError(f"_parse: no option patterns recognised: {out}")
    return out


class _ReProxy:
    """stands in for the `re` module inside scrapli.ssh_config while the translation is probed: records the
    pattern text / flags handed to re.compile and which matching function is applied to the compiled pattern"""

    def __init__(self):
        self.compiled, self.flags, self.fns = [], set(), set()

    def __getattr__(self, name):
        return getattr(re, name)

    def compile(self, pattern, flags=0):
        self.compiled.append(pattern)
        self.flags.add(int(flags))
        return _PatProxy(self, re.compile(pattern, flags))

    def _apply(self, fn, pattern, string, flags=0):
        self.fns.add(fn)
        if isinstance(pattern, _PatProxy):
            return getattr(pattern._p, fn)(string)
        self.compiled.append(pattern)
        self.flags.add(int(flags))
        return getattr(re, fn)(pattern, string, flags)

    def search(self, pattern, string, flags=0):
        return self._apply("search", pattern, string, flags)

    def match(self, pattern, string, flags=0):
        return self._apply("match", pattern, string, flags)

    def fullmatch(self, pattern, string, flags=0):
        return self._apply("fullmatch", pattern, string, flags)


class _PatProxy:
    def __init__(self, owner, p):
        self._o, self._p = owner, p

    def __getattr__(self, name):
        if name in ("search", "match", "fullmatch"):
            self._o.fns.add(name)
        return getattr(self._p, name)


def _fuzzy(tree):
    """the Host pattern -> regex translation, obtained by RUNNING _lookup_fuzzy_match on one-pattern tables with
    `re` replaced by a recording proxy (robust against refactoring of the expression)"""
    from vlib.common import use_repo
    use_repo()
    import importlib
    import scrapli.ssh_config as mod
    mod = importlib.reload(mod) if getattr(mod, "_c16_stale", False) else mod
    # the key returned when no pattern is a candidate, and the tie-break among equal scores: obtained by CALLING the real
    # function on probe tables (not by matching the shape of its return statement)
    def call(name, keys):
        obj = mod.SSHConfig.__new__(mod.SSHConfig)
        table = {k: mod.Host() for k in keys}
        obj.hosts = dict(table)
        try:
            return obj._lookup_fuzzy_match(name, hosts=table)
        except Exception as e:  # noqa
            raise TranslateError(f"_lookup_fuzzy_match({name!r}, {keys!r}) raised {e!r} while probing")
    fallbacks = {call(n, ks) for n, ks in (("probe", ["zzz"]), ("", ["q"]), ("abc", ["abd", "x y"]), ("h", ["hh"]))}
    if len(fallbacks) != 1 or not isinstance(next(iter(fallbacks)), str):
        raise TranslateError(f"_lookup_fuzzy_match: no unique fallback key when nothing matches: {fallbacks!r}")
    fallback = fallbacks.pop()
    ties = {(call("ab", ["a?", "?b"]), call("ab", ["?b", "a?"]), call("ab", ["a? zz", "ab*", "?b"]), call("xay", ["a", "x?y", "*"]))}
    tie = {("a?", "?b", "ab*", "a"): "first", ("?b", "a?", "ab*", "a"): "last"}.get(ties.pop())
    if tie is None:
        raise TranslateError("_lookup_fuzzy_match: the choice among candidates is neither first nor last minimum of captured characters")
    proxy = _ReProxy()

    def f(s):
        obj = mod.SSHConfig.__new__(mod.SSHConfig)
        obj.hosts = {s: mod.Host()}
        proxy.compiled.clear()
        saved = mod.re
        mod.re = proxy
        try:
            with warnings.catch_warnings():
                warnings.simplefilter("ignore")
                obj._lookup_fuzzy_match("probe", hosts={s: mod.Host()})
        except re.error:
            pass
        except Exception as e:  # noqa
            raise TranslateError(f"_lookup_fuzzy_match({s!r}) raised {e!r} while probing")
        finally:
            mod.re = saved
        if len(proxy.compiled) != 1 or not isinstance(proxy.compiled[0], str):
            raise TranslateError(f"_lookup_fuzzy_match: expected one re.compile per pattern, saw {proxy.compiled!r} for {s!r}")
        return proxy.compiled[0]
    many = one = None
    escaped, meta = [], []
    for o in range(33, 127):
        c = chr(o)
        r = f(c)
        if r == "(.*)":
            if many is not None:
                raise TranslateError("two characters translate to (.*)")
            many = c
        elif r == "(.)":
            if one is not None:
                raise TranslateError("two characters translate to (.)")
            one = c
        elif r == c:
            if c in SPECIAL:
                meta.append(c)
        elif r == re.escape(c) or r == "\\" + c:
            if re.fullmatch(r, c) is None:
                raise TranslateError(f"{c!r} -> {r!r} is not a literal")
            escaped.append(c)
        else:
            raise TranslateError(f"_lookup_fuzzy_match: {c!r} -> {r!r} not recognised")
    if many is None or one is None:
        raise TranslateError("no wildcard characters found")
    for c in "éß中":
        if f(c) not in (c, re.escape(c)):
            raise TranslateError(f"non-ASCII {c!r} -> {f(c)!r}")
    # the translation must act character by character (replace-order bugs show up here)
    probe = [many, one, ".", "\\", "(", ")", "a", "-", "["]
    for n in (2, 3):
        for t in itertools.product(probe, repeat=n):
            s = "".join(t)
            if f(s) != "".join(f(c) for c in s):
                raise TranslateError(f"_lookup_fuzzy_match: translation of {s!r} = {f(s)!r} is not character-wise")
    if len(proxy.flags) != 1 or len(proxy.fns) != 1:
        raise TranslateError(f"_lookup_fuzzy_match: flags {proxy.flags} / matching functions {proxy.fns} not unique")
    flags = re.RegexFlag(proxy.flags.pop())
    flag_names = sorted(x.name for x in re.RegexFlag if x.value and x in flags and x.name)
    return dict(many=many, one=one, escaped=escaped, meta=meta, search_fn=proxy.fns.pop(), flags=flag_names, fallback=fallback, tie=tie)


def _star_keys(tree):
    """every string constant used as key of self.hosts in SSHConfig.__init__"""
    init = _fn(_cls(tree, "SSHConfig"), "__init__")
    keys = set()
    for n in ast.walk(init):
        if isinstance(n, ast.Subscript) and isinstance(n.value, ast.Attribute) and n.value.attr == "hosts" and isinstance(n.slice, ast.Constant):
            keys.add(n.slice.value)
        if isinstance(n, ast.Compare) and isinstance(n.left, ast.Constant) and isinstance(n.left.value, str):
            keys.add(n.left.value)
        if isinstance(n, ast.Assign) and isinstance(n.targets[0], ast.Attribute) and n.targets[0].attr == "hosts" \
                and isinstance(n.targets[0].value, ast.Subscript) and isinstance(n.value, ast.Constant):
            keys.add(n.value.value)
    return keys


def _star_keys_probed():
    """the key (and its `hosts` attribute) of the entry SSHConfig creates when the file has no `Host *` / there is no file"""
    import scrapli.ssh_config as mod
    o = mod.SSHConfig("")
    keys = set(o.hosts) | {h.hosts for h in o.hosts.values()}
    if len(o.hosts) != 1:
        raise TranslateError(f"SSHConfig(''): expected exactly the catch-all entry, got {list(o.hosts)}")
    return keys


def _known_hosts(tree):
    cls = _cls(tree, "SSHKnownHosts")
    look, parse = _fn(cls, "lookup"), _fn(cls, "_parse")
    prefix = sep = digest = lsep = None
    parts = None
    for n in ast.walk(look):
        if isinstance(n, ast.Call) and isinstance(n.func, ast.Attribute):
            if n.func.attr == "startswith" and isinstance(n.args[0], ast.Constant):
                prefix = n.args[0].value
            if n.func.attr == "HMAC" and len(n.args) == 3 and isinstance(n.args[2], ast.Constant):
                digest = n.args[2].value
        if isinstance(n, ast.Assign) and isinstance(n.targets[0], ast.Tuple) and isinstance(n.value, ast.Call) \
                and getattr(n.value.func, "attr", None) == "split" and n.value.args and isinstance(n.value.args[0], ast.Constant):
            names = [getattr(e, "id", None) for e in n.targets[0].elts]
            sep, parts = n.value.args[0].value, len(names)
            if names[-2:] != ["encoded_salt", "encoded_hashed_host"]:
                raise TranslateError(f"SSHKnownHosts.lookup: unexpected unpacking {names}")
    for n in ast.walk(parse):
        if isinstance(n, ast.For) and isinstance(n.iter, ast.Call) and getattr(n.iter.func, "attr", None) == "split" \
                and n.iter.args and isinstance(n.iter.args[0], ast.Constant):
            lsep = n.iter.args[0].value
    if None in (prefix, sep, digest, lsep, parts) or len(sep) != 1 or len(lsep) != 1:
        raise TranslateError(f"SSHKnownHosts: could not extract constants ({prefix!r},{sep!r},{digest!r},{lsep!r},{parts!r})")
    return dict(prefix=prefix, sep=sep, digest=digest, lsep=lsep, parts=parts)


MUTATORS = {"pop", "popitem", "update", "setdefault", "append", "extend", "insert", "remove", "clear", "add", "discard",
            "__setitem__", "__delitem__", "sort", "reverse"}


def _root(node):
    while isinstance(node, (ast.Attribute, ast.Subscript)):
        node = node.value
    return node.id if isinstance(node, ast.Name) else None


def _lookup_writes(tree, cls_name, entry):
    """every store that outlives the call on the call graph below `cls.entry`: assignments / deletions / mutating
    method calls whose target is rooted at self, cls, a class or another module-level name, `global` / `nonlocal`
    declarations, setattr(self, ...), and caching decorators.  [] = the lookup is a pure function of the object."""
    cls = _cls(tree, cls_name)
    module_names = {n.name for n in tree.body if isinstance(n, (ast.ClassDef, ast.FunctionDef))}
    for n in tree.body:
        if isinstance(n, (ast.Assign, ast.AnnAssign)):
            for t in (n.targets if isinstance(n, ast.Assign) else [n.target]):
                if isinstance(t, ast.Name):
                    module_names.add(t.id)
    shared = {"self", "cls"} | module_names
    methods = {n.name: n for n in cls.body if isinstance(n, ast.FunctionDef)}
    todo, seen, out = [entry], set(), []
    while todo:
        m = todo.pop()
        if m in seen or m not in methods:
            continue
        seen.add(m)
        fn = methods[m]
        # aliases: every local name assigned (also through for / with / walrus) from an expression rooted at a shared name is
        # shared too (h = self.hosts; e = self.hosts[k]; for k, e in self.hosts.items()) -- iterate to a fixed point
        local_shared = set(shared)
        changed = True
        while changed:
            changed = False
            for n in ast.walk(fn):
                pairs = []
                if isinstance(n, ast.Assign):
                    pairs = [(t, n.value) for t in n.targets]
                elif isinstance(n, (ast.AnnAssign, ast.NamedExpr)) and n.value is not None:
                    pairs = [(n.target, n.value)]
                elif isinstance(n, (ast.For, ast.comprehension)):
                    pairs = [(n.target, n.iter)]
                elif isinstance(n, ast.withitem) and n.optional_vars is not None:
                    pairs = [(n.optional_vars, n.context_expr)]
                for t, v in pairs:
                    roots = {x.id for x in ast.walk(v) if isinstance(x, ast.Name)}
                    # `hosts = hosts or self.hosts` style: any shared name anywhere in the value
                    if roots & local_shared:
                        for x in ast.walk(t):
                            if isinstance(x, ast.Name) and x.id not in local_shared:
                                local_shared.add(x.id)
                                changed = True
        for n in ast.walk(fn):
            # a module-level helper FUNCTION handed a shared object could mutate it: not followed -> refuse to call it pure
            if isinstance(n, ast.Call) and isinstance(n.func, ast.Name) and n.func.id in module_names \
                    and isinstance(next((x for x in tree.body if getattr(x, "name", None) == n.func.id), None), ast.FunctionDef):
                args = list(n.args) + [k.value for k in n.keywords]
                if any(isinstance(x, ast.Name) and x.id in local_shared for a in args for x in ast.walk(a)):
                    raise TranslateError(f"{cls_name}.{m} passes a shared object to the module-level function {n.func.id}(): "
                                         "its stores are not followed")
        shared_here = local_shared
        for d in fn.decorator_list:
            txt = ast.unparse(d)
            if "cache" in txt.lower() or "memo" in txt.lower():
                out.append(f"{m}:@{txt}")
        for n in ast.walk(fn):
            if isinstance(n, ast.Call) and isinstance(n.func, ast.Attribute) and getattr(n.func.value, "id", None) == "self":
                todo.append(n.func.attr)
            targets = []
            if isinstance(n, ast.Assign):
                targets = list(n.targets)
            elif isinstance(n, (ast.AugAssign, ast.AnnAssign)):
                targets = [n.target]
            elif isinstance(n, ast.Delete):
                targets = list(n.targets)
            elif isinstance(n, (ast.Global, ast.Nonlocal)):
                out += [f"{m}:global {x}" for x in n.names]
            flat = []
            for t in targets:
                flat += list(t.elts) if isinstance(t, (ast.Tuple, ast.List)) else [t]
            for t in flat:
                if isinstance(t, (ast.Attribute, ast.Subscript)) and _root(t) in shared_here:
                    out.append(f"{m}:{ast.unparse(t)}")
            if isinstance(n, ast.Call):
                f = n.func
                if isinstance(f, ast.Attribute) and f.attr in MUTATORS and isinstance(f.value, (ast.Attribute, ast.Subscript)) \
                        and _root(f.value) in shared_here:
                    out.append(f"{m}:{ast.unparse(f)}()")
                if isinstance(f, ast.Name) and f.id in ("setattr", "delattr") and n.args and _root(n.args[0]) in shared_here:
                    out.append(f"{m}:{ast.unparse(n)}")
    return sorted(set(out))


DRV = "scrapli/driver/base/base_driver.py"


def _caller_writes(rel, producers=("lookup", "ssh_config_factory")):
    """in every function of `rel` that calls ssh_config_factory / .lookup: stores through a local name bound to the
    result of such a call (the SSHConfig object and the Host objects it hands out are SHARED, cached per path)"""
    tree = _parse(rel)
    out = []
    for fn in ast.walk(tree):
        if not isinstance(fn, (ast.FunctionDef, ast.AsyncFunctionDef)):
            continue
        shared = set()
        for n in ast.walk(fn):
            if isinstance(n, ast.Assign) and isinstance(n.value, ast.Call):
                f = n.value.func
                fname = f.attr if isinstance(f, ast.Attribute) else getattr(f, "id", None)
                if fname in producers:
                    shared |= {t.id for t in n.targets if isinstance(t, ast.Name)}
        if not shared:
            continue
        for n in ast.walk(fn):
            targets = []
            if isinstance(n, ast.Assign):
                targets = list(n.targets)
            elif isinstance(n, (ast.AugAssign, ast.AnnAssign)):
                targets = [n.target]
            elif isinstance(n, ast.Delete):
                targets = list(n.targets)
            for t in targets:
                for u in (list(t.elts) if isinstance(t, (ast.Tuple, ast.List)) else [t]):
                    if isinstance(u, (ast.Attribute, ast.Subscript)) and _root(u) in shared:
                        out.append(f"{fn.name}:{ast.unparse(u)}")
            if isinstance(n, ast.Call):
                f = n.func
                if isinstance(f, ast.Attribute) and f.attr in MUTATORS and isinstance(f.value, (ast.Attribute, ast.Subscript)) \
                        and _root(f.value) in shared:
                    out.append(f"{fn.name}:{ast.unparse(f)}()")
                if isinstance(f, ast.Name) and f.id in ("setattr", "delattr") and n.args and _root(n.args[0]) in shared:
                    out.append(f"{fn.name}:{ast.unparse(n)}")
    return sorted(set(out))


ASCII = [chr(i) for i in range(128)]

def _eval_flags(node):
    """value of a `flags=` expression built from `re.X` constants; anything else (a local name, a call) is an unfamiliar
    shape: TranslateError, the facts are then MEASURED on the live class"""
    try:
        return int(eval(compile(ast.Expression(node), REL, "eval"), {"re": re, "__builtins__": {}}))
    except Exception as e:  # noqa
        raise TranslateError(f"flags expression {ast.unparse(node)!r} is not built from re constants ({e!r})")


# ---- MEASURING the same facts on the live classes (used when the AST does not have the familiar shape; cross-checked
# against the AST reading when both exist)
OPT_FORM = r"\^\\s\*([a-z]+)\[\\s=\]\+\((.*)\)\$"
BASE_KWS = [("host", "hosts", ".*"), ("hostname", "hostname", "[\\w.-]*"), ("port", "port", "[\\d]+"), ("user", "user", "[\\w]*"),
            ("identitiesonly", "identities_only", "yes|no"), ("identityfile", "identity_file", "[\\w.\\/\\@~-]*")]
BASE_KH = dict(prefix="|1|", sep="|", digest="sha1", lsep=",", parts=4)
BASE_BLOCK = ("^[ \\t]*host[ \\t=].*?(?=^[ \\t]*(?:host|match)[ \\t=]|\\Z)", int(re.I | re.S | re.M))
BASE_KHLINE = ("^[ \\t]*(?![#@])(\\S+)[ \\t]+([\\w\\-@.]+)[ \\t]+(\\S+)(?:[ \\t].*)?$", int(re.I | re.M))
UNREADABLE = []   # filled by generate(): facts that could neither be read nor measured (tie = correspondence only)


class _RecProxy:
    """stands in for `re` inside scrapli.ssh_config: records (pattern, flags) of every re.compile, hands out real patterns"""

    def __init__(self):
        self.pairs = []

    def __getattr__(self, name):
        return getattr(re, name)

    def compile(self, pattern, flags=0):
        if isinstance(pattern, str):
            self.pairs.append((pattern, int(flags)))
        return re.compile(pattern, flags)


def _mod():
    from vlib.common import use_repo
    use_repo()
    import scrapli.ssh_config as mod
    return mod


def _recorded_compiles(cls_name, attr, text):
    """the (pattern, flags) pairs compiled while the real `_parse` of the class runs on `text`"""
    mod = _mod()
    cls = getattr(mod, cls_name)
    o = cls.__new__(cls)
    setattr(o, attr, text)
    proxy, saved = _RecProxy(), mod.re
    mod.re = proxy
    try:
        o._parse()
    except Exception as e:  # noqa
        raise TranslateError(f"{cls_name}._parse raised {e!r} on a probe text")
    finally:
        mod.re = saved
    return proxy.pairs


def _cfg_parse(text):
    mod = _mod()
    o = mod.SSHConfig.__new__(mod.SSHConfig)
    o.ssh_config = text
    return o._parse() or {}


def _measure_cfg(attrs):
    """-> ([(keyword, attribute, value regex)] in canonical order, (block pattern, flags)): the option patterns are the
    recorded compiles of the familiar form with flags I|M; WHICH attribute a keyword sets is measured by parsing a probe
    block that uses the keyword once"""
    pairs = _recorded_compiles("SSHConfig", "ssh_config", "Host p\n HostName h\n Port 1\n User u\n IdentitiesOnly yes\n IdentityFile f\n")
    opts, other = [], []
    for pat, fl in pairs:
        m = re.fullmatch(OPT_FORM, pat)
        if m and fl == int(re.I | re.M):
            opts.append((m.group(1), m.group(2)))
        else:
            other.append((pat, fl))
    if not opts or len(other) != 1:
        raise TranslateError(f"SSHConfig._parse: compiled patterns not recognised: {pairs!r}")
    mod = _mod()
    dflt = vars(mod.Host())
    out = []
    for kw, vre in opts:
        sample = "probe" if vre == ".*" else next((c for c in ("7", "a", "yes", "no", vre.split("|")[0]) if re.fullmatch(vre, c, re.I)), None)
        if sample is None:
            raise TranslateError(f"SSHConfig._parse: no sample value for {vre!r}")
        text = f"Host zzprobe\n  {kw} {sample}\n" if kw != "host" else f"Host {sample}\n"
        hosts = list(_cfg_parse(text).values())
        if len(hosts) != 1:
            raise TranslateError(f"SSHConfig._parse: probe for {kw!r} gave {len(hosts)} entries")
        changed = [a for a, v in vars(hosts[0]).items() if v != dflt.get(a) and (a != "hosts" or kw == "host")]
        if len(changed) != 1:
            raise TranslateError(f"SSHConfig._parse: keyword {kw!r} sets {changed!r}")
        out.append((kw, changed[0], vre))
    order = ["hosts", "hostname"] + list(attrs)
    if any(a not in order for _, a, _ in out) or len({a for _, a, _ in out}) != len(out):
        raise TranslateError(f"SSHConfig._parse: measured attributes {out!r}")
    out.sort(key=lambda t: order.index(t[1]))
    return out, other[0]


def _measure_kh_line():
    pairs = _recorded_compiles("SSHKnownHosts", "ssh_known_hosts", "a t k\n")
    if len(pairs) != 1:
        raise TranslateError(f"SSHKnownHosts._parse: compiled patterns {pairs!r}")
    return pairs[0]


def _measure_known_hosts():
    """the known_hosts constants, by VERIFYING the familiar scheme on probe lines through the real class: list separator,
    hashed-entry prefix / separator / number of parts, HMAC digest"""
    import base64, hmac as _hmac
    mod = _mod()

    def obj(text):
        o = mod.SSHKnownHosts.__new__(mod.SSHKnownHosts)
        o.ssh_known_hosts = text
        o.hosts = o._parse() or {}
        return o

    def found(o, name):
        try:
            return bool(o.lookup(name))
        except Exception:  # noqa
            return None
    lseps = [c for c in ",;:/+&" if set(obj(f"pa{c}pb t k\n").hosts) == {"pa", "pb"}]
    salt, name = b"0123456789abcdefghij", "probe.host"

    def hid(prefix, digest, extra=""):
        return prefix + base64.b64encode(salt).decode() + "|" + base64.b64encode(_hmac.new(salt, name.encode(), digest).digest()).decode() + extra
    digests = [d for d in ("sha1", "sha256", "md5", "sha512") if found(obj(hid("|1|", d) + " t k\n"), name) is True
               and found(obj(hid("|1|", d) + " t k\n"), "other.host") is False]
    if len(lseps) != 1 or len(digests) != 1:
        raise TranslateError(f"SSHKnownHosts: measured list separators {lseps!r}, digests {digests!r}")
    d = digests[0]
    if found(obj(hid("|2|", d) + " t k\n"), name) is not False or found(obj(hid("|1|", d, "|x") + " t k\n"), name) is not None:
        raise TranslateError("SSHKnownHosts: hashed entries are not `|1|salt|hash` with exactly 4 parts")
    return dict(prefix="|1|", sep="|", digest=d, lsep=lseps[0], parts=4)


def _read_or_measure(what, read, measure, same=lambda a, b: a == b):
    """AST reading where the code has the familiar shape, cross-checked against the measurement; else the measurement;
    else None (recorded in UNREADABLE: the tie is then the per-run correspondence only)"""
    r = m = None
    er = em = None
    try:
        r = read()
    except Exception as e:  # noqa  (any failure of the reader = unfamiliar shape)
        er = e
    try:
        m = measure()
    except Exception as e:  # noqa
        em = e
    if r is not None and m is not None and not same(r, m):
        raise TranslateError(f"{what}: the source reads as {r!r} but the live class behaves as {m!r}")
    if r is None and m is None:
        UNREADABLE.append(f"{what}: shape unreadable ({er!r}) and not measurable ({em!r})")
    return r if r is not None else m



def _flag_names(fl):
    return sorted(f.name for f in re.RegexFlag if f.name and f.value & int(fl) and bin(f.value).count("1") == 1 and f.name not in ("UNICODE", "NOFLAG"))


def _value_kind(vre):
    """shape of the value part of an option regex -> Lean VKind term; classes are evaluated on every ASCII character"""
    if vre == ".*":
        return ".rest"
    m = re.fullmatch(r"(\[[^\]]*\])([*+])", vre)
    if m:
        try:
            c = re.compile(m.group(1))
        except re.error as e:
            raise TranslateError(f"_parse: value class {vre!r}: {e}")
        cls = [ch for ch in ASCII if c.fullmatch(ch)]
        if any(ch in " \t\n\r\x0b\x0c\x1c\x1d\x1e\x1f=" for ch in cls):
            raise TranslateError(f"_parse: value class {vre!r} accepts a separator character")
        return f".{'star' if m.group(2) == '*' else 'plus'} [{', '.join(char(ch) for ch in cls)}]"
    if re.fullmatch(r"[a-z]+(\|[a-z]+)*", vre):
        return f".alts [{', '.join(chars(a) for a in vre.split('|'))}]"
    raise TranslateError(f"_parse: value regex {vre!r} is not `.*`, `[class]*`, `[class]+` or an alternation of lower-case words")


def _compiled_patterns(tree, cls_name, fn_name):
    """{variable: (pattern, flags)} of the re.compile assignments in a method"""
    fn = _fn(_cls(tree, cls_name), fn_name)
    out = {}
    for n in ast.walk(fn):
        if isinstance(n, ast.Assign) and len(n.targets) == 1 and isinstance(n.targets[0], ast.Name) and isinstance(n.value, ast.Call):
            f = n.value.func
            if isinstance(f, ast.Attribute) and getattr(f.value, "id", None) == "re" and f.attr == "compile":
                args = list(n.value.args) + [k.value for k in n.value.keywords if k.arg == "pattern"]
                flags = [k.value for k in n.value.keywords if k.arg == "flags"]
                if args and isinstance(args[0], ast.Constant):
                    fl = _eval_flags(flags[0]) if flags else 0
                    out[n.targets[0].id] = (args[0].value, int(fl))
    return out


def _parse_consts(tree, kws):
    def read_block():
        cp = _compiled_patterns(tree, "SSHConfig", "_parse")
        if "host_pattern" not in cp:
            raise TranslateError("SSHConfig._parse: no host_pattern")
        return cp["host_pattern"]

    def read_kh():
        kp = _compiled_patterns(tree, "SSHKnownHosts", "_parse")
        if "host_pattern" not in kp:
            raise TranslateError("SSHKnownHosts._parse: no host_pattern")
        return kp["host_pattern"]
    block = _read_or_measure("SSHConfig._parse block pattern", read_block, lambda: _measure_cfg(DATA["host_attrs"])[1]) or BASE_BLOCK
    cp = {"host_pattern": block}
    khpat, khfl = _read_or_measure("SSHKnownHosts._parse line pattern", read_kh, _measure_kh_line) or BASE_KHLINE
    # the key type class, BEHAVIOURALLY: the characters c for which `h c k` is a key line
    try:
        khre = re.compile(khpat, khfl)
    except re.error as e:
        raise TranslateError(f"SSHKnownHosts._parse: {e}")
    kt_class = [ch for ch in ASCII if not ch.isspace() and khre.fullmatch(f"h {ch} k")]
    if not kt_class or khre.groups != 3:
        raise TranslateError(f"SSHKnownHosts._parse: {khpat!r} is not a three-group key line pattern")
    b = HEADER.format(src=REL)
    b += "import ScrapliModel.SSHConfigTypes\nnamespace Scrapli.Gen.SSHConfig\nopen Scrapli.SSHConfig\n"
    b += "/-- SSHConfig._parse: the block-splitting regex and its flags (source text; the model's block splitter is hand-written for exactly this text) -/\n"
    b += f"def hostBlockPattern : String := {lstr(cp['host_pattern'][0])}\n"
    b += f"def hostBlockFlags : List String := [{', '.join(lstr(x) for x in _flag_names(cp['host_pattern'][1]))}]\n"
    b += "/-- Host attribute -> option keyword (lower case) of the regex `^\\s*kw[\\s=]+(value)$` (flags I|M, checked by the translator) -/\n"
    b += f"def optKeywords : List (String × Str) := [{', '.join(f'({lstr(a)}, {chars(k)})' for k, a, _ in kws)}]\n"
    b += "/-- Host attribute -> source text of the value part of its regex -/\n"
    b += f"def optValueRegex : List (String × String) := [{', '.join(f'({lstr(a)}, {lstr(v)})' for _, a, v in kws)}]\n"
    b += "/-- Host attribute -> shape of the value part, classes evaluated on every ASCII character -/\n"
    b += f"def optKinds : List (String × VKind) := [{', '.join(f'({lstr(a)}, {_value_kind(v)})' for _, a, v in kws)}]\n"
    b += "/-- SSHKnownHosts._parse: the line regex, its flags, and the key type class evaluated on every ASCII character -/\n"
    b += f"def khLinePattern : String := {lstr(khpat)}\n"
    b += f"def khLineFlags : List String := [{', '.join(lstr(x) for x in _flag_names(khfl))}]\n"
    b += f"def khTypeClass : List Char := [{', '.join(char(ch) for ch in kt_class)}]\n"
    b += "end Scrapli.Gen.SSHConfig\n"
    return b


def generate():
    tree = _parse(REL)
    attrs = _host_attrs(tree)
    dflt = _host_defaults(tree)
    for a in attrs + ["hosts", "hostname"]:
        if a not in dflt:
            raise TranslateError(f"Host.__init__ does not set {a}")
    del UNREADABLE[:]
    kws = _read_or_measure("SSHConfig._parse option keywords", lambda: _parser_keywords(tree), lambda: _measure_cfg(attrs)[0],
                           same=lambda a, b: sorted(a) == sorted(b)) or list(BASE_KWS)
    for kw, attr, _ in kws:
        if attr not in dflt:
            raise TranslateError(f"_parse sets unknown Host attribute {attr}")
    fz = _fuzzy(tree)
    stars = _star_keys(tree) | {fz["fallback"]} | _star_keys_probed()
    if len(stars) != 1:
        raise TranslateError(f"catch-all key literals differ: {sorted(stars)}")
    star = stars.pop()
    kh = _read_or_measure("SSHKnownHosts constants", lambda: _known_hosts(tree), _measure_known_hosts) or dict(BASE_KH)
    cfg_writes = _lookup_writes(tree, "SSHConfig", "lookup")
    kh_writes = _lookup_writes(tree, "SSHKnownHosts", "lookup")
    drv_writes = _caller_writes(DRV)
    DATA.clear()
    DATA.update(host_attrs=attrs, defaults=dflt, keywords=kws, fuzzy=fz, star=star, known_hosts=kh)
    b = HEADER.format(src=REL)
    b += "import ScrapliModel.SSHConfigTypes\nnamespace Scrapli.Gen.SSHConfig\nopen Scrapli.SSHConfig\n"
    b += "/-- HOST_ATTRS -/\n"
    b += f"def hostAttrs : List String := [{', '.join(lstr(a) for a in attrs)}]\n"
    b += "/-- Host.__init__ defaults of the HOST_ATTRS, in HOST_ATTRS order -/\n"
    b += f"def attrDefaults : List Val := [{', '.join(val(dflt[a]) for a in attrs)}]\n"
    if not isinstance(dflt["hosts"], str):
        raise TranslateError("Host.hosts default is not a str")
    b += f"def hostsDefault : Str := {chars(dflt['hosts'])}\n"
    b += f"def hostnameDefault : Val := {val(dflt['hostname'])}\n"
    b += "/-- option keyword (lower case) recognised by SSHConfig._parse -> Host attribute it sets -/\n"
    b += f"def parserKeywords : List (String × String) := [{', '.join(f'({lstr(k)}, {lstr(a)})' for k, a, _ in kws)}]\n"
    b += "/-- _lookup_fuzzy_match: the pattern characters translated to `(.*)` and `(.)` -/\n"
    b += f"def wildMany : Char := {char(fz['many'])}\ndef wildOne : Char := {char(fz['one'])}\n"
    b += "/-- characters replaced by their own escaped literal (no change of meaning) -/\n"
    b += f"def escapedLiterals : List Char := [{', '.join(char(c) for c in fz['escaped'])}]\n"
    b += "/-- pattern characters that reach re.compile with a regex meaning of their own -/\n"
    b += f"def regexMeta : List Char := [{', '.join(char(c) for c in fz['meta'])}]\n"
    b += f"def searchFn : String := {lstr(fz['search_fn'])}\n"
    b += f"def searchFlags : List String := [{', '.join(lstr(x) for x in fz['flags'])}]\n"
    b += "/-- which candidate wins among equal numbers of captured characters (probed by calling the function) -/\n"
    b += f"def tieBreak : String := {lstr(fz['tie'])}\n"
    b += "/-- the key of the catch-all entry (the same in __init__ and as the answer of _lookup_fuzzy_match without candidates) -/\n"
    b += f"def starKey : Str := {chars(star)}\n"
    b += "/-- SSHKnownHosts -/\n"
    b += f"def hashedPrefix : Str := {chars(kh['prefix'])}\ndef hashSep : Char := {char(kh['sep'])}\n"
    b += f"def hashedParts : Nat := {kh['parts']}\ndef listSep : Char := {char(kh['lsep'])}\n"
    b += f"def hmacDigest : String := {lstr(kh['digest'])}\n"
    b += "/-- stores that outlive the call on the call graph below SSHConfig.lookup / SSHKnownHosts.lookup (AST) -/\n"
    b += f"def cfgLookupWrites : List String := [{', '.join(lstr(x) for x in cfg_writes)}]\n"
    b += f"def khLookupWrites : List String := [{', '.join(lstr(x) for x in kh_writes)}]\n"
    b += "/-- stores through the (shared, cached) objects ssh_config_factory / lookup hand out, in base_driver.py -/\n"
    b += f"def driverLookupWrites : List String := [{', '.join(lstr(x) for x in drv_writes)}]\n"
    b += "end Scrapli.Gen.SSHConfig\n"
    bp = _parse_consts(tree, kws)
    DATA["unreadable"] = list(UNREADABLE)
    return [(OUT, b), (OUT_PARSE, bp)]
