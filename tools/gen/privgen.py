"""shared translator piece of C03 / C04: everything that is *data* in scrapli's privilege handling,
regenerated from the live source tree into lean/ScrapliModel/Gen/PrivConsts.lean and PrivTables.lean.

  * DUMMY level name, the loop factor of acquire_priv (`> len(levels) * 2`), the default
    configuration level of `_pre_send_configs`                        (AST of the network driver)
  * the five platform tables as *constructed drivers* see them (name, previous_priv, escalate,
    deescalate, escalate_auth, share-group key computed from (pattern, not_contains) equality,
    the `"config\\-s" in pattern` flag), sync and asyncio drivers compared
  * default_desired_privilege_level of every platform driver (constructor default)
  * the shape of every `_abort_config`: MEASURED on the live classes (recorders for the channel and the nested send_configs, every
    level as the belief, every level as default_desired_privilege_level, sync and asyncio); the AST is a cross-check where readable
  * the EOS / NX-OS session level template, recovered by calling `_create_configuration_session`
    on a real driver with marker names
"""
import ast, inspect
from translate import HEADER, TranslateError, _parse

PLATFORMS = ["cisco_iosxe", "cisco_iosxr", "cisco_nxos", "arista_eos", "juniper_junos"]
SHORT = {"cisco_iosxe": "iosxe", "cisco_iosxr": "iosxr", "cisco_nxos": "nxos", "arista_eos": "eos", "juniper_junos": "junos"}
CLS = {"cisco_iosxe": "IOSXEDriver", "cisco_iosxr": "IOSXRDriver", "cisco_nxos": "NXOSDriver", "arista_eos": "EOSDriver",
       "juniper_junos": "JunosDriver"}
SESSION_MARKER_DEFAULT = "config\\-s"


def lstr(s):
    """Lean string literal"""
    out = ['"']
    for ch in s:
        if ch == '"':
            out.append('\\"')
        elif ch == "\\":
            out.append("\\\\")
        elif ch == "\n":
            out.append("\\n")
        elif ch == "\t":
            out.append("\\t")
        elif 32 <= ord(ch) < 127:
            out.append(ch)
        else:
            out.append("\\u{%x}" % ord(ch))
    out.append('"')
    return "".join(out)


def lstrs(l):
    return "[" + ", ".join(lstr(x) for x in l) + "]"


def lbool(b):
    return "true" if b else "false"


# ---------- AST helpers
def _method(rel, cls, name, required=True):
    for node in _parse(rel).body:
        if isinstance(node, ast.ClassDef) and node.name == cls:
            for n in node.body:
                if isinstance(n, (ast.FunctionDef, ast.AsyncFunctionDef)) and n.name == name:
                    return n
    if required:
        raise TranslateError(f"{rel}: {cls}.{name} not found")
    return None


def _body(fn):
    b = list(fn.body)
    if b and isinstance(b[0], ast.Expr) and isinstance(b[0].value, ast.Constant) and isinstance(b[0].value.value, str):
        b = b[1:]
    return [s for s in b if not isinstance(s, ast.Pass)]


def _unawait(e):
    return e.value if isinstance(e, ast.Await) else e


def _is_self_attr(e, *attrs):
    for a in reversed(attrs):
        if not (isinstance(e, ast.Attribute) and e.attr == a):
            return False
        e = e.value
    return isinstance(e, ast.Name) and e.id == "self"


def _cstr(e, where):
    if isinstance(e, ast.Constant) and isinstance(e.value, str):
        return e.value
    raise TranslateError(f"{where}: expected a string literal, got {ast.dump(e)}")


# ---------- constants of the network driver
def consts():
    from scrapli.driver.network.base_driver import DUMMY_PRIV_LEVEL
    out = {"dummy": DUMMY_PRIV_LEVEL.name}
    factors = []
    for rel, cls in (("scrapli/driver/network/sync_driver.py", "NetworkDriver"), ("scrapli/driver/network/async_driver.py", "AsyncNetworkDriver")):
        fn = _method(rel, cls, "acquire_priv")
        found = None
        for n in ast.walk(fn):
            if isinstance(n, ast.If) and isinstance(n.test, ast.Compare) and isinstance(n.test.left, ast.Name) \
                    and n.test.left.id == "privilege_change_count":
                t = n.test
                if len(t.ops) == 1 and isinstance(t.ops[0], ast.Gt) and isinstance(t.comparators[0], ast.BinOp) \
                        and isinstance(t.comparators[0].op, ast.Mult):
                    l, r = t.comparators[0].left, t.comparators[0].right
                    if isinstance(l, ast.Constant):      # `k * len(...)` is the same bound
                        l, r = r, l
                    if isinstance(r, ast.Constant) and isinstance(r.value, int) and isinstance(l, ast.Call) and getattr(l.func, "id", "") == "len" \
                            and _is_self_attr(l.args[0], "privilege_levels") and isinstance(n.body[-1], ast.Raise):
                        found = r.value
                if found is None:
                    raise TranslateError(f"{rel}: acquire_priv loop bound not of the form `privilege_change_count > len(self.privilege_levels) * k`: {ast.dump(t)}")
        if found is None:
            raise TranslateError(f"{rel}: acquire_priv has no loop bound test on privilege_change_count")
        # the loop's control structure (hand-transcribed into Driver.lean `acquireLoop`) is pinned here:
        #   while True: <...>; [if NO_ACTION: ...; return]; <...>; privilege_change_count += 1; if count > len*k: ...; raise
        loops = [n for n in ast.walk(fn) if isinstance(n, ast.While)]
        if len(loops) != 1 or loops[0] not in fn.body:
            raise TranslateError(f"{rel}: acquire_priv is not one top-level while loop")
        lp = loops[0]
        if not (isinstance(lp.test, ast.Constant) and lp.test.value is True) or lp.orelse:
            raise TranslateError(f"{rel}: the acquire_priv loop is not `while True`")
        if len(lp.body) < 3:
            raise TranslateError(f"{rel}: the acquire_priv loop body is too short")
        inc, tst = lp.body[-2], lp.body[-1]
        if not (isinstance(inc, ast.AugAssign) and isinstance(inc.target, ast.Name) and inc.target.id == "privilege_change_count"
                and isinstance(inc.op, ast.Add) and isinstance(inc.value, ast.Constant) and inc.value.value == 1):
            raise TranslateError(f"{rel}: the last-but-one statement of the loop is not the unconditional `privilege_change_count += 1`")
        if not (isinstance(tst, ast.If) and not tst.orelse and isinstance(tst.test, ast.Compare) and isinstance(tst.test.left, ast.Name)
                and tst.test.left.id == "privilege_change_count" and isinstance(tst.body[-1], ast.Raise)):
            raise TranslateError(f"{rel}: the last statement of the loop is not `if privilege_change_count > ...: raise`")
        if any(isinstance(n, (ast.Continue, ast.Break)) for n in ast.walk(lp)):
            raise TranslateError(f"{rel}: the acquire_priv loop contains continue / break")
        rets = [n for n in ast.walk(lp) if isinstance(n, ast.Return)]
        holders = [st for st in lp.body if isinstance(st, ast.If) and any(isinstance(n, ast.Return) for n in ast.walk(st))]
        if len(rets) != 1 or len(holders) != 1 or "NO_ACTION" not in ast.dump(holders[0].test):
            raise TranslateError(f"{rel}: the only way out of the loop must be the `return` under `if ... NO_ACTION`")
        if any(isinstance(n, ast.Assign) and any(getattr(t_, "id", "") == "privilege_change_count" for t_ in n.targets) for n in ast.walk(lp)):
            raise TranslateError(f"{rel}: privilege_change_count is re-assigned inside the loop")
        # the counter must be incremented by one inside the while loop
        inc = [n for n in ast.walk(fn) if isinstance(n, ast.AugAssign) and isinstance(n.target, ast.Name) and n.target.id == "privilege_change_count"]
        if len(inc) != 1 or not isinstance(inc[0].op, ast.Add) or not (isinstance(inc[0].value, ast.Constant) and inc[0].value.value == 1):
            raise TranslateError(f"{rel}: privilege_change_count is not incremented by exactly `+= 1` once")
        factors.append(found)
    if factors[0] != factors[1]:
        raise TranslateError(f"sync / asyncio acquire_priv loop factors differ: {factors}")
    out["factor"] = factors[0]
    fn = _method("scrapli/driver/network/base_driver.py", "BaseNetworkDriver", "_pre_send_configs")
    dflt = None
    for n in ast.walk(fn):
        if isinstance(n, ast.If) and isinstance(n.test, ast.Name) and n.test.id == "privilege_level":
            for s in n.orelse:
                if isinstance(s, ast.Assign) and getattr(s.targets[0], "id", "") == "resolved_privilege_level":
                    dflt = _cstr(s.value, "_pre_send_configs")
    if dflt is None:
        raise TranslateError("base_driver.py: default configuration level of _pre_send_configs not found")
    out["configLevel"] = dflt
    return out


# ---------- the classification cache
def cache_facts():
    """(is `_determine_current_priv` memoised?, does `update_privilege_levels` ALWAYS reach `cache_clear()`?)
    The second is read off the AST: the call is a top-level statement of the method, no statement before it contains a
    `return` / `raise`, and the method is what `register_configuration_session` calls after creating the level."""
    rel = "scrapli/driver/network/base_driver.py"
    det = _method(rel, "BaseNetworkDriver", "_determine_current_priv")
    cached = any("lru_cache" in ast.dump(d) or "cache" == getattr(d, "id", "") for d in det.decorator_list)
    upd = _body(_method(rel, "BaseNetworkDriver", "update_privilege_levels"))
    clears = False
    for st in upd:
        if (isinstance(st, ast.Expr) and isinstance(st.value, ast.Call) and isinstance(st.value.func, ast.Attribute)
                and st.value.func.attr == "cache_clear" and _is_self_attr(st.value.func.value, "_determine_current_priv")):
            clears = True
            break
        if any(isinstance(n, (ast.Return, ast.Raise)) for n in ast.walk(st)):
            break          # a path leaves the method before the cache is cleared
    # the graph must be rebuilt on every path as well (same rule)
    rebuilds = False
    for st in upd:
        if isinstance(st, ast.Expr) and isinstance(st.value, ast.Call) and _is_self_attr(st.value.func, "_build_priv_graph"):
            rebuilds = True
            break
        if any(isinstance(n, (ast.Return, ast.Raise)) for n in ast.walk(st)):
            break
    if not rebuilds:
        raise TranslateError(f"{rel}: update_privilege_levels does not always rebuild the privilege graph")
    return cached, clears


# ---------- on_open / on_close hooks of the platform drivers
def _hook_stmts(rel, fname):
    """the statements of a module-level hook `def <fname>(conn)`: ("acquire",) | ("command", line) | ("input", line) | ("raw", line)"""
    fn = next((n for n in _parse(rel).body if isinstance(n, (ast.FunctionDef, ast.AsyncFunctionDef)) and n.name == fname), None)
    if fn is None:
        raise TranslateError(f"{rel}: hook {fname} not found")
    arg = fn.args.args[0].arg

    def is_conn(e, *attrs):
        for a in reversed(attrs):
            if not (isinstance(e, ast.Attribute) and e.attr == a):
                return False
            e = e.value
        return isinstance(e, ast.Name) and e.id == arg
    out, pending_write = [], None
    for st in _body(fn):
        where = f"{rel}:{fname}:{st.lineno}"
        if not isinstance(st, ast.Expr):
            raise TranslateError(f"{where}: hook statement is not a call")
        c = _unawait(st.value)
        if not isinstance(c, ast.Call):
            raise TranslateError(f"{where}: hook statement is not a call")
        kw = {k.arg: k.value for k in c.keywords}
        if pending_write is not None:
            if is_conn(c.func, "channel", "send_return") and not c.args and not kw:
                out.append(("raw", pending_write))
                pending_write = None
                continue
            raise TranslateError(f"{where}: channel.write is not followed by channel.send_return")
        if is_conn(c.func, "acquire_priv"):
            v = kw.get("desired_priv", c.args[0] if c.args else None)
            if not is_conn(v, "default_desired_privilege_level"):
                raise TranslateError(f"{where}: hook acquires something other than conn.default_desired_privilege_level")
            out.append(("acquire",))
        elif is_conn(c.func, "send_command") and set(kw) <= {"command"}:
            out.append(("command", _cstr(kw.get("command", c.args[0] if c.args else None), where)))
        elif is_conn(c.func, "channel", "send_input") and set(kw) <= {"channel_input"}:
            out.append(("input", _cstr(kw.get("channel_input", c.args[0] if c.args else None), where)))
        elif is_conn(c.func, "channel", "write") and set(kw) <= {"channel_input"}:
            pending_write = _cstr(kw.get("channel_input", c.args[0] if c.args else None), where)
        else:
            raise TranslateError(f"{where}: hook statement not recognised: {ast.dump(c)[:200]}")
    if pending_write is not None:
        raise TranslateError(f"{rel}:{fname}: channel.write without send_return")
    return out


def hooks(platform):
    """(on_open statements, on_close statements) — sync and asyncio compared; the constructors must install them by default"""
    import importlib
    res = []
    for stack in ("sync", "async"):
        rel = f"scrapli/driver/core/{platform}/{stack}_driver.py"
        res.append((_hook_stmts(rel, f"{SHORT[platform]}_on_open"), _hook_stmts(rel, f"{SHORT[platform]}_on_close")))
        mod = importlib.import_module(f"scrapli.driver.core.{platform}.{stack}_driver")
        d = _construct(_drivers(platform)[stack == "async"], stack == "async")
        if d.on_open is not getattr(mod, f"{SHORT[platform]}_on_open") or d.on_close is not getattr(mod, f"{SHORT[platform]}_on_close"):
            raise TranslateError(f"{platform}: the {stack} constructor does not install {SHORT[platform]}_on_open / _on_close by default")
    # the two stacks may legitimately differ here (EOS: channel.send_input vs send_command): hooks are per-stack data
    return {"sync": res[0], "async": res[1]}


def hook_lean(stmts):
    def one(s):
        return ".acquireDefault" if s[0] == "acquire" else f".{s[0]} {lstr(s[1])}"
    return "[" + ", ".join(one(s) for s in stmts) + "]"


# ---------- does an interactive session stop at interaction_complete_patterns?
def interact_breaks():
    """True iff, in both channels, the event loop of `send_inputs_interact` contains `if <... self._interaction_complete(...) ...>: break`
    directly in the loop body (after the event's read), and the helper tests the event's own expected response first.
    False iff neither loop contains a `break`.  Anything else cannot be translated."""
    res = []
    for rel, cls in (("scrapli/channel/sync_channel.py", "Channel"), ("scrapli/channel/async_channel.py", "AsyncChannel")):
        fn = _method(rel, cls, "send_inputs_interact")
        loops = [n for n in ast.walk(fn) if isinstance(n, (ast.For, ast.AsyncFor)) and getattr(n.target, "id", "") == "interact_event"]
        if len(loops) != 1:
            raise TranslateError(f"{rel}: the event loop of send_inputs_interact was not found")
        breaks = [n for n in ast.walk(loops[0]) if isinstance(n, ast.Break)]
        if not breaks:
            res.append(False)
            continue
        guarded = [st for st in loops[0].body if isinstance(st, ast.If) and not st.orelse and st.body and isinstance(st.body[-1], ast.Break)
                   and all(isinstance(x, ast.Expr) for x in st.body[:-1])
                   and any(isinstance(c, ast.Call) and _is_self_attr(c.func, "_interaction_complete") for c in ast.walk(st.test))
                   and not isinstance(st.test, ast.UnaryOp)]
        if len(breaks) != 1 or len(guarded) != 1:
            raise TranslateError(f"{rel}: send_inputs_interact leaves its event loop in a way that is not modelled")
        res.append(True)
    if res[0] != res[1]:
        raise TranslateError(f"sync and asyncio send_inputs_interact differ in stopping at interaction_complete_patterns: {res}")
    if res[0]:
        # the helper: no patterns => False; expected response matched => False (tested first); else any(complete pattern matched)
        h = _body(_method("scrapli/channel/base_channel.py", "BaseChannel", "_interaction_complete"))
        rets = [n for st in h for n in ast.walk(st) if isinstance(n, ast.Return)]
        shape_ok = (len(h) >= 3 and isinstance(h[0], ast.If) and isinstance(h[0].test, ast.UnaryOp) and isinstance(h[0].test.op, ast.Not)
                    and getattr(h[0].test.operand, "id", "") == "interaction_complete_patterns"
                    and isinstance(rets[0].value, ast.Constant) and rets[0].value.value is False
                    and len(rets) == 3 and isinstance(rets[1].value, ast.Constant) and rets[1].value.value is False
                    and "channel_response" in ast.dump(next(st for st in h if isinstance(st, ast.If) and st is not h[0]).test)
                    and isinstance(rets[2].value, ast.Call) and getattr(rets[2].value.func, "id", "") == "any")
        if not shape_ok:
            raise TranslateError("base_channel.py: _interaction_complete is not `no patterns -> False; expected response seen -> False; any(complete pattern seen)`")
    return res[0]


# ---------- the flags classification searches with
_RE_FUNCS = {"search", "match", "fullmatch", "compile", "finditer", "findall"}


def _flag_names(e, where):
    """names of the re flags in an expression like `re.M | re.I` (long names normalised)"""
    norm = {"MULTILINE": "M", "IGNORECASE": "I", "DOTALL": "S", "VERBOSE": "X", "ASCII": "A", "UNICODE": "U", "LOCALE": "L"}
    if isinstance(e, ast.BinOp) and isinstance(e.op, ast.BitOr):
        return _flag_names(e.left, where) | _flag_names(e.right, where)
    if isinstance(e, ast.Attribute) and isinstance(e.value, ast.Name) and e.value.id == "re":
        return {norm.get(e.attr, e.attr)}
    if isinstance(e, ast.Constant) and e.value == 0:
        return set()
    raise TranslateError(f"{where}: regex flags are not a literal combination of re.X constants: {ast.dump(e)}")


def classify_flags():
    """the set of re flags with which `_determine_current_priv` — and every method of the class it calls, transitively —
    searches a privilege pattern in the prompt.  Every regex call found must use the same flags."""
    rel = "scrapli/driver/network/base_driver.py"
    cls = next(n for n in _parse(rel).body if isinstance(n, ast.ClassDef) and n.name == "BaseNetworkDriver")
    methods = {n.name: n for n in cls.body if isinstance(n, (ast.FunctionDef, ast.AsyncFunctionDef))}
    seen, todo, found = set(), ["_determine_current_priv"], []
    while todo:
        name = todo.pop()
        if name in seen or name not in methods:
            continue
        seen.add(name)
        for n in ast.walk(methods[name]):
            if not isinstance(n, ast.Call):
                continue
            f = n.func
            if isinstance(f, ast.Attribute) and isinstance(f.value, ast.Name) and f.value.id == "re" and f.attr in _RE_FUNCS:
                kw = {k.arg: k.value for k in n.keywords}
                pos = {"compile": 1}.get(f.attr, 2)
                fl = kw.get("flags", n.args[pos] if len(n.args) > pos else None)
                found.append((f"{rel}:{name}:{n.lineno}", frozenset(_flag_names(fl, f"{rel}:{name}") if fl is not None else ())))
            elif isinstance(f, ast.Attribute) and isinstance(f.value, ast.Name) and f.value.id in ("self", "cls") and f.attr in methods:
                todo.append(f.attr)
            elif isinstance(f, ast.Attribute) and isinstance(f.value, ast.Attribute) and _is_self_attr(f.value, f.value.attr) and f.value.attr in methods:
                todo.append(f.value.attr)      # self.helper(...).search(...)
    if not found:
        raise TranslateError(f"{rel}: no regex call found in _determine_current_priv or the methods it calls")
    if len({fl for _, fl in found}) != 1:
        raise TranslateError(f"{rel}: classification uses different regex flags in different places: {[(w, sorted(f)) for w, f in found]}")
    return sorted(found[0][1])


# ---------- drivers, tables
def _drivers(platform):
    import scrapli.driver.core as C
    name = CLS[platform]
    return getattr(C, name), getattr(C, "Async" + name)


def _construct(cls, asyncio_):
    return cls(host="translator", transport="asyncssh" if asyncio_ else "system")


def _marker(platform):
    """the substring tested by the platform's `_abort_config` guard (None when unguarded).  When the abort shape cannot be
    translated (reported separately by abort_spec) the marker is looked for directly in the AST of both drivers."""
    try:
        spec = abort_spec(platform)
        return spec[1] if spec[0] == "ifSession" else None
    except TranslateError:
        return _marker_ast(platform)


def abort_spec_stack(platform, asyncio_):
    """the abort shape of one stack alone (raises TranslateError when it is not one of the modelled shapes)"""
    if asyncio_:
        return _abort_one(f"scrapli/driver/core/{platform}/async_driver.py", "Async" + CLS[platform])
    return _abort_one(f"scrapli/driver/core/{platform}/sync_driver.py", CLS[platform])



def level_rows(levels, marker=None):
    """[(name, prev, esc, desc, auth, key, sess)] for a dict name -> PrivilegeLevel; key `p<i>` where i is the index
    of the first level with the same (pattern, not_contains)"""
    rows, first = [], {}
    for i, (k, l) in enumerate(levels.items()):
        if k != l.name:
            raise TranslateError(f"privilege table key {k!r} != level name {l.name!r}")
        for a in ("name", "previous_priv", "escalate", "deescalate", "pattern"):
            if not isinstance(getattr(l, a), str):
                raise TranslateError(f"level {k}: {a} is not a str")
        sg = (l.pattern, tuple(l.not_contains))
        first.setdefault(sg, i)
        rows.append((l.name, l.previous_priv, l.escalate, l.deescalate, bool(l.escalate_auth), f"p{first[sg]}",
                     bool(marker is not None and marker in l.pattern)))
    return rows


def table(platform):
    s, a = _drivers(platform)
    ds, da = _construct(s, False), _construct(a, True)
    m = _marker(platform)
    rs, ra = level_rows(ds.privilege_levels, m), level_rows(da.privilege_levels, m)
    if rs != ra:
        raise TranslateError(f"{platform}: sync and asyncio drivers construct different privilege tables")
    import importlib
    mod = importlib.import_module(f"scrapli.driver.core.{platform}.base_driver")
    if level_rows(mod.PRIVS, m) != rs:
        raise TranslateError(f"{platform}: constructed driver's table differs from the module's PRIVS")
    return rs


def default_level(platform):
    s, a = _drivers(platform)
    vals = []
    for c in (s, a):
        p = inspect.signature(c.__init__).parameters.get("default_desired_privilege_level")
        if p is None or not isinstance(p.default, str):
            raise TranslateError(f"{c.__name__}: default_desired_privilege_level has no string default")
        vals.append(p.default)
    if vals[0] != vals[1]:
        raise TranslateError(f"{platform}: sync / asyncio default_desired_privilege_level differ: {vals}")
    d = _construct(s, False)
    if d.default_desired_privilege_level != vals[0]:
        raise TranslateError(f"{platform}: constructor does not install its default_desired_privilege_level")
    return vals[0]


# ---------- _abort_config shapes
def _send_input_stmt(st, where):
    if not isinstance(st, ast.Expr):
        return None
    c = _unawait(st.value)
    if not (isinstance(c, ast.Call) and _is_self_attr(c.func, "channel", "send_input")):
        return None
    if len(c.args) == 1 and not c.keywords:
        return _cstr(c.args[0], where)
    if not c.args and len(c.keywords) == 1 and c.keywords[0].arg == "channel_input":
        return _cstr(c.keywords[0].value, where)
    raise TranslateError(f"{where}: send_input with unexpected arguments")


def _belief_stmt(st, where):
    if isinstance(st, ast.Assign) and len(st.targets) == 1 and _is_self_attr(st.targets[0], "_current_priv_level"):
        v = st.value
        if isinstance(v, ast.Subscript) and _is_self_attr(v.value, "privilege_levels"):
            return _cstr(v.slice, where)
        raise TranslateError(f"{where}: unexpected assignment to _current_priv_level")
    return None


def _direct(stmts, where):
    if len(stmts) != 2:
        raise TranslateError(f"{where}: expected `send_input(cmd); belief = levels[x]`, got {len(stmts)} statements")
    c, b = _send_input_stmt(stmts[0], where), _belief_stmt(stmts[1], where)
    if c is None or b is None:
        raise TranslateError(f"{where}: expected `send_input(cmd); belief = levels[x]`")
    return c, b


def _level_arg(pre, call, where):
    """how the nested send_configs chooses its privilege_level: default | current | currentIfPrefix p"""
    kws = {k.arg: k.value for k in call.keywords}
    if set(kws) - {"privilege_level", "configs"}:
        raise TranslateError(f"{where}: nested send_configs passes unexpected keywords {sorted(kws)}")
    if "privilege_level" not in kws:
        if pre:
            raise TranslateError(f"{where}: statements before the nested send_configs not recognised")
        return ("default",)
    v = kws["privilege_level"]
    if _is_self_attr(v, "_current_priv_level", "name") and not pre:
        return ("current",)
    if isinstance(v, ast.Name) and len(pre) == 2:
        a, g = pre
        if (isinstance(a, ast.Assign) and len(a.targets) == 1 and isinstance(a.targets[0], ast.Name) and a.targets[0].id == v.id
                and _is_self_attr(a.value, "_current_priv_level", "name") and isinstance(g, ast.If) and not g.orelse and len(g.body) == 1):
            t, b = g.test, g.body[0]
            if (isinstance(t, ast.UnaryOp) and isinstance(t.op, ast.Not) and isinstance(t.operand, ast.Call)
                    and isinstance(t.operand.func, ast.Attribute) and t.operand.func.attr == "startswith"
                    and isinstance(t.operand.func.value, ast.Name) and t.operand.func.value.id == v.id and len(t.operand.args) == 1
                    and isinstance(b, ast.Assign) and len(b.targets) == 1 and isinstance(b.targets[0], ast.Name) and b.targets[0].id == v.id
                    and isinstance(b.value, ast.Constant) and b.value.value == ""):
                return ("currentIfPrefix", _cstr(t.operand.args[0], where))
    raise TranslateError(f"{where}: privilege_level argument of the nested send_configs not recognised")


def _abort_one(rel, cls):
    where = f"{rel}:{cls}._abort_config"
    fn = _method(rel, cls, "_abort_config", required=False)
    if fn is None:
        asyncio_ = cls.startswith("Async")
        brel = "scrapli/driver/network/async_driver.py" if asyncio_ else "scrapli/driver/network/sync_driver.py"
        if _body(_method(brel, "AsyncNetworkDriver" if asyncio_ else "NetworkDriver", "_abort_config")):
            raise TranslateError(f"{brel}: the base _abort_config is no longer empty")
        return ("none",)
    stmts = _body(fn)
    if not stmts:
        return ("none",)
    if len(stmts) == 1 and isinstance(stmts[0], ast.If) and not stmts[0].orelse:
        t = stmts[0].test
        if (isinstance(t, ast.Compare) and len(t.ops) == 1 and isinstance(t.ops[0], ast.In)
                and _is_self_attr(t.comparators[0], "_current_priv_level", "pattern")):
            c, b = _direct(stmts[0].body, where)
            return ("ifSession", _cstr(t.left, where), c, b)
        raise TranslateError(f"{where}: guard not recognised")
    for i, st in enumerate(stmts):
        if isinstance(st, ast.Expr):
            c = _unawait(st.value)
            if isinstance(c, ast.Call) and _is_self_attr(c.func, "send_configs"):
                lst = c.args[0] if len(c.args) == 1 else next((k.value for k in c.keywords if k.arg == "configs"), None)
                if not isinstance(lst, ast.List) or not lst.elts:
                    raise TranslateError(f"{where}: nested send_configs without a literal non-empty list")
                lines = [_cstr(e, where) for e in lst.elts]
                larg = _level_arg(stmts[:i], c, where)
                rest = stmts[i + 1:]
                if len(rest) != 1 or _belief_stmt(rest[0], where) is None:
                    raise TranslateError(f"{where}: expected exactly the belief assignment after send_configs")
                return ("viaConfigs", tuple(lines), larg, _belief_stmt(rest[0], where))
    c, b = _direct(stmts, where)
    return ("always", c, b)


_abort_cache = {}
_PROBE_SESSION = "probesess"


def _marker_ast(platform):
    """the literal tested against `_current_priv_level.pattern` anywhere in the platform's `_abort_config` (AST walk; None if none)"""
    for rel, cls in ((f"scrapli/driver/core/{platform}/sync_driver.py", CLS[platform]),
                     (f"scrapli/driver/core/{platform}/async_driver.py", "Async" + CLS[platform])):
        fn = _method(rel, cls, "_abort_config", required=False)
        for n in ast.walk(fn) if fn is not None else ():
            if (isinstance(n, ast.Compare) and len(n.ops) == 1 and isinstance(n.ops[0], ast.In)
                    and _is_self_attr(n.comparators[0], "_current_priv_level", "pattern") and isinstance(n.left, ast.Constant)):
                return n.left.value
    return None


def abort_probe(platform, asyncio_, desired=None):
    """MEASURE `_abort_config` on the live class: a driver constructed with `default_desired_privilege_level=desired` (None: the
    constructor's default), one configuration session registered where the platform can, the channel and the nested
    `send_configs` replaced by recorders.  For every level b of the table taken as the belief:
        b -> (lines given to channel.send_input, [(configs, privilege_level) of nested send_configs], name the belief has afterwards)"""
    cls = _drivers(platform)[1 if asyncio_ else 0]
    kw = {} if desired is None else {"default_desired_privilege_level": desired}
    d = cls(host="translator", transport="asyncssh" if asyncio_ else "system", **kw)
    if hasattr(d, "register_configuration_session"):
        d.register_configuration_session(session_name=_PROBE_SESSION)
    sent, nested = [], []

    class _Resp:
        failed = False
        result = ""

    def _rec_input(*a, **k):
        sent.append(a[0] if a else k.get("channel_input"))
        return _Resp()

    def _rec_configs(*a, **k):
        nested.append((tuple(a[0] if a else k.get("configs")), k.get("privilege_level", "")))
        return _Resp()
    if asyncio_:
        async def rec_input(*a, **k):
            return _rec_input(*a, **k)

        async def rec_configs(*a, **k):
            return _rec_configs(*a, **k)
    else:
        rec_input, rec_configs = _rec_input, _rec_configs

    class _Chan:
        send_input = staticmethod(rec_input)
    d.channel = _Chan()
    d.send_configs = rec_configs
    out = {}
    for b in list(d.privilege_levels):
        del sent[:], nested[:]
        d._current_priv_level = d.privilege_levels[b]
        try:
            r = d._abort_config()
            if hasattr(r, "send"):
                try:
                    r.send(None)        # the recorders never suspend: the coroutine runs to its end at once
                    r.close()
                    raise TranslateError(f"{platform}: the asyncio _abort_config waits for something other than send_input / send_configs")
                except StopIteration:
                    pass
        except TranslateError:
            raise
        except Exception as e:  # noqa: BLE001
            raise TranslateError(f"{platform}: _abort_config raised {e!r} on the recorders (belief {b!r}, desired {desired!r})")
        out[b] = (tuple(sent), tuple(nested), d._current_priv_level.name)
    return out, {k: l.pattern for k, l in d.privilege_levels.items()}


def _spec_of_probe(platform, probe, patterns):
    """one of the modelled shapes that explains a measurement, else TranslateError"""
    where = f"{platform}: measured _abort_config"
    levels = list(probe)
    if all(v == ((), (), b) for b, v in probe.items()):
        return ("none",)
    acts = {b: v for b, v in probe.items() if v != ((), (), b)}
    if any(len(v[0]) + len(v[1]) != 1 for v in acts.values()):
        raise TranslateError(f"{where}: not exactly one send_input / send_configs where it acts: {acts}")
    after = {v[2] for v in acts.values()}
    if len(after) != 1:
        raise TranslateError(f"{where}: the belief after the abort depends on the belief before: { {b: v[2] for b, v in acts.items()} }")
    lvl = after.pop()
    if all(v[0] for v in acts.values()):
        cmds = {v[0][0] for v in acts.values()}
        if len(cmds) != 1 or not isinstance(next(iter(cmds)), str):
            raise TranslateError(f"{where}: abort line depends on the belief: {cmds}")
        cmd = cmds.pop()
        if len(acts) == len(levels):
            return ("always", cmd, lvl)
        marker = _marker_ast(platform) or SESSION_MARKER_DEFAULT
        if {b for b in levels if marker in patterns[b]} != set(acts):
            raise TranslateError(f"{where}: acts exactly in {sorted(acts)}, which is not the set of levels whose pattern contains {marker!r}")
        return ("ifSession", marker, cmd, lvl)
    if len(acts) != len(levels) or not all(v[1] for v in acts.values()):
        raise TranslateError(f"{where}: mixed send_input / send_configs: {acts}")
    lines = {v[1][0][0] for v in acts.values()}
    if len(lines) != 1:
        raise TranslateError(f"{where}: nested configs depend on the belief")
    arg = {b: v[1][0][1] for b, v in acts.items()}
    if all(a == "" for a in arg.values()):
        larg = ("default",)
    elif all(a == b for b, a in arg.items()):
        larg = ("current",)
    else:
        own = [b for b, a in arg.items() if a == b]
        if any(a != "" for b, a in arg.items() if b not in own) or not own:
            raise TranslateError(f"{where}: privilege_level of the nested send_configs not recognised: {arg}")
        import os.path
        pre = os.path.commonprefix(own)
        if any(b.startswith(pre) for b in levels if b not in own):
            pre = ""
        if not pre:
            raise TranslateError(f"{where}: the levels passed on to the nested send_configs are not those with a common name prefix: {own}")
        # which prefix separates these levels is not determined by a measurement (see `_same_shape`)
        larg = ("currentIfPrefix", pre)
    return ("viaConfigs", tuple(lines.pop()), larg, lvl)


def _same_shape(a, b, levels):
    """two specs equal up to what no measurement can tell apart (the prefix of currentIfPrefix: same set of table levels selected)"""
    if a == b:
        return True
    if a[0] == b[0] == "viaConfigs" and a[1] == b[1] and a[3] == b[3] and a[2][0] == b[2][0] == "currentIfPrefix":
        return {x for x in levels if x.startswith(a[2][1])} == {x for x in levels if x.startswith(b[2][1])}
    return False


def abort_measured(platform, desired=None):
    """the abort shape measured under one value of default_desired_privilege_level (both stacks must agree)"""
    specs = []
    for asyncio_ in (False, True):
        probe, patterns = abort_probe(platform, asyncio_, desired)
        specs.append(_spec_of_probe(platform, probe, patterns))
    if specs[0] != specs[1]:
        raise TranslateError(f"{platform}: measured sync and asyncio _abort_config differ: {specs[0]} vs {specs[1]}")
    return specs[0]


def abort_spec(platform):
    """The abort shape is MEASURED on the live classes, for the constructor's default and for every level of the table as
    `default_desired_privilege_level` (a public constructor argument): it must not depend on it.  The AST is a cross-check only
    where it has one of the familiar shapes."""
    if platform not in _abort_cache:
        levels = list(_construct(_drivers(platform)[0], False).privilege_levels)
        meas = {d: abort_measured(platform, d) for d in [None] + levels}
        if len(set(meas.values())) != 1:
            dep = {str(d): m for d, m in meas.items() if m != meas[None]}
            raise TranslateError(f"{platform}: _abort_config depends on default_desired_privilege_level: default {meas[None]}, but {dep}")
        spec = meas[None]
        ast_specs = []
        for rel, cls in ((f"scrapli/driver/core/{platform}/sync_driver.py", CLS[platform]),
                         (f"scrapli/driver/core/{platform}/async_driver.py", "Async" + CLS[platform])):
            try:
                ast_specs.append(_abort_one(rel, cls))
            except TranslateError:
                ast_specs.append(None)      # not a shape the AST reader knows: the measurement stands alone
        for a in ast_specs:
            if a is not None and not _same_shape(a, spec, levels):
                raise TranslateError(f"{platform}: _abort_config read from the AST {a} differs from the measured behaviour {spec}")
        known = [a for a in ast_specs if a is not None]
        _abort_cache[platform] = known[0] if known else spec
    return _abort_cache[platform]


def abort_lean(spec):
    k = spec[0]
    if k == "none":
        return ".none"
    if k == "always":
        return f".always {lstr(spec[1])} {lstr(spec[2])}"
    if k == "ifSession":
        return f".ifSession {lstr(spec[2])} {lstr(spec[3])}"
    larg = {"default": ".default", "current": ".current"}.get(spec[2][0]) or f"(.currentIfPrefix {lstr(spec[2][1])})"
    return f".viaConfigs {lstrs(spec[1])} {larg} {lstr(spec[3])}"


# ---------- session template (EOS / NX-OS)
def session_template(platform):
    """None, or dict(prev, escPrefix, desc, keyTake, sess) recovered by calling the real
    `_create_configuration_session` with marker names"""
    s, a = _drivers(platform)
    if not hasattr(s, "register_configuration_session"):
        if hasattr(a, "register_configuration_session"):
            raise TranslateError(f"{platform}: only the asyncio driver can register sessions")
        return None
    marker = _marker(platform)
    res = []
    for cls, asyncio_ in ((s, False), (a, True)):
        base = "qwertyuiopasdfghjklzxcvbnm0123456789abcd"   # 40 distinct-enough characters

        def level_for(name):
            d = _construct(cls, asyncio_)
            before = list(d.privilege_levels)
            d._create_configuration_session(session_name=name)
            new = [k for k in d.privilege_levels if k not in before]
            if new != [name] or list(d.privilege_levels)[:len(before)] != before:
                raise TranslateError(f"{platform}: _create_configuration_session does not append exactly the level named after the session")
            return d, d.privilege_levels[name]

        d0, l0 = level_for(base)
        if l0.name != base or l0.escalate_auth or l0.not_contains:
            raise TranslateError(f"{platform}: session level is not (name = session, no auth, no exclusions)")
        if not l0.escalate.endswith(base):
            raise TranslateError(f"{platform}: session escalate command does not end with the session name")
        esc_prefix = l0.escalate[:-len(base)]
        # the pattern must differ from every base level's (own share group)
        if any(l0.pattern == l.pattern for k, l in d0.privilege_levels.items() if k != base):
            raise TranslateError(f"{platform}: session pattern equals a base level's pattern")
        differs = []
        for k in range(len(base)):
            nm = base[:k] + "Z" + base[k + 1:]
            _, lk = level_for(nm)
            if (lk.previous_priv, lk.deescalate, lk.escalate_auth) != (l0.previous_priv, l0.deescalate, l0.escalate_auth) \
                    or lk.escalate != esc_prefix + nm:
                raise TranslateError(f"{platform}: session level fields depend on the name in an unexpected way")
            differs.append(lk.pattern != l0.pattern)
        take = sum(differs)
        if differs != [True] * take + [False] * (len(base) - take):
            raise TranslateError(f"{platform}: session pattern does not depend on a prefix of the name")
        if take == len(base):
            take = 100000     # the whole name
        # a duplicate registration must be refused
        try:
            d0._create_configuration_session(session_name=base)
            raise TranslateError(f"{platform}: registering an existing name is not refused")
        except TranslateError:
            raise
        except Exception as e:
            if type(e).__name__ != "ScrapliValueError":
                raise TranslateError(f"{platform}: duplicate session name raises {type(e).__name__}")
        res.append(dict(prev=l0.previous_priv, escPrefix=esc_prefix, desc=l0.deescalate, keyTake=take,
                        sess=bool(marker is not None and marker in l0.pattern)))
    if res[0] != res[1]:
        raise TranslateError(f"{platform}: sync / asyncio session templates differ")
    # register_configuration_session = _create + update_privilege_levels
    for rel, cls in ((f"scrapli/driver/core/{platform}/sync_driver.py", CLS[platform]),
                     (f"scrapli/driver/core/{platform}/async_driver.py", "Async" + CLS[platform])):
        b = _body(_method(rel, cls, "register_configuration_session"))
        calls = [x.value.func.attr for x in b if isinstance(x, ast.Expr) and isinstance(x.value, ast.Call) and isinstance(x.value.func, ast.Attribute)]
        if calls != ["_create_configuration_session", "update_privilege_levels"]:
            raise TranslateError(f"{rel}: register_configuration_session is not `_create_configuration_session; update_privilege_levels`")
    return res[0]


def session_lean(t):
    if t is None:
        return "none"
    return (f"some {{ prev := {lstr(t['prev'])}, escPrefix := {lstr(t['escPrefix'])}, desc := {lstr(t['desc'])}, "
            f"keyPrefix := \"s:\", keyTake := {t['keyTake']}, sess := {lbool(t['sess'])} }}")


def level_lean(r):
    n, p, e, d, a, k, s = r
    return f"{{ name := {lstr(n)}, prev := {lstr(p)}, esc := {lstr(e)}, desc := {lstr(d)}, auth := {lbool(a)}, pat := {lstr(k)}, sess := {lbool(s)} }}"


def generate():
    c = consts()
    src = "scrapli/driver/network/{base,sync,async}_driver.py and scrapli/driver/core/*/{base,sync,async}_driver.py (tools/gen/privgen.py)"
    a = HEADER.format(src=src) + "namespace Scrapli.Gen.Priv\n"
    a += f"/-- DUMMY_PRIV_LEVEL.name -/\ndef dummyName : String := {lstr(c['dummy'])}\n"
    a += f"/-- acquire_priv gives up when privilege_change_count > len(privilege_levels) * loopFactor -/\ndef loopFactor : Nat := {c['factor']}\n"
    a += f"/-- the level `_pre_send_configs` resolves an empty privilege_level to -/\ndef configLevel : String := {lstr(c['configLevel'])}\n"
    a += ("/-- `send_inputs_interact` leaves its event loop when an event's read ended on one of `interaction_complete_patterns` "
          f"rather than on the event's expected response -/\ndef interactBreaksOnComplete : Bool := {lbool(interact_breaks())}\n")
    flags = classify_flags()
    a += f"/-- the re flags `_determine_current_priv` searches privilege patterns with (and every helper it calls) -/\ndef classifyFlags : List String := {lstrs(flags)}\n"
    cached, clears = cache_facts()
    a += f"/-- `_determine_current_priv` is memoised (lru_cache) -/\ndef classifyMemoised : Bool := {lbool(cached)}\n"
    a += ("/-- every path through `update_privilege_levels` (run after a session level is added) reaches "
          f"`_determine_current_priv.cache_clear()` -/\ndef updateClearsCache : Bool := {lbool(clears)}\n")
    a += "end Scrapli.Gen.Priv\n"
    b = HEADER.format(src=src) + "import ScrapliModel.Priv.Driver\nnamespace Scrapli.Gen.Priv\nopen Scrapli.Priv\n"
    for p in PLATFORMS:
        s = SHORT[p]
        rows = table(p)
        b += f"\ndef {s} : Table := [\n  " + ",\n  ".join(level_lean(r) for r in rows) + "]\n"
        b += f"def {s}Default : Name := {lstr(default_level(p))}\n"
        b += f"def {s}Abort : AbortSpec := {abort_lean(abort_spec(p))}\n"
        b += f"def {s}Sess : Option SessTemplate := {session_lean(session_template(p))}\n"
        hk = hooks(p)
        b += f"def {s}OnOpen : List HookStmt := {hook_lean(hk['sync'][0])}\ndef {s}OnClose : List HookStmt := {hook_lean(hk['sync'][1])}\n"
        b += f"def {s}OnOpenAsync : List HookStmt := {hook_lean(hk['async'][0])}\ndef {s}OnCloseAsync : List HookStmt := {hook_lean(hk['async'][1])}\n"
    b += "\ndef platforms : List (String × Table × Name × AbortSpec × Option SessTemplate) := [\n  "
    b += ",\n  ".join(f"({lstr(p)}, {SHORT[p]}, {SHORT[p]}Default, {SHORT[p]}Abort, {SHORT[p]}Sess)" for p in PLATFORMS) + "]\n"
    b += "\ndef onOpenHooks : List (List HookStmt) := [" + ", ".join(f"{SHORT[p]}OnOpen, {SHORT[p]}OnOpenAsync" for p in PLATFORMS) + "]\n"
    b += "def onCloseHooks : List (List HookStmt) := [" + ", ".join(f"{SHORT[p]}OnClose, {SHORT[p]}OnCloseAsync" for p in PLATFORMS) + "]\n"
    b += "end Scrapli.Gen.Priv\n"
    return [("ScrapliModel/Gen/PrivConsts.lean", a), ("ScrapliModel/Gen/PrivTables.lean", b)]
