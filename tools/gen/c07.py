"""translator piece for C07: everything that is *data* in the timeout machinery.

From scrapli/decorators.py (AST): FUNC_TIMEOUT_MESSAGE_MAP, the default message of
_get_timeout_message, the class-name tuple of the `cls_name in (...)` test inside the sync `decorate`
of timeout_wrapper, and the other disjuncts of that test as source text (pinned by a Lean theorem); two AST-shape flags of
the signal branch (restoresTimer, epilogueGuarded); the list of task-spawning call sites in the async classes; the
shape of both `decorate` variants of timeout_modifier (keep test operands, assignment, restore in finally) and its use sites.
NOT read from the source, hand-written in ScrapliModel/Timeout.lean and tied only by the selection rig, the timed
correspondence runs and the mutation self-test: `if not timeout` first, the try/finally of the signal branch, the pool
`with` (= join) of the thread branch, `wait_for` of the asyncio branch.  From scrapli/settings.py:
the default of Settings.NO_TERMINATE_ON_TIMEOUT.  From every module under scrapli/: which methods of
which classes carry @timeout_wrapper (sync and async)."""
import ast
from translate import HEADER, TranslateError, _parse
from vlib.common import REPO

DEC = "scrapli/decorators.py"


def _lstr(s):
    return '"' + s.replace("\\", "\\\\").replace('"', '\\"') + '"'


def _func(tree, name):
    for n in tree.body:
        if isinstance(n, (ast.FunctionDef, ast.AsyncFunctionDef)) and n.name == name:
            return n
    raise TranslateError(f"{DEC}: function {name} not found")


NOTES = []      # what could not be read off the AST this time and how the fact was obtained instead (goes into the evidence)
MOD_DEFAULT = {"keep": ["isNone", "eqDriver"], "sets": True, "restores": True, "restoreInFinally": True}


def _note(msg):
    if msg not in NOTES:
        NOTES.append(msg)


def _sync_decorate(tree):
    tw = _func(tree, "timeout_wrapper")
    sync_dec = [n for n in ast.walk(tw) if isinstance(n, ast.FunctionDef) and n.name == "decorate"]
    if len(sync_dec) != 1:
        raise TranslateError(f"{DEC}: expected exactly one sync `decorate` in timeout_wrapper, found {len(sync_dec)}")
    return sync_dec[0]


def _scope(tree, root):
    """`root` and every module-level function it refers to by name, transitively (a helper the code was moved into is
    read as if it were still inline)"""
    top = {n.name: n for n in tree.body if isinstance(n, (ast.FunctionDef, ast.AsyncFunctionDef))}
    out, todo = [], [root]
    while todo:
        f = todo.pop()
        if f in out:
            continue
        out.append(f)
        for n in ast.walk(f):
            if isinstance(n, ast.Name) and n.id in top and top[n.id] not in out:
                todo.append(top[n.id])
    return out


def _live_decorators():
    """scrapli.decorators of the tree under translation, or None when that is not what `import scrapli` gives here"""
    try:
        import importlib
        from pathlib import Path
        d = importlib.import_module("scrapli.decorators")
        if Path(d.__file__).resolve() != (REPO / DEC).resolve():
            return None
        return d
    except Exception:  # noqa
        return None


def measure_modifier():
    """timeout_modifier as BEHAVIOUR: a probe method on a stub (timeout_ops is a property that counts assignments), driver
    value x keyword {absent, None, 0, 0.0, smaller, larger, equal}, returning and raising, sync and coroutine variants:
    the value in force during the call, the value afterwards, the number of assignments.  -> {'sync': shape, 'async': shape}
    in the vocabulary of modifier_shape, or None when the observations are not explained by any such shape"""
    import asyncio
    import logging
    d = _live_decorators()
    if d is None:
        return None

    class Boom(Exception):
        pass

    class Stub:
        def __init__(self, v):
            self._v, self.sets, self.seen = v, 0, []
            self.logger = logging.getLogger("c07-translator-probe")
            self.logger.disabled = True

        @property
        def timeout_ops(self):
            return self._v

        @timeout_ops.setter
        def timeout_ops(self, v):
            self.sets += 1
            self._v = v

    def sync_probe(self, *, timeout_ops=None, fail=False):
        self.seen.append(self._v)
        if fail:
            raise Boom()

    async def async_probe(self, *, timeout_ops=None, fail=False):
        self.seen.append(self._v)
        if fail:
            raise Boom()
    out = {}
    for stack, fn in (("sync", d.timeout_modifier(sync_probe)), ("async", d.timeout_modifier(async_probe))):
        def call(drv, kw, fail):
            st = Stub(drv)
            kwargs = {} if kw == "absent" else {"timeout_ops": kw}
            try:
                r = fn(st, fail=fail, **kwargs)
                if stack == "async":
                    loop = asyncio.new_event_loop()
                    try:
                        loop.run_until_complete(r)
                    finally:
                        loop.close()
                exc = None
            except Boom:
                exc = "boom"
            except Exception as e:  # noqa
                exc = type(e).__name__
            return {"seen": st.seen, "after": st._v, "sets": st.sets, "exc": exc}
        obs = {(drv, repr(kw), fail): call(drv, kw, fail) for drv in (5.0, 0) for kw in ("absent", None, 0, 0.0, 2.0, 9.0, drv) for fail in (False, True)}
        ran = lambda o: len(o["seen"]) == 1  # noqa
        if not all(ran(o) for o in obs.values()):
            return None
        kept = lambda drv, kw: obs[(drv, repr(kw), False)]["sets"] == 0 and obs[(drv, repr(kw), False)]["seen"] == [drv]  # noqa
        keep = []
        falsy = kept(5.0, 0) and kept(5.0, 0.0)
        if falsy and kept(5.0, None) and kept(5.0, "absent"):
            keep.append("falsy")
        elif kept(5.0, None) and kept(5.0, "absent"):
            keep.append("isNone")
        if kept(5.0, 5.0):
            keep.append("eqDriver")
        o_ret, o_exc = obs[(5.0, repr(2.0), False)], obs[(5.0, repr(2.0), True)]
        shape = {"keep": keep, "sets": o_ret["seen"] == [2.0], "restores": o_ret["after"] == 5.0,
                 "restoreInFinally": o_ret["after"] == 5.0 and o_exc["after"] == 5.0}
        # every observation must be what this shape predicts (the Lean `modifier`, restated)
        for (drv, kwr, fail), o in obs.items():
            kw = next(k for k in ("absent", None, 0, 0.0, 2.0, 9.0, drv) if repr(k) == kwr)
            none = kw in ("absent", None)
            holds = {"isNone": none, "eqDriver": (not none) and kw == drv, "falsy": none or kw == 0}
            if any(holds[t] for t in shape["keep"]):
                want_seen, want_after = drv, drv
            elif none:
                continue          # refused before the wrapped call in the model; the stub has no type check
            else:
                want_seen = kw if shape["sets"] else drv
                want_after = drv if shape["restores"] and (shape["restoreInFinally"] or not fail) else want_seen
            if o["seen"] != [want_seen] or o["after"] != want_after or o["exc"] != ("boom" if fail else None):
                return None
        out[stack] = shape
    return out


def measure_selection(candidates):
    """mechanism selection as BEHAVIOUR: the real timeout_wrapper around a probe method of stub transports named as each
    candidate class, timeout > 0, from the main thread, from another thread, and with _IS_WINDOWS set: which mechanism
    runs the wrapped call (another thread? scrapli's SIGALRM handler installed?).  Needs the main thread.
    -> {'thread_names': [...], 'windows': bool, 'non_main': bool} or None"""
    import logging
    import signal
    import threading
    from types import SimpleNamespace
    d = _live_decorators()
    if d is None or threading.current_thread() is not threading.main_thread() or not hasattr(signal, "setitimer"):
        return None
    lg = logging.getLogger("c07-translator-probe")
    lg.disabled = True

    def probe(self):
        h = signal.getsignal(signal.SIGALRM)
        return "thread" if threading.current_thread() is not self.caller else "signal" if h is not self.h0 else "direct"
    probe.__name__ = "read"
    wrapped = d.timeout_wrapper(probe)

    def mech(name, other=False, windows=False):
        cls = type(name, (), {"close": lambda self: None})
        t = cls()
        t.logger, t._base_transport_args = lg, SimpleNamespace(timeout_transport=30.0)
        box = {}

        def go():
            t.caller, t.h0 = threading.current_thread(), signal.getsignal(signal.SIGALRM)
            try:
                box["m"] = wrapped(t)
            except Exception as e:  # noqa
                box["m"] = "error:" + type(e).__name__
        old = d._IS_WINDOWS
        d._IS_WINDOWS = windows
        try:
            if other:
                th = threading.Thread(target=go)
                th.start()
                th.join(10)
            else:
                go()
        finally:
            d._IS_WINDOWS = old
        return box.get("m")
    try:
        plain = "C07ProbeTransport"
        if mech(plain) != "signal":
            return None
        names = [n for n in candidates if mech(n) == "thread"]
        if any(mech(n) not in ("thread", "signal") for n in candidates):
            return None
        return {"thread_names": names, "windows": mech(plain, windows=True) == "thread", "non_main": mech(plain, other=True) == "thread"}
    except Exception:  # noqa
        return None


def transport_class_names():
    """every class name under scrapli/transport (+ near misses of each): the candidates of the measured selection"""
    names = set()
    for p in sorted((REPO / "scrapli" / "transport").rglob("*.py")):
        for c in ast.walk(ast.parse(p.read_text())):
            if isinstance(c, ast.ClassDef) and c.name.endswith("Transport"):
                names.add(c.name)
    return sorted(names)


_SEL_CACHE = {}


def _measured_selection():
    if "v" not in _SEL_CACHE:
        _SEL_CACHE["v"] = measure_selection(transport_class_names())
    return _SEL_CACHE["v"]


BASELINE_THREAD_NAMES = ["SystemTransport", "TelnetTransport"]
BASELINE_DISJUNCTS = ["_IS_WINDOWS", "threading.current_thread() is not threading.main_thread()"]


def message_map(tree):
    for n in tree.body:
        if isinstance(n, ast.Assign) and len(n.targets) == 1 and isinstance(n.targets[0], ast.Name) \
                and n.targets[0].id == "FUNC_TIMEOUT_MESSAGE_MAP":
            try:
                d = ast.literal_eval(n.value)
            except Exception as e:
                raise TranslateError(f"{DEC}: FUNC_TIMEOUT_MESSAGE_MAP is not a literal: {e!r}")
            if not (isinstance(d, dict) and all(isinstance(k, str) and isinstance(v, str) for k, v in d.items())):
                raise TranslateError(f"{DEC}: FUNC_TIMEOUT_MESSAGE_MAP is not a str->str dict")
            return list(d.items())
    raise TranslateError(f"{DEC}: FUNC_TIMEOUT_MESSAGE_MAP not found")


def default_message(tree):
    f = _func(tree, "_get_timeout_message")
    for n in ast.walk(f):
        if isinstance(n, ast.Call) and isinstance(n.func, ast.Attribute) and n.func.attr == "get" \
                and isinstance(n.func.value, ast.Name) and n.func.value.id == "FUNC_TIMEOUT_MESSAGE_MAP" and len(n.args) == 2:
            if isinstance(n.args[1], ast.Constant) and isinstance(n.args[1].value, str):
                return n.args[1].value
    raise TranslateError(f"{DEC}: _get_timeout_message does not end in FUNC_TIMEOUT_MESSAGE_MAP.get(name, <str>)")


def selection(tree):
    """the class-name tuple of the mechanism test: read off the AST where it has the familiar inline shape, otherwise
    MEASURED on the live wrapper (probe transports named as every transport class), otherwise the hand-written table
    (tie = the exhaustive selection rig of every run)"""
    try:
        return _selection_ast(tree)
    except TranslateError as e:
        m = _measured_selection()
        if m is not None:
            _note(f"translator: class-name tuple unreadable ({e}); MEASURED on the live timeout_wrapper: {m['thread_names']}")
            return m["thread_names"]
        _note(f"translator: shape unreadable, tie = correspondence only (class-name tuple: {e})")
        return list(BASELINE_THREAD_NAMES)


def selection_disjuncts(tree):
    """the other operands of the mechanism test as source text (AST), else the two behaviours measured on the live wrapper
    (windows flag / non-main thread select the worker thread) under their canonical spelling, else hand-written"""
    try:
        return _selection_disjuncts_ast(tree)
    except TranslateError as e:
        m = _measured_selection()
        if m is not None:
            got = [t for t, on in zip(BASELINE_DISJUNCTS, (m["windows"], m["non_main"])) if on]
            _note(f"translator: mechanism test unreadable ({e}); MEASURED on the live timeout_wrapper: windows flag -> thread {m['windows']}, non-main thread -> thread {m['non_main']}")
            return got
        _note(f"translator: shape unreadable, tie = correspondence only (mechanism test operands: {e})")
        return list(BASELINE_DISJUNCTS)


def _selection_ast(tree):
    """the class-name tuple and the disjuncts of the mechanism test in the sync `decorate`"""
    tw = _func(tree, "timeout_wrapper")
    sync_dec = [n for n in ast.walk(tw) if isinstance(n, ast.FunctionDef) and n.name == "decorate"]
    if len(sync_dec) != 1:
        raise TranslateError(f"{DEC}: expected exactly one sync `decorate` in timeout_wrapper, found {len(sync_dec)}")
    names, found = None, 0
    for n in ast.walk(sync_dec[0]):
        if isinstance(n, ast.Compare) and len(n.ops) == 1 and isinstance(n.ops[0], ast.In) \
                and isinstance(n.left, ast.Name) and n.left.id == "cls_name":
            try:
                v = ast.literal_eval(n.comparators[0])
            except Exception as e:
                raise TranslateError(f"{DEC}: class-name collection is not a literal: {e!r}")
            if not all(isinstance(x, str) for x in v):
                raise TranslateError(f"{DEC}: class-name collection holds non-strings: {v!r}")
            names, found = list(v), found + 1
    if found != 1:
        raise TranslateError(f"{DEC}: expected exactly one `cls_name in (...)` test, found {found}")
    # what cls_name is: transport.__class__.__name__
    ok = False
    for n in ast.walk(sync_dec[0]):
        if isinstance(n, ast.Assign) and len(n.targets) == 1 and isinstance(n.targets[0], ast.Name) and n.targets[0].id == "cls_name":
            ok = ast.unparse(n.value) == "transport.__class__.__name__"
    if not ok:
        raise TranslateError(f"{DEC}: cls_name is no longer transport.__class__.__name__")
    return names


def _selection_disjuncts_ast(tree):
    """source text of the operands of the mechanism test other than the class-name test, sorted"""
    tw = _func(tree, "timeout_wrapper")
    dec = [n for n in ast.walk(tw) if isinstance(n, ast.FunctionDef) and n.name == "decorate"][0]
    for n in ast.walk(dec):
        if isinstance(n, ast.If) and isinstance(n.test, ast.BoolOp) and isinstance(n.test.op, ast.Or):
            ops = n.test.values
            if any(isinstance(o, ast.Compare) and isinstance(o.left, ast.Name) and o.left.id == "cls_name" for o in ops):
                return sorted(ast.unparse(o) for o in ops
                              if not (isinstance(o, ast.Compare) and isinstance(o.left, ast.Name) and o.left.id == "cls_name"))
    raise TranslateError(f"{DEC}: the mechanism test is no longer `cls_name in (...) or ... or ...`")


def measure_restores_timer():
    """signal mechanism as BEHAVIOUR: the user's ITIMER_REAL (30 s, handler that returns) armed before a decorated call that
    returns at once — is it armed afterwards?  Needs the main thread.  -> bool or None"""
    import logging
    import signal
    import threading
    from types import SimpleNamespace
    d = _live_decorators()
    if d is None or threading.current_thread() is not threading.main_thread() or not hasattr(signal, "setitimer"):
        return None
    lg = logging.getLogger("c07-translator-probe")
    lg.disabled = True
    seen = {}

    def read(self):
        seen["armed"] = signal.getsignal(signal.SIGALRM) is not mine
    t = type("C07ProbeTransport", (), {"close": lambda self: None})()
    t.logger, t._base_transport_args = lg, SimpleNamespace(timeout_transport=30.0)
    mine = lambda *a: None  # noqa
    old_h = signal.signal(signal.SIGALRM, mine)
    old_t = signal.setitimer(signal.ITIMER_REAL, 30.0)
    try:
        d.timeout_wrapper(read)(t)
        left = signal.getitimer(signal.ITIMER_REAL)[0]
        return (left > 0) if seen.get("armed") else None
    except Exception:  # noqa
        return None
    finally:
        signal.setitimer(signal.ITIMER_REAL, *old_t)
        signal.signal(signal.SIGALRM, old_h)


def restores_timer(tree):
    """does the signal branch put a previously armed ITIMER_REAL back: the return value of a `signal.setitimer(...)`
    call is kept, and the `finally` of the same function calls setitimer with a delay that is not the constant 0"""
    dec = ast.Module(body=_scope(tree, _sync_decorate(tree)), type_ignores=[])

    def is_setitimer(n):
        return isinstance(n, ast.Call) and isinstance(n.func, ast.Attribute) and n.func.attr == "setitimer"
    if not any(is_setitimer(n) for n in ast.walk(dec)):
        m = measure_restores_timer()
        if m is not None:
            _note(f"translator: no setitimer call found in the sync decorate or the helpers it names; restoresTimer MEASURED on the live wrapper: {m}")
            return m
        _note("translator: shape unreadable, tie = correspondence only (restoresTimer: no setitimer call found; the timed runs with a user alarm armed decide)")
        return True
    kept = any(isinstance(n, (ast.Assign, ast.AnnAssign)) and n.value is not None and is_setitimer(n.value) for n in ast.walk(dec))
    rearm = False
    for t in ast.walk(dec):
        if isinstance(t, ast.Try):
            for st in t.finalbody:
                for n in ast.walk(st):
                    if is_setitimer(n) and len(n.args) >= 2 and not (isinstance(n.args[1], ast.Constant) and n.args[1].value == 0):
                        rearm = True
    # the time left must be computed: some subtraction inside that finally (previous delay minus elapsed); the
    # arithmetic itself is tied by the timed runs with a user alarm armed (remaining time compared, +30 ms)
    sub = any(isinstance(n, ast.BinOp) and isinstance(n.op, ast.Sub) for t in ast.walk(dec) if isinstance(t, ast.Try)
              for st in t.finalbody for n in ast.walk(st))
    if kept and rearm and not sub:
        raise TranslateError(f"{DEC}: the previous timer is re-armed but no remaining time is computed in the finally")
    return kept and rearm


def epilogue_guarded(tree):
    """is the handler restore protected against an alarm that raises inside the disarming `finally`: the
    `signal.signal(...)` restore sits in the finalbody of a Try whose body contains another Try with a finalbody
    (the inner one disarms)"""
    dec = ast.Module(body=_scope(tree, _sync_decorate(tree)), type_ignores=[])

    def calls(nodes, attr):
        return any(isinstance(n, ast.Call) and isinstance(n.func, ast.Attribute) and n.func.attr == attr
                   for st in nodes for n in ast.walk(st))
    restores = [t for t in ast.walk(dec) if isinstance(t, ast.Try) and calls(t.finalbody, "signal")]
    if len(restores) != 1:
        _note(f"translator: shape unreadable, tie = correspondence only (epilogueGuarded: {len(restores)} try/finally restore the SIGALRM "
              "handler in the sync decorate and its helpers; the trace-injected race runs decide)")
        return True
    outer = restores[0]
    inner = [t for st in outer.body for t in ast.walk(st) if isinstance(t, ast.Try) and t.finalbody]
    return any(calls(t.finalbody, "setitimer") for t in inner)


def no_terminate_default():
    rel = "scrapli/settings.py"
    for n in ast.walk(_parse(rel)):
        if isinstance(n, ast.ClassDef) and n.name == "Settings":
            for a in n.body:
                if isinstance(a, ast.Assign) and len(a.targets) == 1 and isinstance(a.targets[0], ast.Name) \
                        and a.targets[0].id == "NO_TERMINATE_ON_TIMEOUT":
                    v = ast.literal_eval(a.value)
                    if not isinstance(v, bool):
                        raise TranslateError(f"{rel}: NO_TERMINATE_ON_TIMEOUT default is not a bool: {v!r}")
                    return v
    raise TranslateError(f"{rel}: Settings.NO_TERMINATE_ON_TIMEOUT not found")


def decorated():
    """[(class, method, is_async)] for every method decorated with @timeout_wrapper, sorted"""
    out = []
    for p in sorted((REPO / "scrapli").rglob("*.py")):
        try:
            tree = ast.parse(p.read_text())
        except SyntaxError as e:
            raise TranslateError(f"{p}: {e!r}")
        for c in ast.walk(tree):
            if not isinstance(c, ast.ClassDef):
                continue
            for f in c.body:
                if isinstance(f, (ast.FunctionDef, ast.AsyncFunctionDef)):
                    for d in f.decorator_list:
                        nm = d.id if isinstance(d, ast.Name) else d.attr if isinstance(d, ast.Attribute) else None
                        if nm == "timeout_wrapper":
                            out.append((c.name, f.name, isinstance(f, ast.AsyncFunctionDef)))
    if not out:
        raise TranslateError("no method carries @timeout_wrapper")
    return sorted(out)


SPAWNERS = ("ensure_future", "create_task", "wait", "gather", "shield", "as_completed", "run_coroutine_threadsafe", "TaskGroup")


def async_spawn_sites(dec):
    """(class, function, callee) for every call of a task-creating / non-cancelling asyncio primitive inside the classes
    that carry an async @timeout_wrapper method (the whole class: helpers run inside the decorated operations).
    `asyncio.wait_for` is the one primitive that cancels and awaits what it started: not listed."""
    classes = {c for c, _, a in dec if a}
    out = []

    def scan(owner, f):
        for n in ast.walk(f):
            if isinstance(n, ast.Call):
                fn = n.func
                nm = fn.attr if isinstance(fn, ast.Attribute) else fn.id if isinstance(fn, ast.Name) else None
                base = fn.value if isinstance(fn, ast.Attribute) else None
                if nm not in SPAWNERS:
                    continue
                # `.wait()` is also a method of events/processes: only asyncio.wait / bare wait; every other name on
                # ANY receiver (self.loop.create_task, asyncio.get_event_loop().create_task, …)
                if nm == "wait" and not (base is None or (isinstance(base, ast.Name) and base.id == "asyncio")):
                    continue
                out.append((owner, f.name, nm))
    for p in sorted((REPO / "scrapli").rglob("*.py")):
        tree = ast.parse(p.read_text())
        if not any(isinstance(c, ast.ClassDef) and c.name in classes for c in ast.walk(tree)):
            continue
        for c in tree.body:      # the classes, and the module-level helpers of the same modules
            if isinstance(c, ast.ClassDef) and c.name in classes:
                for f in c.body:
                    if isinstance(f, (ast.FunctionDef, ast.AsyncFunctionDef)):
                        scan(c.name, f)
            elif isinstance(c, (ast.FunctionDef, ast.AsyncFunctionDef)):
                scan(p.stem, c)
    return sorted(out)


def modifier_shape(tree):
    """AST where it has the familiar shape (cross-checked against the measured behaviour), else measured, else hand-written"""
    m = measure_modifier()
    try:
        a = _modifier_shape_ast(tree)
    except TranslateError as e:
        if m is not None:
            _note(f"translator: timeout_modifier shape unreadable ({e}); MEASURED on the live decorator (stub driver, driver value x keyword, "
                  f"returning and raising): {m}")
            return m
        _note(f"translator: shape unreadable, tie = correspondence only (timeout_modifier: {e})")
        return {"sync": dict(MOD_DEFAULT), "async": dict(MOD_DEFAULT)}
    if m is not None and m != a:
        _note(f"translator: timeout_modifier AST reading {a} differs from the measured behaviour {m}: the measurement is used")
        return m
    return a


def _modifier_shape_ast(tree):
    """timeout_modifier (decorators.py): for the sync and the async `decorate` — the operands of the `or` test that
    decides "keep the driver-level timeout_ops" (each classified: isNone = `<kwarg> is None`, eqDriver = `<kwarg> ==
    <driver>.timeout_ops`, falsy = `not <kwarg>`; anything else is refused), whether the other branch assigns the
    keyword's value to <driver>.timeout_ops before the wrapped call, whether the driver-level value is assigned back
    and whether that sits in a `finally` around the wrapped call"""
    tm = _func(tree, "timeout_modifier")
    decs = [n for n in ast.walk(tm) if isinstance(n, (ast.FunctionDef, ast.AsyncFunctionDef)) and n is not tm]
    if len(decs) != 2 or sum(isinstance(d, ast.AsyncFunctionDef) for d in decs) != 1:
        raise TranslateError(f"{DEC}: timeout_modifier: expected one sync and one async inner function")
    out = {}
    for d in decs:
        stack = "async" if isinstance(d, ast.AsyncFunctionDef) else "sync"
        what = f"{DEC}: timeout_modifier ({stack})"
        # the driver object and the keyword as the decorator sees it
        drv = kwv = None
        for n in ast.walk(d):
            tgt = n.targets[0] if isinstance(n, ast.Assign) and len(n.targets) == 1 else n.target if isinstance(n, ast.AnnAssign) else None
            if isinstance(tgt, ast.Name) and getattr(n, "value", None) is not None:
                src = ast.unparse(n.value)
                if src == "args[0]":
                    drv = tgt.id
                elif src in ("kwargs.get('timeout_ops', None)", "kwargs.get('timeout_ops')"):
                    kwv = tgt.id
        if drv is None or kwv is None:
            raise TranslateError(f"{what}: `<driver> = args[0]` / `<kwarg> = kwargs.get('timeout_ops'[, None])` not found")
        cur = f"{drv}.timeout_ops"
        kw_exprs = (kwv, "kwargs['timeout_ops']")
        is_call = lambda x: isinstance(x, ast.Call) and isinstance(x.func, ast.Name) and x.func.id == "wrapped_func"  # noqa
        has_call = lambda nodes: any(is_call(x) for st in nodes for x in ast.walk(st))  # noqa
        ifs = [n for n in d.body if isinstance(n, ast.If) and n.orelse and has_call(n.body) and has_call(n.orelse)]
        if len(ifs) != 1:
            raise TranslateError(f"{what}: expected one top-level `if <keep>: call else: modify, call`, found {len(ifs)}")
        node = ifs[0]
        if any(not isinstance(st, (ast.Assign, ast.AnnAssign, ast.Expr)) or not has_call([st]) for st in node.body):
            raise TranslateError(f"{what}: the keep branch does more than call the wrapped function")
        ops = node.test.values if isinstance(node.test, ast.BoolOp) and isinstance(node.test.op, ast.Or) else [node.test]
        keep = []
        for o in ops:
            src = ast.unparse(o)
            if src == f"{kwv} is None":
                keep.append("isNone")
            elif src in (f"{kwv} == {cur}", f"{cur} == {kwv}"):
                keep.append("eqDriver")
            elif src == f"not {kwv}":
                keep.append("falsy")
            else:
                raise TranslateError(f"{what}: unrecognised operand of the keep test: `{src}`")
        # the modifying branch: base = <driver>.timeout_ops ; <driver>.timeout_ops = <keyword> ; [try:] call [finally:] restore
        base = None
        sets = False
        restores = in_finally = False
        seen_call = False

        def assigns(st, values):
            return isinstance(st, ast.Assign) and len(st.targets) == 1 and ast.unparse(st.targets[0]) == cur and ast.unparse(st.value) in values
        for st in node.orelse:
            if isinstance(st, ast.Assign) and len(st.targets) == 1 and isinstance(st.targets[0], ast.Name) and ast.unparse(st.value) == cur and not sets:
                base = st.targets[0].id
            elif assigns(st, kw_exprs) and not seen_call:
                sets = True
            elif isinstance(st, ast.Try) and has_call(st.body):
                if st.handlers or st.orelse:
                    raise TranslateError(f"{what}: the try around the wrapped call has except/else clauses")
                seen_call = True
                if base is not None and any(assigns(x, (base,)) for x in st.finalbody):
                    restores = in_finally = True
            elif has_call([st]):
                seen_call = True
            elif base is not None and assigns(st, (base,)) and seen_call:
                restores = True
            elif isinstance(st, ast.Expr) and isinstance(st.value, ast.Call) and "logger" in ast.unparse(st.value.func):
                pass
            else:
                raise TranslateError(f"{what}: unrecognised statement in the modifying branch: `{ast.unparse(st)[:70]}`")
        if not seen_call:
            raise TranslateError(f"{what}: the modifying branch does not call the wrapped function")
        out[stack] = {"keep": keep, "sets": sets, "restores": restores, "restoreInFinally": in_finally}
    return out


def modifier_sites():
    """[(class, method, is_async)] for every method decorated with @timeout_modifier, sorted"""
    out = []
    for p in sorted((REPO / "scrapli").rglob("*.py")):
        tree = ast.parse(p.read_text())
        for c in ast.walk(tree):
            if isinstance(c, ast.ClassDef):
                for f in c.body:
                    if isinstance(f, (ast.FunctionDef, ast.AsyncFunctionDef)):
                        for d in f.decorator_list:
                            nm = d.id if isinstance(d, ast.Name) else d.attr if isinstance(d, ast.Attribute) else None
                            if nm == "timeout_modifier":
                                out.append((c.name, f.name, isinstance(f, ast.AsyncFunctionDef)))
    if not out:
        raise TranslateError("no method carries @timeout_modifier")
    return sorted(out)


def tables():
    del NOTES[:]
    _SEL_CACHE.clear()
    tree = _parse(DEC)
    return {"messageMap": message_map(tree), "defaultMessage": default_message(tree), "threadClassNames": selection(tree), "selectDisjuncts": selection_disjuncts(tree),
            "noTerminateDefault": no_terminate_default(), "restoresTimer": restores_timer(tree), "epilogueGuarded": epilogue_guarded(tree), "decorated": (dec := decorated()), "asyncSpawnSites": async_spawn_sites(dec),
            "modifier": modifier_shape(tree), "modifierSites": modifier_sites(), "notes": list(NOTES)}


def generate():
    t = tables()
    b = HEADER.format(src=f"{DEC} (FUNC_TIMEOUT_MESSAGE_MAP, _get_timeout_message, timeout_wrapper), scrapli/settings.py and every "
                          "@timeout_wrapper use under scrapli/")
    b += "namespace Scrapli.Gen.Timeout\n"
    b += "/-- `cls_name in (...)` in the sync `decorate`: transport class names that select the worker-thread mechanism -/\n"
    b += "def threadClassNames : List String := [" + ", ".join(_lstr(x) for x in t["threadClassNames"]) + "]\n"
    b += "/-- the other operands of that `or` test, as source text (sorted) -/\n"
    b += "def selectDisjuncts : List String := [" + ", ".join(_lstr(x) for x in t["selectDisjuncts"]) + "]\n"
    b += "/-- FUNC_TIMEOUT_MESSAGE_MAP -/\n"
    b += "def messageMap : List (String × String) := [\n" + ",\n".join(f"  ({_lstr(k)}, {_lstr(v)})" for k, v in t["messageMap"]) + "]\n"
    b += f"def defaultMessage : String := {_lstr(t['defaultMessage'])}\n"
    b += f"/-- Settings.NO_TERMINATE_ON_TIMEOUT as shipped -/\ndef noTerminateDefault : Bool := {'true' if t['noTerminateDefault'] else 'false'}\n"
    b += ("/-- signal branch of timeout_wrapper: is an ITIMER_REAL that was armed before the call re-armed (with the time it\n"
          "    has left) in the `finally` — read off the AST; the behaviour itself is tied by the correspondence runs -/\n")
    b += f"def restoresTimer : Bool := {'true' if t['restoresTimer'] else 'false'}\n"
    b += ("/-- signal branch: does the handler restore sit in an outer `finally` that still runs when the alarm raises inside\n"
          "    the inner, disarming one (AST shape; behaviour tied by the trace-injected race runs of the check) -/\n")
    b += f"def epilogueGuarded : Bool := {'true' if t['epilogueGuarded'] else 'false'}\n"
    for nm, flag in (("decoratedSync", False), ("decoratedAsync", True)):
        rows = [(c, m) for c, m, a in t["decorated"] if a == flag]
        b += f"/-- (class, method) pairs carrying @timeout_wrapper, {'async def' if flag else 'def'} -/\n"
        b += f"def {nm} : List (String × String) := [\n" + ",\n".join(f"  ({_lstr(c)}, {_lstr(m)})" for c, m in rows) + "]\n"
    b += ("/-- (class, function, asyncio primitive): places inside the async channel / transports where a task is created or\n"
          "    awaited without being cancelled (ensure_future, create_task, asyncio.wait, gather, shield …) -/\n")
    b += "def asyncSpawnSites : List (String × String × String) := [" + ", ".join(
        f"({_lstr(c)}, {_lstr(f)}, {_lstr(n)})" for c, f, n in t["asyncSpawnSites"]) + "]\n"
    b += ("/-- timeout_modifier (decorators.py): the AST shape of its two `decorate` variants — operands of the test that keeps the\n"
          "    driver-level timeout_ops (isNone: `<kwarg> is None`, eqDriver: `<kwarg> == <driver>.timeout_ops`, falsy: `not <kwarg>`),\n"
          "    does the other branch assign the keyword's value, is the driver-level value assigned back, in a `finally` -/\n")
    for stack, nm in (("sync", "Sync"), ("async", "Async")):
        m = t["modifier"][stack]
        bl = lambda v: "true" if v else "false"  # noqa
        b += f"def modKeep{nm} : List String := [" + ", ".join(_lstr(x) for x in m["keep"]) + "]\n"
        b += f"def modSets{nm} : Bool := {bl(m['sets'])}\ndef modRestores{nm} : Bool := {bl(m['restores'])}\n"
        b += f"def modRestoreInFinally{nm} : Bool := {bl(m['restoreInFinally'])}\n"
    for nm, flag in (("modifiedSync", False), ("modifiedAsync", True)):
        rows = [(c, m) for c, m, a in t["modifierSites"] if a == flag]
        b += f"/-- (class, method) pairs carrying @timeout_modifier, {'async def' if flag else 'def'} -/\n"
        b += f"def {nm} : List (String × String) := [" + ", ".join(f"({_lstr(c)}, {_lstr(m)})" for c, m in rows) + "]\n"
    b += "end Scrapli.Gen.Timeout\n"
    return [("ScrapliModel/Gen/TimeoutConsts.lean", b)]
