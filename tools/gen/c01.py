"""translator piece for C01/C02: channel defaults and the ANSI pattern text the hand-written scanner mirrors"""
import ast
from translate import HEADER, REPO, TranslateError

ANSI_PINNED = (rb"\x1B(\s)?" rb"(" rb"([78ME])" rb"|" rb"((\]\d).*?[\x07])" rb"|" rb"(\[.*?[@-~])" rb"|" rb"(\[.*?[0-9;]m)" rb")")


def _equivalent_on_scope(pat_a, flags_a, pat_b, flags_b):
    """a RESPELLED pattern is accepted as the pinned one when both behave identically -- same match spans, same `sub(b"")` -- on every
    string of length <= 5 over the bytes that matter to these patterns, and on random longer ones (bounded check: same trust level as the
    per-run differential of the cleaning function against the real class; the text comparison stays the fast path)"""
    import itertools, random, re
    try:
        a, b = re.compile(pat_a, flags_a), re.compile(pat_b, flags_b)
    except re.error:
        return False
    alpha = [bytes([c]) for c in (0x1B, 0x20, 0x5D, 0x5B, 0x30, 0x39, 0x3B, 0x6D, 0x40, 0x7E, 0x07, 0x0A, 0x61, 0x37, 0x4D)]

    def same(x):
        ma, mb = a.search(x), b.search(x)
        return (ma.span() if ma else None) == (mb.span() if mb else None) and a.sub(b"", x) == b.sub(b"", x)
    for n in range(0, 6):
        for t in itertools.product(alpha, repeat=n):
            if not same(b"".join(t)):
                return False
    rng = random.Random(1)
    for _ in range(50000):
        if not same(b"".join(rng.choice(alpha) for _ in range(rng.randint(6, 40)))):
            return False
    return True


def _flag_value(text):
    import re
    v = 0
    for part in text.replace(" ", "").split("|"):
        if part:
            v |= int(getattr(re, part.split(".")[-1]))
    return v


def _dataclass_defaults(rel, cls):
    out = {}
    for node in ast.walk(ast.parse((REPO / rel).read_text())):
        if isinstance(node, ast.ClassDef) and node.name == cls:
            for n in node.body:
                if isinstance(n, ast.AnnAssign) and isinstance(n.target, ast.Name) and n.value is not None:
                    try:
                        out[n.target.id] = ast.literal_eval(n.value)
                    except Exception:
                        pass
    return out


def _ansi_source():
    rel = "scrapli/channel/base_channel.py"
    for node in ast.parse((REPO / rel).read_text()).body:
        if isinstance(node, ast.Assign) and getattr(node.targets[0], "id", "") == "ANSI_ESCAPE_PATTERN":
            call = node.value
            kw = {k.arg: k.value for k in call.keywords}
            pat = ast.literal_eval(kw["pattern"])
            flags = ast.unparse(kw.get("flags")) if kw.get("flags") is not None else ""
            return pat, flags
    raise TranslateError("ANSI_ESCAPE_PATTERN not found")


INCOMPLETE_PINNED = rb"\x1B(\s)?((\](\d[^\x07\n]*)?)|(\[[^@-~\n]*))?\Z"


def _incomplete_source():
    """ANSI_ESCAPE_INCOMPLETE_PATTERN text/flags and ANSI_ESCAPE_INCOMPLETE_MAX_LENGTH (the hold-back of a sequence cut by a read)"""
    rel = "scrapli/channel/base_channel.py"
    pat = flags = mx = None
    for node in ast.parse((REPO / rel).read_text()).body:
        if isinstance(node, ast.Assign):
            name = getattr(node.targets[0], "id", "")
            if name == "ANSI_ESCAPE_INCOMPLETE_PATTERN":
                kw = {k.arg: k.value for k in node.value.keywords}
                pat = ast.literal_eval(kw["pattern"] if "pattern" in kw else node.value.args[0])
                flags = ast.unparse(kw["flags"]) if kw.get("flags") is not None else ""
            elif name == "ANSI_ESCAPE_INCOMPLETE_MAX_LENGTH":
                mx = ast.literal_eval(node.value)
    return pat, flags, mx


def _held_lifecycle():
    """measured on live channel objects (sync and asyncio twin) over a do-nothing transport: does `open()` start a session with nothing
    held back from an earlier one, whatever happened before (the timeout handler closes the TRANSPORT only, `Channel.close()` need not
    have run)?  None = the code has no hold-back at all"""
    from vlib.common import use_repo
    use_repo()
    from scrapli.channel import AsyncChannel, Channel
    from scrapli.channel.base_channel import BaseChannelArgs

    from scrapli.transport.base.base_transport import BaseTransportArgs

    class _T:
        _base_transport_args = BaseTransportArgs(transport_options={}, host="probe")

        def write(self, b):
            pass

    res = []
    for cls in (Channel, AsyncChannel):
        ch = cls(transport=_T(), base_channel_args=BaseChannelArgs())
        if not hasattr(ch, "_ansi_held"):
            return None
        ch._ansi_held = b"\x1b["
        try:
            ch.open()
        except Exception as exc:       # noqa: BLE001
            raise TranslateError(f"{cls.__name__}.open() on a probe channel raised {exc!r}")
        res.append(ch._ansi_held == b"")
    return all(res)


def lean_bytes(b):
    return "[" + ", ".join(str(x) for x in b) + "]"


def generate():
    d = _dataclass_defaults("scrapli/channel/base_channel.py", "BaseChannelArgs")
    for k in ("comms_prompt_search_depth", "comms_return_char", "comms_roughly_match_inputs", "comms_prompt_pattern"):
        if k not in d:
            raise TranslateError(f"BaseChannelArgs.{k} default not found")
    pat, flags = _ansi_source()
    ansi_ok = pat == ANSI_PINNED and flags.replace(" ", "") in ("re.VERBOSE", "re.X")
    if not ansi_ok:
        import re as _re
        try:
            ansi_ok = _equivalent_on_scope(pat, _flag_value(flags), ANSI_PINNED, int(_re.X))
        except Exception:       # noqa: BLE001  (unknown flag spelling etc.: not accepted)
            ansi_ok = False
    body = HEADER.format(src="scrapli/channel/base_channel.py (BaseChannelArgs defaults, ANSI_ESCAPE_PATTERN)")
    body += "namespace Scrapli.Gen.Chan\n"
    body += f"def defaultDepth : Nat := {int(d['comms_prompt_search_depth'])}\n"
    body += f"def defaultReturn : List UInt8 := {lean_bytes(d['comms_return_char'].encode())}\n"
    body += f"def defaultRough : Bool := {'true' if d['comms_roughly_match_inputs'] else 'false'}\n"
    body += f"/-- the ANSI_ESCAPE_PATTERN source text and flags equal the ones ScrapliModel/Channel/Ansi.lean mirrors -/\n"
    body += f"def ansiPatternIsPinned : Bool := {'true' if ansi_ok else 'false'}\n"
    body += f"def ansiPatternSource : List UInt8 := {lean_bytes(pat)}\n"
    ipat, iflags, imax = _incomplete_source()
    body += ("/-- the hold-back of a sequence cut by a read boundary (`_strip_ansi_read`): the incomplete-sequence pattern text equals the one\n"
             "    `incompleteAfter` mirrors, no flags; `none` = the source has no such pattern (code before the fix) -/\n")
    inc_ok = ipat == INCOMPLETE_PINNED and not iflags
    if not inc_ok and ipat is not None:
        try:
            inc_ok = _equivalent_on_scope(ipat, _flag_value(iflags or ""), INCOMPLETE_PINNED, 0)
        except Exception:       # noqa: BLE001
            inc_ok = False
    body += f"def incompletePatternIsPinned : Bool := {'true' if inc_ok else 'false'}\n"
    body += f"def heldMaxSource : Option Nat := {'none' if imax is None else 'some ' + str(int(imax))}\n"
    fresh = _held_lifecycle()
    body += ("/-- measured on live Channel and AsyncChannel objects: `open()` leaves nothing held back from an earlier session (whether or\n"
             "    not `close()` ran in between); `none` = no hold-back in this code -/\n")
    body += f"def openDropsHeld : Option Bool := {'none' if fresh is None else 'some ' + ('true' if fresh else 'false')}\n"
    body += "end Scrapli.Gen.Chan\n"
    return [("ScrapliModel/Gen/ChanConsts.lean", body)]
