"""translator piece for C03 (shared with C04): see privgen.py"""
from gen.privgen import generate  # noqa: F401
