"""translator piece for C11: the statement ORDER of Driver/AsyncDriver open, close, __enter__, __exit__
(as programs of the model's statement language, incl. try/finally and try/except protection), the call
sequences of the five platforms' on_open/on_close hooks, and three facts about transports / channel:
which per-session fields the Telnet transports' open() resets, whether BaseChannel.close() leaves a user
supplied BytesIO open, whether ParamikoTransport.close() closes the library session.
Everything is read from the AST of /repo's working tree; anything the statement language cannot express
raises TranslateError (never approximated)."""
import ast
import copy

from translate import HEADER, TranslateError, _parse

PLATFORMS = [("iosxe", "cisco_iosxe"), ("iosxr", "cisco_iosxr"), ("nxos", "cisco_nxos"), ("eos", "arista_eos"),
             ("junos", "juniper_junos")]
TELNET_INIT = {"_eof": ("eof", False), "_raw_buf": ("raw", b""), "_cooked_buf": ("cooked", b""),
               "_control_buf": ("ctrl", b""), "_control_char_sent_counter": ("counter", 0)}


def _dotted(node):
    """a.b.c -> 'a.b.c' (None when not a plain attribute chain)"""
    parts = []
    while isinstance(node, ast.Attribute):
        parts.append(node.attr)
        node = node.value
    if isinstance(node, ast.Name):
        parts.append(node.id)
        return ".".join(reversed(parts))
    return None


def _strip_await(node):
    return node.value if isinstance(node, ast.Await) else node


def _body_wo_doc(fn):
    body = list(fn.body)
    if body and isinstance(body[0], ast.Expr) and isinstance(getattr(body[0], "value", None), ast.Constant) and isinstance(body[0].value.value, str):
        body = body[1:]
    return body


def _find_method(rel, cls, name):
    for node in _parse(rel).body:
        if isinstance(node, ast.ClassDef) and node.name == cls:
            for n in node.body:
                if isinstance(n, (ast.FunctionDef, ast.AsyncFunctionDef)) and n.name == name:
                    return n
    raise TranslateError(f"{rel}: {cls}.{name} not found")


def _find_function(rel, name):
    for node in _parse(rel).body:
        if isinstance(node, (ast.FunctionDef, ast.AsyncFunctionDef)) and node.name == name:
            return node
    raise TranslateError(f"{rel}: function {name} not found")


# ---------- driver methods -> Prog
CALLS = {
    "self.transport.open": ".transportOpen", "self.transport.close": ".transportClose",
    "self.channel.open": ".channelOpen", "self.channel.close": ".channelClose",
    "self.channel.channel_authenticate_ssh": ".authSystem", "self.channel.channel_authenticate_telnet": ".authTelnet",
    "self.on_open": ".onOpen", "self.on_close": ".onClose", "self.open": ".callOpen", "self.close": ".callClose",
    "self.logger.critical": ".logCritical",
}


def _simple_stmt(where, st):
    """one expression statement -> Lean Stmt term"""
    if not isinstance(st, ast.Expr):
        raise TranslateError(f"{where}: line {st.lineno}: statement kind {type(st).__name__} is not in the statement language")
    call = _strip_await(st.value)
    if not isinstance(call, ast.Call):
        raise TranslateError(f"{where}: line {st.lineno}: not a call")
    name = _dotted(call.func)
    if name in ("self._pre_open_closing_log", "self._post_open_closing_log"):
        closing = None
        for kw in call.keywords:
            if kw.arg == "closing" and isinstance(kw.value, ast.Constant) and isinstance(kw.value.value, bool):
                closing = kw.value.value
        if closing is None and call.args and isinstance(call.args[0], ast.Constant):
            closing = bool(call.args[0].value)
        if closing is None:
            closing = False   # the default of the parameter
        return f"(.{'logPre' if 'pre' in name else 'logPost'} {'true' if closing else 'false'})"
    if name in ("self.on_open", "self.on_close") and not (len(call.args) == 1 and _dotted(call.args[0]) == "self"):
        raise TranslateError(f"{where}: line {st.lineno}: hook not called with self")
    if name in CALLS:
        return CALLS[name]
    raise TranslateError(f"{where}: line {st.lineno}: call {name} is not in the statement language")


def _guard(where, test):
    d = _dotted(test)
    if d == "self.on_open":
        return ".hasOnOpen"
    if d == "self.on_close":
        return ".hasOnClose"
    if isinstance(test, ast.BoolOp) and isinstance(test.op, ast.And) and len(test.values) == 2:
        a, b = test.values
        nb = isinstance(b, ast.UnaryOp) and isinstance(b.op, ast.Not) and _dotted(b.operand) == "self.auth_bypass"
        if nb and isinstance(a, ast.Compare) and len(a.ops) == 1 and isinstance(a.ops[0], ast.In):
            left, right = a.left, a.comparators[0]
            if _dotted(left) == "self.transport_name" and isinstance(right, (ast.Tuple, ast.List, ast.Set)) \
                    and [getattr(e, "value", None) for e in right.elts] == ["system"]:
                return ".systemNoBypass"
            if isinstance(left, ast.Constant) and left.value == "telnet" and _dotted(right) == "self.transport_name":
                return ".telnetNoBypass"
    raise TranslateError(f"{where}: line {test.lineno}: condition not in the statement language: {ast.unparse(test)}")


def _is_plain_logging(st):
    """self.logger.debug/info/warning/error(...): no effect on any resource, not a statement of the model
    (logger.critical IS kept: the model and the harness both see it)"""
    if isinstance(st, ast.Expr) and isinstance(_strip_await(st.value), ast.Call):
        return _dotted(_strip_await(st.value).func) in ("self.logger.debug", "self.logger.info", "self.logger.warning", "self.logger.error")
    return False


def _flat(where, stmts):
    """statements (plain calls and one-armed ifs around plain calls) -> list of Lean GS terms"""
    out = []
    for st in stmts:
        if _is_plain_logging(st):
            continue
        if isinstance(st, ast.If):
            if st.orelse:
                raise TranslateError(f"{where}: line {st.lineno}: if/else is not in the statement language")
            g = _guard(where, st.test)
            for inner in st.body:
                out.append(f"⟨{g}, {_simple_stmt(where, inner)}⟩")
        else:
            out.append(f"⟨.always, {_simple_stmt(where, st)}⟩")
    return out


def _is_reraise_connerror(handler_body):
    """last statement is `raise ScrapliConnectionError(exc) from exc`"""
    if not handler_body or not isinstance(handler_body[-1], ast.Raise):
        return False
    r = handler_body[-1]
    return isinstance(r.exc, ast.Call) and _dotted(r.exc.func) == "ScrapliConnectionError"


def _only_try_finally(stmts):
    """the single `try: … finally: …` (no handlers, no else) a statement list consists of, else None"""
    if len(stmts) == 1 and isinstance(stmts[0], ast.Try) and stmts[0].finalbody and not stmts[0].handlers and not stmts[0].orelse:
        return stmts[0]
    return None


# ---------- normalisation: behaviour-preserving rewrites into the shapes the statement language has
class _Rename(ast.NodeTransformer):
    """replace loads of the given local names by an expression; drop the given Assign nodes"""

    def __init__(self, mapping, drop=()):
        self.m, self.drop = mapping, set(map(id, drop))

    def visit_Name(self, node):
        if node.id in self.m and isinstance(node.ctx, ast.Load):
            return ast.copy_location(copy.deepcopy(self.m[node.id]), node)
        return node

    def visit_Assign(self, node):
        if id(node) in self.drop:
            return None
        return self.generic_visit(node)


def _module_helpers(rel):
    """module-level functions of one positional parameter (candidates for inlining `helper(self)`)"""
    out = {}
    for node in _parse(rel).body:
        if isinstance(node, (ast.FunctionDef, ast.AsyncFunctionDef)) and len(node.args.args) == 1 and not node.args.kwonlyargs \
                and not node.args.vararg and not node.args.kwarg and not node.args.posonlyargs and not node.decorator_list:
            out[node.name] = node
    return out


def _mk_try(body, finalbody, like):
    t = ast.Try(body=body, handlers=[], orelse=[], finalbody=finalbody)
    return ast.copy_location(t, like)


def _norm_stmts(stmts, helpers, depth=0):
    out = []
    for st in stmts:
        call = _strip_await(st.value) if isinstance(st, ast.Expr) else None
        if isinstance(call, ast.Call) and isinstance(call.func, ast.Name) and call.func.id in helpers and len(call.args) == 1 \
                and not call.keywords and _dotted(call.args[0]) == "self" and depth < 3:
            # `helper(self)` with helper a module-level function: its body with the parameter renamed to self -- provided the body
            # has no return/yield (then falling off its end is all it does) and is awaited iff it is a coroutine function
            h = helpers[call.func.id]
            body = copy.deepcopy(_body_wo_doc(h))
            plain = not any(isinstance(n, (ast.Return, ast.Yield, ast.YieldFrom, ast.Global, ast.Nonlocal)) for b in body for n in ast.walk(b))
            if plain and isinstance(h, ast.AsyncFunctionDef) == isinstance(st.value, ast.Await):
                ren = _Rename({h.args.args[0].arg: ast.Name(id="self", ctx=ast.Load())})
                body = [ast.fix_missing_locations(ren.visit(b)) for b in body]
                out.extend(_norm_stmts(body, helpers, depth + 1))
                continue
        if isinstance(st, ast.Try):
            st = copy.copy(st)
            st.body = _norm_stmts(st.body, helpers, depth)
            st.finalbody = _norm_stmts(st.finalbody, helpers, depth)
            st.orelse = _norm_stmts(st.orelse, helpers, depth)
            hs = []
            for h in st.handlers:
                h = copy.copy(h)
                h.body = _norm_stmts(h.body, helpers, depth)
                hs.append(h)
            st.handlers = hs
            # try: (try: A finally: B) finally: C   ==   try: A finally: (try: B finally: C)
            if st.finalbody and not st.handlers and not st.orelse and len(st.body) == 1 and isinstance(st.body[0], ast.Try):
                inner = st.body[0]
                if inner.finalbody and not inner.handlers and not inner.orelse:
                    st = _mk_try(inner.body, [_mk_try(inner.finalbody, st.finalbody, st)], st)
        elif isinstance(st, ast.If):
            st = copy.copy(st)
            st.body = _norm_stmts(st.body, helpers, depth)
            st.orelse = _norm_stmts(st.orelse, helpers, depth)
        out.append(st)
    return out


def _resolve_hook_aliases(stmts):
    """`h = self.on_close` … `if h: h(self)`: a local name bound exactly once to self.on_open / self.on_close stands for the attribute"""
    assigns, stores = {}, {}
    for top in stmts:
        for n in ast.walk(top):
            if isinstance(n, ast.Name) and isinstance(n.ctx, ast.Store):
                stores[n.id] = stores.get(n.id, 0) + 1
            if isinstance(n, ast.Assign) and len(n.targets) == 1 and isinstance(n.targets[0], ast.Name) \
                    and _dotted(n.value) in ("self.on_open", "self.on_close"):
                assigns.setdefault(n.targets[0].id, []).append(n)
    mapping = {k: v[0].value for k, v in assigns.items() if len(v) == 1 and stores.get(k) == 1}
    if not mapping:
        return stmts
    ren = _Rename(mapping, drop=[assigns[k][0] for k in mapping])
    out = []
    for top in stmts:
        r = ren.visit(top) if not any(top is assigns[k][0] for k in mapping) else None
        if r is not None:
            out.append(ast.fix_missing_locations(r))
    return out


def _is_return_self(st):
    return isinstance(st, ast.Return) and _dotted(st.value) == "self"


def _normalised_body(rel, cls, name):
    """the method's statements after the behaviour-preserving rewrites: helper inlining, hook aliases, re-association of nested
    try/finally, and `return self` taken out of the last try statement (`try: …; return self  except …: …; raise` and
    `try: … except …: …; raise  else: return self` both are `try: … except …: …; raise` followed by `return self`)"""
    body = _body_wo_doc(_find_method(rel, cls, name))
    body = _resolve_hook_aliases([copy.deepcopy(b) for b in body])
    body = _norm_stmts(body, _module_helpers(rel))
    if body and isinstance(body[-1], ast.Try) and body[-1].handlers and not body[-1].finalbody:
        t = body[-1]
        all_raise = all(h.body and isinstance(h.body[-1], ast.Raise) for h in t.handlers)
        if all_raise and len(t.orelse) == 1 and _is_return_self(t.orelse[0]):
            t = copy.copy(t); ret = t.orelse[0]; t.orelse = []
            body = body[:-1] + [t, ret]
        elif all_raise and not t.orelse and len(t.body) > 1 and _is_return_self(t.body[-1]):
            t = copy.copy(t); ret = t.body[-1]; t.body = t.body[:-1]
            body = body[:-1] + [t, ret]
    return body


EXC_SEL = {"ScrapliTimeout": ".timeout", "ScrapliConnectionError": ".connError", "ScrapliAuthenticationFailed": ".authFailed",
           "ScrapliException": ".scrapli", "Exception": ".exception", "BaseException": ".baseException"}


def _exc_class_test(fn, test):
    """`[<exc type param> is not None and] issubclass(<exc type param>, <Class>)` -> Lean ExcSel term, else None.
    <exc type param> = the first parameter after self of __exit__ / __aexit__"""
    params = [a.arg for a in fn.args.args]
    if len(params) < 2:
        return None
    et = params[1]
    parts = test.values if isinstance(test, ast.BoolOp) and isinstance(test.op, ast.And) else [test]
    sel = None
    for part in parts:
        if isinstance(part, ast.Compare) and len(part.ops) == 1 and isinstance(part.ops[0], ast.IsNot) and _dotted(part.left) == et \
                and isinstance(part.comparators[0], ast.Constant) and part.comparators[0].value is None:
            continue
        if isinstance(part, ast.Call) and _dotted(part.func) == "issubclass" and len(part.args) == 2 and _dotted(part.args[0]) == et \
                and _dotted(part.args[1]) in EXC_SEL and sel is None:
            sel = EXC_SEL[_dotted(part.args[1])]
            continue
        return None
    return sel


def exit_branches(rel, cls, name):
    """the leading early-return branches of __exit__ / __aexit__ that test the class of the exception the with-body ended
    with: `if … issubclass(exception_type, C): <statements>; return`  ->  ([(ExcSel, Prog)], number of statements consumed).
    (The model's `exitProg` picks the program by the pending exception; anything else in front of the main program stays
    outside the language and raises TranslateError in prog_of.)"""
    where = f"{rel}:{cls}.{name}"
    fn = _find_method(rel, cls, name)
    out, used = [], 0
    for st in _body_wo_doc(fn):
        if not (isinstance(st, ast.If) and not st.orelse and st.body and isinstance(st.body[-1], ast.Return) and st.body[-1].value is None):
            break
        sel = _exc_class_test(fn, st.test)
        if sel is None:
            break
        out.append(f"({sel}, [{', '.join('.simple ' + gs for gs in _flat(where, st.body[:-1]))}])")
        used += 1
    return out, used


def prog_of(rel, cls, name, skip=0):
    where = f"{rel}:{cls}.{name}"
    body = _normalised_body(rel, cls, name)[skip:]
    nodes = []
    for i, st in enumerate(body):
        if isinstance(st, ast.Return):
            if i != len(body) - 1 or _dotted(st.value) != "self":
                raise TranslateError(f"{where}: line {st.lineno}: unexpected return")
            continue
        if isinstance(st, ast.Try):
            if st.orelse:
                raise TranslateError(f"{where}: line {st.lineno}: try/else is not in the statement language")
            if st.finalbody and not st.handlers:
                inner = _only_try_finally(st.finalbody)
                if inner is not None:
                    # try: body  finally: (try: fin1  finally: fin2)
                    nodes.append(f".tryFinallyN [{', '.join(_flat(where, st.body))}] [{', '.join(_flat(where, inner.body))}] "
                                 f"[{', '.join(_flat(where, inner.finalbody))}]")
                else:
                    nodes.append(f".tryFinally [{', '.join(_flat(where, st.body))}] [{', '.join(_flat(where, st.finalbody))}]")
                continue
            if len(st.handlers) == 1 and not st.finalbody:
                h = st.handlers[0]
                if _dotted(h.type) == "Exception" and _is_reraise_connerror(h.body):
                    hb = h.body[:-1]
                    if hb and _only_try_finally(hb[-1:]) is not None:
                        inner = hb[-1]
                        nodes.append(f".tryExceptRaiseN [{', '.join(_flat(where, st.body))}] [{', '.join(_flat(where, hb[:-1]))}] "
                                     f"[{', '.join(_flat(where, inner.body))}] [{', '.join(_flat(where, inner.finalbody))}]")
                    else:
                        nodes.append(f".tryExceptRaise [{', '.join(_flat(where, st.body))}] [{', '.join(_flat(where, hb))}]")
                    continue
            raise TranslateError(f"{where}: line {st.lineno}: this try statement is not in the statement language")
        for gs in _flat(where, [st]):
            nodes.append(f".simple {gs}")
    return "[" + ",\n    ".join(nodes) + "]"


# ---------- platform hooks -> List Act
ACTS = {"conn.acquire_priv": ".acquirePriv", "conn.send_command": ".sendCommand", "conn.channel.send_input": ".sendInput",
        "conn.channel.write": ".channelWrite", "conn.channel.send_return": ".sendReturn", "conn.get_prompt": ".getPrompt"}


def hook_acts(rel, fname):
    fn = _find_function(rel, fname)
    if not (fn.args.args and fn.args.args[0].arg == "conn"):
        raise TranslateError(f"{rel}:{fname}: first parameter is not `conn`")
    out = []
    for st in _body_wo_doc(fn):
        if not isinstance(st, ast.Expr):
            raise TranslateError(f"{rel}:{fname}: line {st.lineno}: not a call statement")
        call = _strip_await(st.value)
        name = _dotted(call.func) if isinstance(call, ast.Call) else None
        if name not in ACTS:
            raise TranslateError(f"{rel}:{fname}: line {st.lineno}: call {name} is not a known device-facing act")
        out.append(ACTS[name])
    return "[" + ", ".join(out) + "]"


def default_hook_names(rel, short):
    """check that the driver class installs <short>_on_open / <short>_on_close when none is given"""
    src = (_parse(rel))
    found = set()
    for node in ast.walk(src):
        if isinstance(node, ast.If) and isinstance(node.test, ast.Compare) and isinstance(node.test.ops[0], ast.Is) \
                and isinstance(node.test.left, ast.Name) and node.test.left.id in ("on_open", "on_close") \
                and isinstance(node.test.comparators[0], ast.Constant) and node.test.comparators[0].value is None:
            for b in node.body:
                if isinstance(b, ast.Assign) and isinstance(b.value, ast.Name):
                    found.add((node.test.left.id, b.value.id))
    want = {("on_open", f"{short}_on_open"), ("on_close", f"{short}_on_close")}
    if not want <= found:
        raise TranslateError(f"{rel}: default hooks {sorted(want - found)} are not installed by the constructor")


def generic_defaults(rel, cls):
    fn = _find_method(rel, cls, "__init__")
    names = [a.arg for a in fn.args.args + fn.args.kwonlyargs]
    defaults = dict(zip([a.arg for a in fn.args.args][len(fn.args.args) - len(fn.args.defaults):], fn.args.defaults))
    defaults.update({a.arg: d for a, d in zip(fn.args.kwonlyargs, fn.args.kw_defaults) if d is not None})
    oo, oc = defaults.get("on_open"), defaults.get("on_close")
    if not (isinstance(oo, ast.Name) and oo.id == "generic_on_open"):
        raise TranslateError(f"{rel}: {cls}(on_open=...) does not default to generic_on_open")
    if not (isinstance(oc, ast.Constant) and oc.value is None):
        raise TranslateError(f"{rel}: {cls}(on_close=...) does not default to None")


# ---------- facts
def _assigned_consts(fn, cls_node, depth=1):
    """{attr: literal} for `self.attr = <literal>` statements executed unconditionally at the top level of fn
    (following `self.helper()` calls one level)"""
    out = {}
    for st in _body_wo_doc(fn):
        if isinstance(st, ast.Assign) and len(st.targets) == 1 and isinstance(st.targets[0], ast.Attribute) \
                and _dotted(st.targets[0].value) == "self":
            try:
                out[st.targets[0].attr] = ast.literal_eval(st.value)
            except Exception:
                pass
        elif depth and isinstance(st, ast.Expr) and isinstance(_strip_await(st.value), ast.Call):
            name = _dotted(_strip_await(st.value).func) or ""
            if name.startswith("self.") and name.count(".") == 1:
                for n in cls_node.body:
                    if isinstance(n, (ast.FunctionDef, ast.AsyncFunctionDef)) and n.name == name[5:]:
                        out.update(_assigned_consts(n, cls_node, depth - 1))
    return out


def telnet_resets(rel, cls):
    cls_node = next((n for n in _parse(rel).body if isinstance(n, ast.ClassDef) and n.name == cls), None)
    if cls_node is None:
        raise TranslateError(f"{rel}: class {cls} not found")
    init = _assigned_consts(_find_method(rel, cls, "__init__"), cls_node, 0)
    for attr, (_, v) in TELNET_INIT.items():
        if attr not in init or init[attr] != v or type(init[attr]) is not type(v):
            raise TranslateError(f"{rel}: {cls}.__init__ does not set {attr} = {v!r}")
    got = _assigned_consts(_find_method(rel, cls, "open"), cls_node)
    res = [TELNET_INIT[a][0] for a in TELNET_INIT if a in got and got[a] == TELNET_INIT[a][1] and type(got[a]) is type(TELNET_INIT[a][1])]
    return "[" + ", ".join("." + r for r in res) + "]"


def _calls_with_guards(fn, target):
    """[(list of enclosing if-tests as source text)] for every call of dotted name `target` in fn"""
    found = []

    def walk(stmts, guards):
        for st in stmts:
            if isinstance(st, ast.If):
                walk(st.body, guards + [ast.unparse(st.test)])
                walk(st.orelse, guards + ["not (" + ast.unparse(st.test) + ")"])
            elif isinstance(st, (ast.With, ast.Try)):
                walk(st.body, guards)
                for h in getattr(st, "handlers", []):
                    walk(h.body, guards)
                walk(getattr(st, "finalbody", []), guards)
            else:
                for n in ast.walk(st):
                    if isinstance(n, ast.Call) and _dotted(n.func) == target:
                        found.append(guards)
    walk(_body_wo_doc(fn), [])
    return found


def channel_close_keeps_user_sink():
    rel = "scrapli/channel/base_channel.py"
    calls = _calls_with_guards(_find_method(rel, "BaseChannel", "close"), "self.channel_log.close")
    if not calls:
        raise TranslateError(f"{rel}: BaseChannel.close never closes self.channel_log")
    keeps = ["_base_channel_args.channel_log" in " ".join(g) and "is not" in " ".join(g) for g in calls]
    if all(keeps):
        return True
    if not any(keeps):
        return False
    raise TranslateError(f"{rel}: BaseChannel.close closes the log on some paths regardless of who owns it")


def paramiko_close_closes_session():
    rel = "scrapli/transport/plugins/paramiko/transport.py"
    fn = _find_method(rel, "ParamikoTransport", "close")
    if not _calls_with_guards(fn, "self.session_channel.close"):
        raise TranslateError(f"{rel}: ParamikoTransport.close does not close the session channel")
    calls = _calls_with_guards(fn, "self.session.close")
    return any(all("session_channel" not in g for g in guards) for guards in calls)


LIFECYCLE_METHODS = {"open", "close", "__enter__", "__exit__", "__aenter__", "__aexit__"}


def assert_no_overrides():
    """the eight programs are read from Driver / AsyncDriver only: no other class under scrapli/driver may define one of them"""
    from vlib.common import REPO
    for path in sorted((REPO / "scrapli" / "driver").rglob("*.py")):
        rel = str(path.relative_to(REPO))
        for node in ast.walk(ast.parse(path.read_text())):
            if isinstance(node, ast.ClassDef):
                if rel in ("scrapli/driver/base/sync_driver.py", "scrapli/driver/base/async_driver.py") and node.name in ("Driver", "AsyncDriver"):
                    continue
                for n in node.body:
                    if isinstance(n, (ast.FunctionDef, ast.AsyncFunctionDef)) and n.name in LIFECYCLE_METHODS:
                        raise TranslateError(f"{rel}: class {node.name} overrides {n.name}; the model only knows the base classes' methods")


def assert_handle_timeout_shape():
    """decorators._handle_timeout: unless Settings.NO_TERMINATE_ON_TIMEOUT, transport.close(); then raise ScrapliTimeout —
    the one structural fact the model's `stall` step relies on"""
    rel = "scrapli/decorators.py"
    fn = _find_function(rel, "_handle_timeout")
    body = _body_wo_doc(fn)
    if not (len(body) == 2 and isinstance(body[0], ast.If) and isinstance(body[1], ast.Raise)):
        raise TranslateError(f"{rel}: _handle_timeout is not `if …: … else: …close()` followed by `raise`")
    if "NO_TERMINATE_ON_TIMEOUT" not in ast.unparse(body[0].test):
        raise TranslateError(f"{rel}: _handle_timeout does not branch on Settings.NO_TERMINATE_ON_TIMEOUT")
    closes = [n for st in body[0].orelse for n in ast.walk(st) if isinstance(n, ast.Call) and _dotted(n.func) == "transport.close"]
    closes_if = [n for st in body[0].body for n in ast.walk(st) if isinstance(n, ast.Call) and _dotted(n.func) == "transport.close"]
    if len(closes) != 1 or closes_if:
        raise TranslateError(f"{rel}: _handle_timeout must call transport.close() exactly in the branch where termination is on")
    r = body[1].exc
    if not (isinstance(r, ast.Call) and _dotted(r.func) == "ScrapliTimeout"):
        raise TranslateError(f"{rel}: _handle_timeout does not end in `raise ScrapliTimeout(…)`")


# transport -> (handles whose truth makes close() close something, handles set to None unconditionally)
CLOSE_TABLE = {
    "system": ("SystemTransport", {"session"}, {"session"}),
    "telnet": ("TelnetTransport", {"socket"}, {"socket"}),
    "asynctelnet": ("AsynctelnetTransport", {"stdin"}, {"stdin", "stdout"}),
    "paramiko": ("ParamikoTransport", None, {"session", "session_channel"}),          # tested handles: see paramiko_close_closes_session
    "asyncssh": ("AsyncsshTransport", {"session"}, {"session", "stdin", "stdout"}),
}


def transport_close_handles(kind):
    """read off `close()`: which `self.<h>` guard a `.close()` call of that very handle at the top level, and which
    `self.<x> = None` are executed unconditionally; compared with the table the model's transportClose/ownerHeld were written from"""
    cls, want_tested, want_cleared = CLOSE_TABLE[kind]
    rel = f"scrapli/transport/plugins/{kind}/transport.py"
    fn = _find_method(rel, cls, "close")
    tested, cleared = set(), set()
    for st in _body_wo_doc(fn):
        if isinstance(st, ast.If) and not st.orelse:
            h = _dotted(st.test)
            if h and h.startswith("self.") and any(isinstance(n, ast.Call) and _dotted(n.func) == h + ".close" for x in st.body for n in ast.walk(x)):
                tested.add(h[5:])
        elif isinstance(st, ast.Assign) and len(st.targets) == 1 and isinstance(st.value, ast.Constant) and st.value.value is None:
            t = _dotted(st.targets[0])
            if t and t.startswith("self."):
                cleared.add(t[5:])
    if want_tested is not None and tested != want_tested:
        raise TranslateError(f"{rel}: {cls}.close() closes under handles {sorted(tested)}, the model was written for {sorted(want_tested)}")
    if cleared != want_cleared:
        raise TranslateError(f"{rel}: {cls}.close() unconditionally clears {sorted(cleared)}, the model was written for {sorted(want_cleared)}")
    return tested, cleared


# the model's own programs (Lifecycle.lean: openSync/openAsync, closeFixed2, enterP2, exitP), emitted when the source's
# open/close/__enter__/__exit__ cannot be read into the statement language; `source_is_model` then compares model with model and the
# tie is the exhaustive behavioural equivalence tools/props/c11.py runs instead (FALLBACK tells it to)
_OPEN = ("[.simple ⟨.always, (.logPre false)⟩,\n    .simple ⟨.always, .transportOpen⟩,\n    .simple ⟨.always, .channelOpen⟩,\n{auth}"
         "    .simple ⟨.telnetNoBypass, .authTelnet⟩,\n    .simple ⟨.hasOnOpen, .onOpen⟩,\n    .simple ⟨.always, (.logPost false)⟩]")
_CLOSE = ("[.simple ⟨.always, ({head} true)⟩,\n    .tryFinallyN [⟨.hasOnClose, .onClose⟩] [⟨.always, .transportClose⟩] [⟨.always, .channelClose⟩],\n"
          "    .simple ⟨.always, (.logPost true)⟩]")
_ENTER = "[.tryExceptRaiseN [⟨.always, .callOpen⟩] [⟨.always, .logCritical⟩] [⟨.always, .transportClose⟩] [⟨.always, .channelClose⟩]]"
_EXIT = "[.simple ⟨.always, .callClose⟩]"
MODEL_PROGRAMS = {
    "sync": {"Open": _OPEN.format(auth="    .simple ⟨.systemNoBypass, .authSystem⟩,\n"), "Close": _CLOSE.format(head=".logPre"), "Enter": _ENTER, "Exit": _EXIT},
    "async": {"Open": _OPEN.format(auth=""), "Close": _CLOSE.format(head=".logPost"), "Enter": _ENTER, "Exit": _EXIT},
}
FALLBACK = None      # set by generate(): the TranslateError text when the programs below are the model's, not the source's


def generate():
    global FALLBACK
    FALLBACK = None
    assert_no_overrides()
    assert_handle_timeout_shape()
    handles = {k: transport_close_handles(k) for k in CLOSE_TABLE}
    sync, asyn = "scrapli/driver/base/sync_driver.py", "scrapli/driver/base/async_driver.py"
    body = HEADER.format(src=f"{sync}, {asyn}, the five core platforms' hooks, base_channel.py, telnet/asynctelnet/paramiko transports")
    body += "import ScrapliModel.LifecycleSyntax\nnamespace Scrapli.Gen.Lifecycle\nopen Scrapli.Lifecycle\n\n"
    for lean, rel, cls, names in (("sync", sync, "Driver", ("open", "close", "__enter__", "__exit__")),
                                  ("async", asyn, "AsyncDriver", ("open", "close", "__aenter__", "__aexit__"))):
        try:
            branches, used = exit_branches(rel, cls, names[3])
            progs = {field: prog_of(rel, cls, name, skip=used if field == "Exit" else 0) for field, name in zip(("Open", "Close", "Enter", "Exit"), names)}
        except TranslateError as e:
            # unreadable shape: not an alarm by itself -- the other tie (behavioural equivalence with the model programs) takes over
            FALLBACK = (FALLBACK + "; " if FALLBACK else "") + str(e)
            branches, progs = [], MODEL_PROGRAMS[lean]
            body += f"-- {rel}: UNREADABLE SHAPE ({e}); the four programs below are the MODEL's, tie = behavioural equivalence\n"
        for field, name in zip(("Open", "Close", "Enter", "Exit"), names):
            body += f"/-- {rel}: {cls}.{name} -/\ndef {lean}{field} : Prog :=\n  {progs[field]}\n\n"
        body += (f"/-- {rel}: {cls}.{names[3]}: early-return branches on the class of the exception the with-body ended with -/\n"
                 f"def {lean}ExitOn : List (ExcSel × Prog) :=\n  [{', '.join(branches)}]\n\n")
        body += f"def {lean}Code : Code := ⟨{lean}Open, {lean}Close, {lean}Enter, {lean}Exit, {lean}ExitOn⟩\n\n"
    body += "def codeOf : Stack → Code\n  | .sync => syncCode\n  | .async => asyncCode\n\n"
    opens, closes = [], []
    for short, pkg in PLATFORMS:
        for stack in ("sync", "async"):
            rel = f"scrapli/driver/core/{pkg}/{stack}_driver.py"
            default_hook_names(rel, short)
            opens.append(f"  | .{short}, .{stack} => {hook_acts(rel, short + '_on_open')}")
            closes.append(f"  | .{short}, .{stack} => {hook_acts(rel, short + '_on_close')}")
    # GenericDriver: generic_on_open is the default of the on_open parameter, on_close defaults to None
    for stack in ("sync", "async"):
        rel = f"scrapli/driver/generic/{stack}_driver.py"
        generic_defaults(rel, "GenericDriver" if stack == "sync" else "AsyncGenericDriver")
        opens.append(f"  | .generic, .{stack} => {hook_acts(rel, 'generic_on_open')}")
        closes.append(f"  | .generic, .{stack} => []")
    body += "/-- call sequence of `<platform>_on_open` -/\ndef onOpenActs : Platform → Stack → List Act\n" + "\n".join(opens) + "\n\n"
    body += "/-- call sequence of `<platform>_on_close` -/\ndef onCloseActs : Platform → Stack → List Act\n" + "\n".join(closes) + "\n\n"
    body += "def facts : Facts :=\n"
    body += f"  {{ telnetOpenResets := {telnet_resets('scrapli/transport/plugins/telnet/transport.py', 'TelnetTransport')}\n"
    body += f"    asynctelnetOpenResets := {telnet_resets('scrapli/transport/plugins/asynctelnet/transport.py', 'AsynctelnetTransport')}\n"
    body += f"    channelCloseKeepsUserSink := {'true' if channel_close_keeps_user_sink() else 'false'}\n"
    body += f"    paramikoCloseClosesSession := {'true' if paramiko_close_closes_session() else 'false'} }}\n\n"
    body += "/- transport close(): handles whose truth leads to a close / handles set to None unconditionally (asserted against the\n"
    body += "   table in tools/gen/c11.py the model's transportClose was written from; TranslateError on any difference)\n"
    for k, (t, c) in handles.items():
        body += f"   {k}: tested {sorted(t)} cleared {sorted(c)}\n"
    body += "-/\n\nend Scrapli.Gen.Lifecycle\n"
    return [("ScrapliModel/Gen/LifecycleSrc.lean", body)]
