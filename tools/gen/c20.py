"""translator piece for C20: everything that is *data* in scrapli/logging.py and in the channel's log call sites.

From scrapli/logging.py (AST): the two `log_format` strings of ScrapliFormatter.__init__ (parsed with
string.Formatter into literal/field/fill/width pieces), the header record constants, the truncation
constants of formatMessage (target 25/22, module & funcName 20/17, the "..." suffix; measured on the live
ScrapliFormatter when formatMessage does not spell the conditional expression out), the "read: " prefix the
handler tests for and the literal head of the coalesced message (f"read : {…!r}"), enable_basic_logging's
mode table and default file name.
From scrapli/channel/{sync,async}_channel.py read() and base_channel.py write()/open() (AST): the log call
templates "read: %r" / "write: %r" / "write: REDACTED", the byte removed from every read (b"\\r") and the
default channel log file name and mode table."""
import ast
import re
import string

from translate import HEADER, TranslateError, _parse

LOGGING = "scrapli/logging.py"
BASE = "scrapli/channel/base_channel.py"
SYNC = "scrapli/channel/sync_channel.py"
ASYNC = "scrapli/channel/async_channel.py"

FIELDS = {"message_id": "messageId", "asctime": "asctime", "levelname": "levelname", "target": "target",
          "module": "module", "funcName": "funcName", "lineno": "lineno", "message": "message"}


# ---------- Lean rendering
def lchar(c):
    if c == "'":
        return "'\\''"
    if c == "\\":
        return "'\\\\'"
    if 32 <= ord(c) < 127:
        return f"'{c}'"
    return f"(Char.ofNat {ord(c)})"


def lstr(s):
    if not isinstance(s, str):
        raise TranslateError(f"expected a str constant, got {s!r}")
    return "([" + ", ".join(lchar(c) for c in s) + "] : Str)"


# ---------- AST helpers
def _cls(tree, name, rel):
    for n in tree.body:
        if isinstance(n, ast.ClassDef) and n.name == name:
            return n
    raise TranslateError(f"{rel}: class {name} not found")


def _func(node, name, rel):
    for n in node.body:
        if isinstance(n, (ast.FunctionDef, ast.AsyncFunctionDef)) and n.name == name:
            return n
    raise TranslateError(f"{rel}: function {name} not found")


def _const_eval(node, rel):
    try:
        return eval(compile(ast.Expression(node), rel, "eval"), {"__builtins__": {}})
    except Exception as e:
        raise TranslateError(f"{rel}:{getattr(node, 'lineno', '?')}: not a constant expression ({e!r})")


def _is_attr(node, base, attr=None):
    """node is `<base>.<attr>` where base is a Name"""
    return (isinstance(node, ast.Attribute) and isinstance(node.value, ast.Name) and node.value.id == base
            and (attr is None or node.attr == attr))


def _self_attr_assigns(fn, chain):
    """{last attr: value node} of assignments `self.<chain...>.<attr> = value` in fn (chain may be empty)"""
    out = {}
    for n in ast.walk(fn):
        if isinstance(n, (ast.Assign, ast.AnnAssign)):
            tgts = n.targets if isinstance(n, ast.Assign) else [n.target]
            if len(tgts) != 1 or n.value is None:
                continue
            t = tgts[0]
            names = []
            while isinstance(t, ast.Attribute):
                names.append(t.attr)
                t = t.value
            if isinstance(t, ast.Name) and t.id == "self" and names[1:][::-1] == list(chain):
                out.setdefault(names[0], []).append(n.value)
    return out


def parse_format(fmt, rel):
    pieces = []
    for lit, name, spec, conv in string.Formatter().parse(fmt):
        if name is None:
            pieces.append((lit, None))
            continue
        if name not in FIELDS or conv is not None:
            raise TranslateError(f"{rel}: log format field {name!r} (conversion {conv!r}) is not modelled")
        m = re.fullmatch(r"(?:(.?)<)?(\d+)?", spec or "")
        if m is None or (spec and "<" not in spec):
            raise TranslateError(f"{rel}: format spec {spec!r} of field {name!r} is not `[fill]<width`")
        fill = m.group(1) or " "
        width = int(m.group(2) or 0)
        pieces.append((lit, (FIELDS[name], fill, width)))
    return pieces


def lpieces(pieces):
    out = []
    for lit, f in pieces:
        fs = "none" if f is None else f"(some (Field.{f[0]}, {lchar(f[1])}, {f[2]}))"
        out.append(f"  ⟨{lstr(lit)}, {fs}⟩")
    return "[\n" + ",\n".join(out) + "]"


def _truncations(fn, rel):
    """{attr: (slice_if_short, limit, keep, suffix)} from
       `record.X[:A] if len(record.X) <= B else f"{record.X[:C]}..."`"""
    out = {}
    for n in ast.walk(fn):
        if not isinstance(n, ast.IfExp):
            continue
        t, body, orelse = n.test, n.body, n.orelse
        if not any(isinstance(x, ast.Call) and isinstance(x.func, ast.Name) and x.func.id == "len" for x in ast.walk(t)):
            continue    # not a length test (e.g. the hasattr(record, "uid") conditional)
        try:
            assert isinstance(t, ast.Compare) and len(t.ops) == 1 and isinstance(t.ops[0], ast.LtE)
            call = t.left
            assert isinstance(call, ast.Call) and isinstance(call.func, ast.Name) and call.func.id == "len"
            subj = call.args[0]
            assert _is_attr(subj, "record")
            attr = subj.attr
            limit = _const_eval(t.comparators[0], rel)
            assert isinstance(body, ast.Subscript) and _is_attr(body.value, "record", attr)
            assert isinstance(body.slice, ast.Slice) and body.slice.lower is None and body.slice.step is None
            a = _const_eval(body.slice.upper, rel)
            assert isinstance(orelse, ast.JoinedStr) and len(orelse.values) == 2
            fv, suf = orelse.values
            assert isinstance(fv, ast.FormattedValue) and fv.conversion == -1 and fv.format_spec is None
            sub = fv.value
            assert isinstance(sub, ast.Subscript) and _is_attr(sub.value, "record", attr)
            assert isinstance(sub.slice, ast.Slice) and sub.slice.lower is None and sub.slice.step is None
            keep = _const_eval(sub.slice.upper, rel)
            assert isinstance(suf, ast.Constant) and isinstance(suf.value, str)
        except (AssertionError, IndexError, AttributeError):
            raise TranslateError(f"{rel}:{n.lineno}: truncation expression has an unexpected shape")
        if not all(isinstance(x, int) and x >= 0 for x in (limit, a, keep)):
            raise TranslateError(f"{rel}:{n.lineno}: truncation constants are not naturals")
        out[attr] = (a, limit, keep, suf.value)
    return out


def _truncations_probe():
    """the same table measured on the live class (used when the source no longer spells the truncation as the
    conditional expression above, e.g. after it was moved into a helper): format probe records whose target /
    module / funcName have every length 0..89 (pairwise distinct characters) through the real
    ScrapliFormatter.formatMessage and read the three attributes back.  Accepted only if, for every length, the
    result is the input itself up to some limit and input[:keep] + one fixed suffix above it."""
    import logging as _logging
    from vlib.common import use_repo
    use_repo()
    from scrapli.logging import ScrapliFormatter
    fmt = ScrapliFormatter(log_header=False, caller_info=True)
    top = 90

    def text(n):
        return "".join(chr(0x4E00 + i) for i in range(n))
    seen = {"target": [], "module": [], "funcName": []}
    for n in range(top):
        rec = _logging.LogRecord("scrapli.translate", 20, "probe.py", 1, "m", None, None, func=text(n))
        rec.module, rec.message, rec.asctime = text(n), "m", "t"
        if n:
            rec.host, rec.port = text(n - 1), ""       # target = host + ":" has length n
        try:
            fmt.formatMessage(rec)
        except Exception as e:
            raise TranslateError(f"{LOGGING}: truncation probe: formatMessage raised {e!r} at length {n}")
        seen["target"].append(((text(n - 1) + ":") if n else "", rec.target))
        seen["module"].append((text(n), rec.module))
        seen["funcName"].append((text(n), rec.funcName))
    out = {}
    for k, pairs in seen.items():
        limit = -1
        while limit + 1 < top and pairs[limit + 1][0] == pairs[limit + 1][1]:
            limit += 1
        if limit < 0 or limit + 2 >= top:
            raise TranslateError(f"{LOGGING}: truncation probe: no cut point for record.{k} below length {top}")
        i, o = pairs[limit + 1]
        keep = 0
        while keep < min(len(i), len(o)) and i[keep] == o[keep]:
            keep += 1
        suf = o[keep:]
        for i, o in pairs[limit + 1:]:
            if o != i[:keep] + suf:
                raise TranslateError(f"{LOGGING}: truncation probe: record.{k} of length {len(i)} is not input[:{keep}] + {suf!r}")
        out[k] = (limit, limit, keep, suf)
    return out


def _logger_calls(fn):
    """[(method, [arg nodes])] of `self.logger.<method>(...)` calls in fn, in source order"""
    calls = []
    for n in ast.walk(fn):
        if isinstance(n, ast.Call) and isinstance(n.func, ast.Attribute) and _is_attr(n.func.value, "self", "logger"):
            calls.append((n.lineno, n.func.attr, n.args))
    return [(m, a) for _, m, a in sorted(calls, key=lambda x: x[0])]


def _read_site(rel, cls):
    fn = _func(_cls(_parse(rel), cls, rel), "read", rel)
    calls = _logger_calls(fn)
    if len(calls) != 1 or calls[0][0] != "debug" or len(calls[0][1]) != 2:
        raise TranslateError(f"{rel}: {cls}.read: expected exactly one self.logger.debug(template, buf) call")
    tmpl = _const_eval(calls[0][1][0], rel)
    if not isinstance(calls[0][1][1], ast.Name):
        raise TranslateError(f"{rel}: {cls}.read: log argument is not a plain name")
    logged = calls[0][1][1].id
    # buf = buf.replace(b"\r", b"")
    repl = None
    replaces = [n for n in ast.walk(fn) if isinstance(n, ast.Call) and isinstance(n.func, ast.Attribute) and n.func.attr in ("replace", "translate")]
    if len(replaces) != 1:      # a second (possibly chained) replace would strip a byte the model does not know about
        raise TranslateError(f"{rel}: {cls}.read: expected exactly one .replace() call, found {len(replaces)}")
    for n in replaces:
        if n.func.attr == "replace" and isinstance(n.func.value, ast.Name) and n.func.value.id == logged:
            repl = tuple(_const_eval(a, rel) for a in n.args)
    if repl is None or len(repl) != 2 or not all(isinstance(x, bytes) for x in repl) or len(repl[0]) != 1 or repl[1] != b"":
        raise TranslateError(f"{rel}: {cls}.read: expected `{logged}.replace(<one byte>, b\"\")`, got {repl!r}")
    # channel log write of the same name
    wrote = [n for n in ast.walk(fn) if isinstance(n, ast.Call) and isinstance(n.func, ast.Attribute) and n.func.attr == "write"
             and _is_attr(n.func.value, "self", "channel_log")]
    if len(wrote) != 1 or len(wrote[0].args) != 1 or not isinstance(wrote[0].args[0], ast.Name) or wrote[0].args[0].id != logged:
        raise TranslateError(f"{rel}: {cls}.read: expected exactly one self.channel_log.write({logged})")
    # statement order: strip the byte, then log, then write the channel log; nothing may rebind the name in between
    log_call = [n for n in ast.walk(fn) if isinstance(n, ast.Call) and isinstance(n.func, ast.Attribute) and _is_attr(n.func.value, "self", "logger")][0]
    if not replaces[0].lineno < log_call.lineno < wrote[0].lineno:
        raise TranslateError(f"{rel}: {cls}.read: expected the order replace -> logger.debug -> channel_log.write")
    rebinds = [n.lineno for n in ast.walk(fn) if isinstance(n, ast.Assign) and any(isinstance(t, ast.Name) and t.id == logged for t in n.targets)]
    if any(replaces[0].lineno < ln <= wrote[0].lineno for ln in rebinds):
        raise TranslateError(f"{rel}: {cls}.read: `{logged}` is reassigned between the CR removal and the channel log write")
    # the channel log is written nowhere else in the module
    everywhere = [n for n in ast.walk(_parse(rel)) if isinstance(n, ast.Call) and isinstance(n.func, ast.Attribute) and n.func.attr in ("write", "writelines")
                  and isinstance(n.func.value, ast.Attribute) and n.func.value.attr == "channel_log"]
    if len(everywhere) != 1:
        raise TranslateError(f"{rel}: the channel log is written at {len(everywhere)} places, expected only {cls}.read")
    return tmpl, repl[0][0]


NOTES = []      # what could not be read from the AST this run (props/c20.py copies it into the evidence)


def _note(msg):
    if msg not in NOTES:
        NOTES.append(msg)


def _baseline(name):
    """the definition of `name` in the Gen file on disk (the hand-written / last generated model): used only for a fact that
    can be neither read nor measured — the per-run correspondence is then the tie for it"""
    from vlib.common import VERIF
    txt = (VERIF / "lean" / "ScrapliModel" / "Gen" / "LogConsts.lean").read_text()
    m = re.search(rf"^def {name} : [^\n]*?:= (.*(?:\n  .*)*)$", txt, re.M)
    if not m:
        raise TranslateError(f"no baseline value for {name}")
    return m.group(1)


def _live():
    from vlib.common import use_repo
    use_repo()
    import scrapli.logging as L
    return L


def _formatter_ast(tree):
    """formats, first id, header constants as the source spells them"""
    fcls = _cls(tree, "ScrapliFormatter", LOGGING)
    init = _func(fcls, "__init__", LOGGING)
    fmts = []
    for n in ast.walk(init):
        if isinstance(n, ast.Assign) and len(n.targets) == 1 and isinstance(n.targets[0], ast.Name) and n.targets[0].id == "log_format":
            fmts.append((n.lineno, _const_eval(n.value, LOGGING)))
    fmts = [f for _, f in sorted(fmts)]
    if len(fmts) != 2 or not all(isinstance(f, str) for f in fmts):
        raise TranslateError(f"{LOGGING}: expected two log_format assignments (plain, caller_info), got {len(fmts)}")
    style = [k.value for n in ast.walk(init) if isinstance(n, ast.Call) for k in n.keywords if k.arg == "style"]
    if len(style) != 1 or _const_eval(style[0], LOGGING) != "{":
        raise TranslateError(f"{LOGGING}: formatter style is not '{{'")
    start_id = _self_attr_assigns(init, [])
    if "message_id" not in start_id:
        raise TranslateError(f"{LOGGING}: self.message_id initial value not found")
    first_id = _const_eval(start_id["message_id"][0], LOGGING)
    hdr_init = {k: _const_eval(v[-1], LOGGING) for k, v in _self_attr_assigns(init, ["header_record"]).items()}
    fm = _func(fcls, "formatMessage", LOGGING)
    hdr_fm = _self_attr_assigns(fm, ["header_record"])
    hdr = dict(hdr_init)
    for k in ("message_id", "lineno"):
        if k not in hdr_fm:
            raise TranslateError(f"{LOGGING}: formatMessage does not set header_record.{k}")
        hdr[k] = _const_eval(hdr_fm[k][-1], LOGGING)
    tgt = hdr_fm.get("target")
    try:
        call = tgt[-1]
        assert isinstance(call, ast.Call) and call.func.attr == "ljust" and isinstance(call.func.value, ast.Constant)
        arg = call.args[0]
        assert isinstance(arg, ast.Call) and arg.func.id == "len" and _is_attr(arg.args[0], "record", "target") and len(call.args) == 1
        hdr["target"] = call.func.value.value
    except (AssertionError, TypeError, AttributeError, IndexError):
        raise TranslateError(f"{LOGGING}: header target is not `<const>.ljust(len(record.target))`")
    return {"plain": fmts[0], "caller": fmts[1], "first_id": first_id, "hdr": {k: hdr.get(k) for k in HDR_KEYS}}


HDR_KEYS = ["message_id", "asctime", "levelname", "target", "module", "funcName", "lineno", "message"]


def _formatter_live():
    """the same facts MEASURED on live ScrapliFormatter objects: the format string each instance hands to logging
    (caller_info off / on), the style class, the first message id, and the header record as it stands after the first
    message was formatted (empty target: the header target is its constant; a 25 character target: it is padded to 25)"""
    import logging as _logging
    L = _live()
    out = {}
    for key, ci in (("plain", False), ("caller", True)):
        f = L.ScrapliFormatter(log_header=True, caller_info=ci)
        if not isinstance(f._style, _logging.StrFormatStyle):
            raise TranslateError(f"{LOGGING}: live formatter style is {type(f._style).__name__}, not '{{'")
        out[key] = f._fmt
        if not isinstance(out[key], str):
            raise TranslateError(f"{LOGGING}: live formatter has no format string")
    f = L.ScrapliFormatter(log_header=True, caller_info=True)
    out["first_id"] = f.message_id

    def probe(host=None):
        r = _logging.LogRecord("scrapli.translate", 20, "probe.py", 1, "m", None, None, func="f")
        r.message, r.asctime = "m", "t"
        if host is not None:
            r.host, r.port = host, "1"
        return r
    f.formatMessage(probe())
    hdr = {k: getattr(f.header_record, k, None) for k in HDR_KEYS}
    g = L.ScrapliFormatter(log_header=True, caller_info=False)
    g.formatMessage(probe("h" * 23))
    if not (isinstance(hdr["target"], str) and g.header_record.target == hdr["target"].ljust(25) and f.message_id == out["first_id"] + 1):
        raise TranslateError(f"{LOGGING}: live header target is not <const>.ljust(len(record.target)) / message_id does not advance by one")
    out["hdr"] = hdr
    return out


def _handler_ast(tree):
    hcls = _cls(tree, "ScrapliFileHandler", LOGGING)
    hinit = _self_attr_assigns(_func(hcls, "__init__", LOGGING), [])
    if "_read_msg_prefix" not in hinit:
        raise TranslateError(f"{LOGGING}: ScrapliFileHandler._read_msg_prefix not found")
    prefix = _const_eval(hinit["_read_msg_prefix"][0], LOGGING)
    eb = _func(hcls, "emit_buffered", LOGGING)
    heads = []
    for n in ast.walk(eb):
        if isinstance(n, ast.Assign) and len(n.targets) == 1 and isinstance(n.targets[0], ast.Attribute) and n.targets[0].attr == "msg":
            v = n.value
            if not (isinstance(v, ast.JoinedStr) and len(v.values) == 2 and isinstance(v.values[0], ast.Constant)
                    and isinstance(v.values[1], ast.FormattedValue) and v.values[1].conversion == ord("r")
                    and v.values[1].format_spec is None and _is_attr(v.values[1].value, "self", "_record_msg_buf")):
                raise TranslateError(f"{LOGGING}:{n.lineno}: coalesced message is not f\"<head>{{self._record_msg_buf!r}}\"")
            heads.append(v.values[0].value)
    if len(heads) != 1:
        raise TranslateError(f"{LOGGING}: emit_buffered: expected one assignment to <record>.msg")
    return {"prefix": prefix, "head": heads[0]}


def _handler_live():
    """MEASURED on a live ScrapliFileHandler writing a temp file through a bare '%(message)s' formatter: the coalesced head
    = what precedes repr(payload) in the line two probe read records give; the prefix = the longest prefix p of the
    handler's own `_read_msg_prefix` candidate such that records starting with p are coalesced and a record that differs
    in p's last character is not"""
    import logging as _logging, os as _os, tempfile as _tf
    L = _live()
    d = _tf.mkdtemp(prefix="verif-c20-gen-")

    def life(msgs):
        path = _os.path.join(d, "p.log")
        h = L.ScrapliFileHandler(path, mode="w", encoding="utf-8")
        h.setFormatter(_logging.Formatter("%(message)s"))
        for m in msgs:
            h.handle(_logging.LogRecord("scrapli.translate", 10, "probe.py", 1, m, None, None))
        h.close()
        with open(path, encoding="utf-8") as fh:
            return fh.read().split("\n")[:-1]
    try:
        cand = getattr(L.ScrapliFileHandler(_os.path.join(d, "q.log"), mode="w", encoding="utf-8", delay=True), "_read_msg_prefix", None)
        if not isinstance(cand, str) or not cand:
            raise TranslateError(f"{LOGGING}: live handler has no read prefix to probe")
        lines = life([cand + "AB", cand + "CD"])
        if len(lines) != 1 or not lines[0].endswith(repr(b"ABCD")):
            raise TranslateError(f"{LOGGING}: live handler does not coalesce two records starting with {cand!r}: {lines!r}")
        head = lines[0][: -len(repr(b"ABCD"))]
        other = cand[:-1] + ("#" if cand[-1] != "#" else "!")
        if len(life([other + "AB", other + "CD"])) != 2 or len(life([cand[:-1], cand[:-1]])) != 2:
            raise TranslateError(f"{LOGGING}: live handler coalesces records that do not start with {cand!r}")
        return {"prefix": cand, "head": head}
    finally:
        import shutil as _sh
        _sh.rmtree(d, ignore_errors=True)


def _modes_ast(tree):
    ebl = _func(tree, "enable_basic_logging", LOGGING)
    modes, fmode, dflt = None, None, None
    for n in ast.walk(ebl):
        if isinstance(n, ast.Compare) and isinstance(n.left, ast.Call) and not (
                isinstance(n.left.func, ast.Attribute) and n.left.func.attr == "lower" and isinstance(n.left.func.value, ast.Name)
                and n.left.func.value.id == "mode" and not n.left.args):
            raise TranslateError(f"{LOGGING}:{n.lineno}: enable_basic_logging compares something other than mode.lower() (the model lowers ASCII case)")
        if isinstance(n, ast.Compare) and len(n.ops) == 1 and isinstance(n.ops[0], ast.NotIn):
            modes = _const_eval(n.comparators[0], LOGGING)
        if isinstance(n, ast.Assign) and isinstance(n.targets[0], ast.Name) and n.targets[0].id == "file_mode" and isinstance(n.value, ast.IfExp):
            v = n.value
            if isinstance(v.test, ast.Compare) and isinstance(v.test.ops[0], ast.Eq):
                fmode = (_const_eval(v.test.comparators[0], LOGGING), _const_eval(v.body, LOGGING), _const_eval(v.orelse, LOGGING))
        if isinstance(n, ast.Assign) and isinstance(n.targets[0], ast.Name) and n.targets[0].id == "filename" and isinstance(n.value, ast.IfExp):
            dflt = _const_eval(n.value.body, LOGGING)
    if not (isinstance(modes, tuple) and len(modes) == 2 and fmode and fmode[0] in modes and isinstance(dflt, str)):
        raise TranslateError(f"{LOGGING}: enable_basic_logging mode table / default file not recognised: {modes!r} {fmode!r} {dflt!r}")
    other = [m for m in modes if m != fmode[0]][0]
    return {"modes": [(fmode[0], fmode[1]), (other, fmode[2])], "default": dflt}


def _modes_live():
    """MEASURED by calling enable_basic_logging on temp files: which of a list of candidate mode words it accepts (exactly
    as written and in other ASCII case: the model lowers ASCII case) and the file mode of the handler it installs; the
    default file name = the handler's file for file=True in an empty working directory.  Logger state is restored."""
    import logging as _logging, os as _os, tempfile as _tf, shutil as _sh
    L = _live()
    from scrapli.exceptions import ScrapliException
    lg = _logging.getLogger("scrapli")
    saved = (lg.level, lg.propagate, list(lg.handlers))
    d = _tf.mkdtemp(prefix="verif-c20-gen-")
    cwd = _os.getcwd()

    def call(**kw):
        try:
            L.enable_basic_logging(level="debug", **kw)
        except ScrapliException:
            return None
        finally:
            new = [h for h in lg.handlers if h not in saved[2]]
            for h in new:
                lg.removeHandler(h)
                h.close()
        return new[0] if len(new) == 1 else False
    try:
        _os.chdir(d)
        tbl = []
        for word in ("append", "write", "a", "w", "overwrite", "read", "", "truncate", "x"):
            got = [call(file=_os.path.join(d, "m.log"), mode=w) for w in (word, word.upper(), word.capitalize())]
            if any(g is False for g in got) or len({(g.mode if g else None) for g in got}) != 1:
                raise TranslateError(f"{LOGGING}: enable_basic_logging treats {word!r} differently in different ASCII case / installs several handlers")
            if got[0]:
                tbl.append((word, got[0].mode))
        h = call(file=True, mode="write")
        if not h or not tbl:
            raise TranslateError(f"{LOGGING}: enable_basic_logging(file=True) installed no handler")
        return {"modes": sorted(tbl), "default": _os.path.basename(h.baseFilename)}
    finally:
        _os.chdir(cwd)
        lg.setLevel(saved[0]); lg.propagate = saved[1]
        _sh.rmtree(d, ignore_errors=True)


def _fact(label, read, measure):
    """AST where it has the familiar shape (cross-checked against the live objects), else measured; (value | None, how)"""
    a = m = None
    try:
        a = read()
    except TranslateError as e:
        _note(f"translator: {label}: source shape not recognised ({str(e)[:160]})")
    try:
        m = measure()
    except Exception as e:        # noqa: a probe that cannot run is not a verdict
        _note(f"translator: {label}: could not be measured on the live objects ({e!r})"[:260])
    if a is not None and m is not None and a != m:
        _note(f"translator: {label}: the source text reads {a!r} but the live objects give {m!r}: the live value is used")
        return m
    if a is None and m is not None:
        _note(f"translator: {label}: measured on the live objects")
    return a if a is not None else m


def generate():
    del NOTES[:]
    tree = _parse(LOGGING)
    # ---- formatter
    F = _fact("formatter formats / header", lambda: _formatter_ast(tree), _formatter_live)
    plain = caller = None
    if F is not None:
        try:
            plain, caller = parse_format(F["plain"], LOGGING), parse_format(F["caller"], LOGGING)
            for k in HDR_KEYS:
                if not isinstance(F["hdr"].get(k), str):
                    raise TranslateError(f"{LOGGING}: header field {k} is not a str constant: {F['hdr'].get(k)!r}")
        except TranslateError as e:
            _note(f"translator: formatter formats / header: {str(e)[:200]}")
            F = None
    first_id, hdr = (F["first_id"], F["hdr"]) if F is not None else (None, None)
    tr = None
    try:
        try:
            tr = _truncations(_func(_cls(tree, "ScrapliFormatter", LOGGING), "formatMessage", LOGGING), LOGGING)
        except TranslateError:
            tr = {}
        if not all(k in tr for k in ("target", "module", "funcName")):
            tr = _truncations_probe()     # not spelled out in formatMessage (helper function, ...): measure it
        if tr["module"] != tr["funcName"]:
            raise TranslateError(f"{LOGGING}: module and funcName are truncated differently: {tr['module']} vs {tr['funcName']}")
        for k, (a, limit, keep, suf) in tr.items():
            if a < limit:
                raise TranslateError(f"{LOGGING}: record.{k}[:{a}] cuts strings no longer than {limit}")
        if tr["target"][3] != tr["module"][3]:
            raise TranslateError(f"{LOGGING}: different truncation suffixes")
    except TranslateError as e:
        _note(f"translator: truncation limits: {str(e)[:200]}")
        tr = None
    # ---- handler
    H = _fact("ScrapliFileHandler read prefix / coalesced head", lambda: _handler_ast(tree), _handler_live)
    prefix, heads = (H["prefix"], [H["head"]]) if H is not None else (None, [None])
    # ---- enable_basic_logging
    M = _fact("enable_basic_logging mode table / default file", lambda: _modes_ast(tree), _modes_live)
    mode_tbl, dflt = (M["modes"], M["default"]) if M is not None else (None, None)
    # ---- channel call sites
    C = _fact("channel log templates / stripped byte / default channel log", _chan_ast, _chan_live)
    rs, cr_s, w_tmpl, w_red, chan_dflt = (C["read"], C["cr"], C["write"], C["redacted"], C["default"]) if C is not None else (None,) * 5

    unreadable = []

    def put(name, typ, value, render, doc=None):
        """one definition of the Gen file: the value read / measured this run, else the definition the Gen file already has"""
        text = None
        if value is not None:
            try:
                text = render(value)
            except (TranslateError, TypeError, ValueError, KeyError) as e:
                _note(f"translator: {name}: {str(e)[:160]}")
        if text is None:
            text = _baseline(name)          # (raises TranslateError only when there is no Gen file at all)
            unreadable.append(name)
        return (f"/-- {doc} -/\n" if doc else "") + f"def {name} : {typ} := {text}\n"

    nat = lambda v: str(int(v))
    body = HEADER.format(src=f"{LOGGING}, {BASE}, {SYNC}, {ASYNC}")
    body += "import ScrapliModel.LogTypes\nnamespace Scrapli.Gen.Log\nopen Scrapli.Log\n"
    body += put("fmtPlain", "List Piece", plain, lpieces, "ScrapliFormatter.__init__: log_format (caller_info=False), parsed by string.Formatter")
    body += put("fmtCaller", "List Piece", caller, lpieces, "ScrapliFormatter.__init__: log_format (caller_info=True)")
    body += put("firstMessageId", "Nat", first_id, nat)
    body += put("targetLimit", "Nat", tr and tr["target"][1], nat) + put("targetKeep", "Nat", tr and tr["target"][2], nat)
    body += put("callerLimit", "Nat", tr and tr["module"][1], nat) + put("callerKeep", "Nat", tr and tr["module"][2], nat)
    body += put("ellipsis", "Str", tr and tr["target"][3], lstr)
    for k, n in (("message_id", "hdrMessageId"), ("asctime", "hdrAsctime"), ("levelname", "hdrLevelname"), ("target", "hdrTarget"),
                 ("module", "hdrModule"), ("funcName", "hdrFuncName"), ("lineno", "hdrLineno"), ("message", "hdrMessage")):
        body += put(n, "Str", hdr and hdr[k], lstr)
    body += put("readPrefix", "Str", prefix, lstr, "ScrapliFileHandler._read_msg_prefix")
    body += put("bufferedHead", "Str", heads[0], lstr, "literal head of the coalesced message f\"...{self._record_msg_buf!r}\"")
    body += put("logModes", "List (Str × Str)", mode_tbl, lambda t: "[" + ", ".join(f"({lstr(a)}, {lstr(b)})" for a, b in t) + "]",
                "enable_basic_logging: (mode, file mode)")
    body += put("defaultLogFile", "Str", dflt, lstr)
    body += put("chanReadTemplate", "Str", rs, lstr, "Channel.read / AsyncChannel.read: self.logger.debug(<template>, buf)")
    body += put("chanWriteTemplate", "Str", w_tmpl, lstr, "BaseChannel.write") + put("chanWriteRedacted", "Str", w_red, lstr)
    body += put("strippedByte", "UInt8", cr_s, nat, "the byte `read()` removes from every chunk: buf.replace(b\"\\r\", b\"\")")
    body += put("defaultChannelLog", "Str", chan_dflt, lstr)
    body += "end Scrapli.Gen.Log\n"
    if unreadable:
        _note("translator: shape unreadable, tie = correspondence only: " + ", ".join(unreadable) + " (kept as in the Gen file on disk)")
    return [("ScrapliModel/Gen/LogConsts.lean", body)]


def _chan_ast():
    rs, cr_s = _read_site(SYNC, "Channel")
    ra, cr_a = _read_site(ASYNC, "AsyncChannel")
    if (rs, cr_s) != (ra, cr_a):
        raise TranslateError(f"sync and async Channel.read differ: {(rs, cr_s)!r} vs {(ra, cr_a)!r}")
    bcls = _cls(_parse(BASE), "BaseChannel", BASE)
    stray = [n.lineno for n in ast.walk(_parse(BASE)) if isinstance(n, ast.Call) and isinstance(n.func, ast.Attribute)
             and n.func.attr in ("write", "writelines") and isinstance(n.func.value, ast.Attribute) and n.func.value.attr == "channel_log"]
    if stray:
        raise TranslateError(f"{BASE}: the channel log is written outside Channel.read / AsyncChannel.read (lines {stray})")
    wcalls = _logger_calls(_func(bcls, "write", BASE))
    if len(wcalls) != 2 or any(m != "debug" for m, _ in wcalls):
        raise TranslateError(f"{BASE}: BaseChannel.write: expected two self.logger.debug calls (redacted, plain)")
    redacted = [a for _, a in wcalls if len(a) == 1]
    plainw = [a for _, a in wcalls if len(a) == 2]
    if len(redacted) != 1 or len(plainw) != 1:
        raise TranslateError(f"{BASE}: BaseChannel.write: log calls have unexpected arity")
    w_red, w_tmpl = _const_eval(redacted[0][0], BASE), _const_eval(plainw[0][0], BASE)
    chan_dflt = None
    for n in ast.walk(_func(bcls, "open", BASE)):
        if isinstance(n, ast.Assign) and isinstance(n.targets[0], ast.Name) and n.targets[0].id == "channel_log_destination" \
                and isinstance(n.value, ast.Constant):
            chan_dflt = n.value.value
    if not isinstance(chan_dflt, str):
        raise TranslateError(f"{BASE}: default channel log destination not found")
    for t in (rs, w_tmpl, w_red):
        if not isinstance(t, str):
            raise TranslateError(f"log template is not a str: {t!r}")
    return {"read": rs, "cr": cr_s, "write": w_tmpl, "redacted": w_red, "default": chan_dflt}


def _chan_live():
    """MEASURED on live Channel and AsyncChannel objects (a transport that serves all 256 byte values once, a logger that
    records its calls): the template and argument of the one log call of read(), the byte missing from the argument, the
    two templates of write(), the file channel.open() creates for channel_log=True in an empty directory"""
    import asyncio as _aio, os as _os, tempfile as _tf, shutil as _sh
    _live()
    from scrapli.channel import AsyncChannel, Channel
    from scrapli.channel.base_channel import BaseChannelArgs
    served = bytes(range(256))

    class Lg:
        def __init__(self):
            self.calls = []

        def debug(self, *a, **k):
            self.calls.append(a)
        info = warning = error = critical = debug

    from scrapli.transport.base.base_transport import BaseTransportArgs

    class T:
        _base_transport_args = BaseTransportArgs(transport_options={}, host="probe", port=22, timeout_socket=0, timeout_transport=0)

        def read(self):
            return served

        def write(self, *a, **k):
            pass

    class AT(T):
        async def read(self):
            return served
    out = []
    d = _tf.mkdtemp(prefix="verif-c20-gen-")
    cwd = _os.getcwd()
    try:
        _os.chdir(d)
        for cls, tr_ in ((Channel, T()), (AsyncChannel, AT())):
            ch = cls(transport=tr_, base_channel_args=BaseChannelArgs(channel_log=True))
            ch.logger = Lg()
            ch.open()
            made = sorted(_os.listdir(d))
            n0 = len(ch.logger.calls)
            buf = _aio.run(ch.read()) if cls is AsyncChannel else ch.read()
            rcalls = ch.logger.calls[n0:]
            ch.close()
            if len(rcalls) != 1 or len(rcalls[0]) != 2 or rcalls[0][1] != buf:
                raise TranslateError(f"{cls.__name__}.read: expected one logger call (template, buf), got {rcalls!r}"[:200])
            gone = [b for b in range(256) if b not in buf]
            if len(gone) != 1 or buf != served.replace(bytes(gone), b""):
                raise TranslateError(f"{cls.__name__}.read does not remove exactly one byte value: {gone!r}")
            with open(_os.path.join(d, made[0]), "rb") as fh:
                if len(made) != 1 or fh.read() != buf:
                    raise TranslateError(f"{cls.__name__}: channel log is not the bytes read() returned")
            n0 = len(ch.logger.calls)
            ch.write("probe")
            ch.write("secret", redacted=True)
            w = ch.logger.calls[n0:]
            if len(w) != 2 or len(w[0]) != 2 or len(w[1]) != 1 or w[0][1] != "probe":
                raise TranslateError(f"{cls.__name__}.write: unexpected logger calls {w!r}"[:200])
            out.append({"read": rcalls[0][0], "cr": gone[0], "write": w[0][0], "redacted": w[1][0], "default": made[0]})
            _os.remove(_os.path.join(d, made[0]))
        if out[0] != out[1]:
            raise TranslateError(f"sync and async channels differ: {out!r}")
        return out[0]
    finally:
        _os.chdir(cwd)
        _sh.rmtree(d, ignore_errors=True)
